(* Extraction of the end-to-end trace monitors (ExtrOcamlBasic only). *)
From Coq Require Extraction.
From Coq Require Import ExtrOcamlBasic.
From SQ Require Import lib.Base.
From SQ Require model.E2E.
Extraction Language OCaml.

Definition e2e_run := E2E.e2e_run.
Definition e2e_stream_judge := E2E.e2e_stream_judge.
Definition e2e_amp_judge := E2E.e2e_amp_judge.
Definition e2e_inject_judge := E2E.e2e_inject_judge.
Definition e2e_stream_judge_c01 := E2E.e2e_stream_judge_c01.
Definition e2e_stream_judge_c02 := E2E.e2e_stream_judge_c02.
Definition e2e_stream_judge_c03 := E2E.e2e_stream_judge_c03.
Definition e2e_stream_judge_c12 := E2E.e2e_stream_judge_c12.
Definition e2e_pn_judge := E2E.e2e_pn_judge.
Definition e2e_cid_judge := E2E.e2e_cid_judge.
Definition e2e_cc_judge := E2E.e2e_cc_judge.
Definition e2e_violate_judge := E2E.e2e_violate_judge.
Extraction "../ocaml/gen/E2E/model.ml" e2e_pn_judge e2e_cid_judge e2e_cc_judge e2e_violate_judge e2e_run e2e_stream_judge e2e_amp_judge e2e_inject_judge
  e2e_stream_judge_c01 e2e_stream_judge_c02 e2e_stream_judge_c03 e2e_stream_judge_c12.
