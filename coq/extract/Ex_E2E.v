(* Extraction of the end-to-end trace monitors (ExtrOcamlBasic only). *)
From Coq Require Extraction.
From Coq Require Import ExtrOcamlBasic.
From SQ Require Import lib.Base.
From SQ Require model.E2E.
Extraction Language OCaml.

Definition e2e_run := E2E.e2e_run.
Definition e2e_stream_judge := E2E.e2e_stream_judge.
Extraction "../ocaml/gen/E2E/model.ml" e2e_run e2e_stream_judge.
