(* Extraction of the C19 models (ExtrOcamlBasic only; N, Z, positive stay extracted inductives). *)
From Coq Require Extraction.
From Coq Require Import ExtrOcamlBasic.
From SQ Require Import lib.Base.
From SQ Require model.DcReceiver model.DcSender model.DcDedup.
Extraction Language OCaml.

Definition dcr_run := DcReceiver.run.
Definition dcr_judge := DcReceiver.judge.
Definition dcs_run := DcSender.run.
Definition dcs_judge := DcSender.judge.
Definition dedup_run := DcDedup.run.
Definition dedup_judge := DcDedup.judge.
Extraction "../ocaml/gen/C19/model.ml" dcr_run dcr_judge dcs_run dcs_judge dedup_run dedup_judge.
