(* Extraction of the C16 models (ExtrOcamlBasic only; N, Z, positive stay extracted inductives). *)
From Coq Require Extraction.
From Coq Require Import ExtrOcamlBasic.
From SQ Require Import lib.Base.
From SQ Require model.SlidingWindow model.IntervalSet model.AckRanges model.PnMap.
Extraction Language OCaml.

Definition sw_run := SlidingWindow.run.
Definition sw_judge := SlidingWindow.judge.
Definition iset_run := IntervalSet.run.
Definition iset_judge := IntervalSet.judge.
Definition ack_run := AckRanges.run.
Definition ack_judge := AckRanges.judge.
Definition pnmap_run := PnMap.run.
Definition pnmap_judge := PnMap.judge.
Extraction "../ocaml/gen/C16/model.ml" sw_run sw_judge iset_run iset_judge ack_run ack_judge pnmap_run pnmap_judge.
