(* Extraction of the C16 models (ExtrOcamlBasic only; N, Z, positive stay extracted inductives). *)
From Coq Require Extraction.
From Coq Require Import ExtrOcamlBasic.
From SQ Require Import lib.Base.
From SQ Require model.SlidingWindow.
Extraction Language OCaml.

Definition sw_run := SlidingWindow.run.
Definition sw_judge := SlidingWindow.judge.
Extraction "../ocaml/gen/C16/model.ml" sw_run sw_judge.
