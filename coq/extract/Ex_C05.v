(* Extraction of the C05 models (ExtrOcamlBasic only; N, Z, positive stay extracted inductives). *)
From Coq Require Extraction.
From Coq Require Import ExtrOcamlBasic.
From SQ Require Import lib.Base.
From SQ Require model.Varint.
Extraction Language OCaml.

Definition varint_run := Varint.run.
Definition varint_judge := Varint.judge.
Extraction "../ocaml/gen/C05/model.ml" varint_run varint_judge.
