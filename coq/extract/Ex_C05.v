(* Extraction of the C05 models (ExtrOcamlBasic only; N, Z, positive stay extracted inductives). *)
From Coq Require Extraction.
From Coq Require Import ExtrOcamlBasic.
From SQ Require Import lib.Base.
From SQ Require model.Varint model.Frame model.PacketHeader model.TpGrammar model.PnExpand model.Fit model.ShortBits.
Extraction Language OCaml.

Definition varint_run := Varint.run.
Definition varint_judge := Varint.judge.
Definition frames_run := Frame.run.
Definition frames_judge := Frame.judge.
Definition packets_run := PacketHeader.run.
Definition packets_judge := PacketHeader.judge.
Definition pn_run := PacketHeader.run_pn.
Definition pn_judge := PacketHeader.judge_pn.
Definition tparams_run := TpGrammar.run.
Definition tparams_judge := TpGrammar.judge.
Definition tparams_total_run := TpGrammar.run_total.
Definition tparams_total_judge := TpGrammar.judge_total.
Definition pnx_run := PnExpand.run.
Definition pnx_judge := PnExpand.judge.
Definition fit_run := Fit.run.
Definition fit_judge := Fit.judge.
Definition shortbits_run := ShortBits.run.
Definition shortbits_judge := ShortBits.judge.
Extraction "../ocaml/gen/C05/model.ml" varint_run varint_judge frames_run frames_judge packets_run packets_judge pn_run pn_judge tparams_run tparams_judge tparams_total_run tparams_total_judge pnx_run pnx_judge fit_run fit_judge shortbits_run shortbits_judge.
