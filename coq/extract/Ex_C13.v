(* Extraction of the C13 models (ExtrOcamlBasic only; N, Z, positive stay extracted inductives). *)
From Coq Require Extraction.
From Coq Require Import ExtrOcamlBasic.
From SQ Require Import lib.Base.
From SQ Require model.LocalIds model.PeerIds.
Extraction Language OCaml.

Definition lcid_run := LocalIds.run.
Definition lcid_judge := LocalIds.judge.
Definition pcid_run := PeerIds.run.
Definition pcid_judge := PeerIds.judge.
Extraction "../ocaml/gen/C13/model.ml" lcid_run lcid_judge pcid_run pcid_judge.
