(* Extraction of the C14 models (ExtrOcamlBasic only; N, Z, positive stay extracted inductives). *)
From Coq Require Extraction.
From Coq Require Import ExtrOcamlBasic.
From SQ Require Import lib.Base.
From SQ Require model.TransportParams model.Rfc18_2 model.TpClass.
Extraction Language OCaml.

Definition tp_run := TransportParams.run.
Definition tp_judge := Rfc18_2.judge.
Definition sess_run := TransportParams.sess_run.
Definition sess_judge := Rfc18_2.judge_sess.
Definition tp_class_run := TpClass.run.
Definition tp_class_judge := TpClass.judge.
Extraction "../ocaml/gen/C14/model.ml" tp_run tp_judge sess_run sess_judge tp_class_run tp_class_judge.
