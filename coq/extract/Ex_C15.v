(* Extraction of the C15 models (ExtrOcamlBasic only; N, Z, positive stay extracted inductives). *)
From Coq Require Extraction.
From Coq Require Import ExtrOcamlBasic.
From SQ Require Import lib.Base.
From SQ Require model.KeySet.
Extraction Language OCaml.

Definition ks_run := KeySet.ks_run.
Definition ks_judge := KeySet.ks_judge.
Definition duo_run := KeySet.duo_run.
Definition duo_judge := KeySet.duo_judge.
Definition rot_run := KeySet.rot_run.
Definition rot_judge := KeySet.rot_judge.
Extraction "../ocaml/gen/C15/model.ml" ks_run ks_judge duo_run duo_judge rot_run rot_judge.
