(* Extraction of the C12 models (ExtrOcamlBasic only; N, Z, positive stay extracted inductives). *)
From Coq Require Extraction.
From Coq Require Import ExtrOcamlBasic.
From SQ Require Import lib.Base.
From SQ Require model.DataSender model.SendJudge model.StreamId model.CloseSender.
Extraction Language OCaml.

Definition ss_run := DataSender.run.
Definition ss_judge := SendJudge.judge12.
Definition st_run := StreamId.run.
Definition st_judge := StreamId.judge12.
Definition cs_run := CloseSender.run.
Definition cs_judge := CloseSender.judge.
Extraction "../ocaml/gen/C12/model.ml" cs_run cs_judge st_run st_judge ss_run ss_judge.
