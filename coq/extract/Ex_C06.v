(* Extraction of the C06 models (ExtrOcamlBasic only; N, Z, positive stay extracted inductives). *)
From Coq Require Extraction.
From Coq Require Import ExtrOcamlBasic.
From SQ Require Import lib.Base.
From SQ Require model.HeaderProtection model.Nonce model.RxPipeline model.ResetMap.
Extraction Language OCaml.

Definition hp_run := HeaderProtection.run.
Definition hp_judge := HeaderProtection.judge.
Definition nonce_run := Nonce.run.
Definition nonce_judge := Nonce.judge.
Definition consts_run := Nonce.consts_run.
Definition consts_judge := Nonce.consts_judge.
Definition rxpipe_run := RxPipeline.run.
Definition rxpipe_judge := RxPipeline.judge.
Definition reset_run := RxPipeline.reset_run.
Definition reset_judge := RxPipeline.reset_judge.
Definition resetmap_run := ResetMap.run.
Definition resetmap_judge := ResetMap.judge.
Extraction "../ocaml/gen/C06/model.ml" hp_run hp_judge nonce_run nonce_judge consts_run consts_judge
  rxpipe_run rxpipe_judge reset_run reset_judge resetmap_run resetmap_judge.
