(* Extraction of the C10 models (ExtrOcamlBasic only; N, Z, positive stay extracted inductives). *)
From Coq Require Extraction.
From Coq Require Import ExtrOcamlBasic.
From SQ Require Import lib.Base.
From SQ Require model.Cubic model.Bbr model.CcGate.
Extraction Language OCaml.

Definition cubic_run := Cubic.run.
Definition cubic_judge := Cubic.judge.
Definition bbr_run := Bbr.run.
Definition bbr_judge := Bbr.judge.
Definition cubic_gate_judge := CcGate.cubic_gate_judge.
Extraction "../ocaml/gen/C10/model.ml" cubic_run cubic_judge bbr_run bbr_judge cubic_gate_judge.
