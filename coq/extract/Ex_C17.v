(* Extraction of the C17 models (ExtrOcamlBasic only; N, Z, positive stay extracted inductives). *)
From Coq Require Extraction.
From Coq Require Import ExtrOcamlBasic.
From SQ Require Import lib.Base.
From SQ Require model.Spsc model.SpscExplore model.CursorRing model.Worker model.RxRing model.TxRings.
Extraction Language OCaml.

Definition spsc_run := Spsc.run.
Definition spsc_judge := Spsc.judge.
Definition cursor_run := CursorRing.run.
Definition cursor_judge := CursorRing.judge.
Definition worker_run := Worker.run.
Definition worker_judge := Worker.judge.
Definition spsc_explore_run := SpscExplore.explore_run.
Definition spsc_explore_judge := SpscExplore.explore_judge.
Definition rxring_run := RxRing.run.
Definition rxring_judge := RxRing.judge.
Definition txrings_run := TxRings.run.
Definition txrings_judge := TxRings.judge.
Extraction "../ocaml/gen/C17/model.ml" txrings_run txrings_judge rxring_run rxring_judge spsc_explore_run spsc_explore_judge spsc_run spsc_judge cursor_run cursor_judge worker_run worker_judge.
