(* Extraction of the C17 models (ExtrOcamlBasic only; N, Z, positive stay extracted inductives). *)
From Coq Require Extraction.
From Coq Require Import ExtrOcamlBasic.
From SQ Require Import lib.Base.
From SQ Require model.Spsc.
Extraction Language OCaml.

Definition spsc_run := Spsc.run.
Definition spsc_judge := Spsc.judge.
Extraction "../ocaml/gen/C17/model.ml" spsc_run spsc_judge.
