(* Extraction of the C11 models (ExtrOcamlBasic only). *)
From Coq Require Extraction.
From Coq Require Import ExtrOcamlBasic.
From SQ Require Import lib.Base.
From SQ Require model.Amplification.
Extraction Language OCaml.

Definition amp_run := Amplification.amp_run.
Definition amp_judge := Amplification.amp_judge.
Definition amp_known := Amplification.amp_known.
Definition reset_run := Amplification.reset_run.
Definition reset_judge := Amplification.reset_judge.
Definition vn_run := Amplification.vn_run.
Definition vn_judge := Amplification.vn_judge.
Extraction "../ocaml/gen/C11/model.ml" amp_run amp_judge amp_known reset_run reset_judge vn_run vn_judge.
