(* Extraction of the C04 models (ExtrOcamlBasic only; N, Z, positive stay extracted inductives). *)
From Coq Require Extraction.
From Coq Require Import ExtrOcamlBasic.
From SQ Require Import lib.Base.
From SQ Require model.FlowRecv model.FlowRecvSpec model.StreamCtl model.StreamCtlSpec model.FrameVal model.CryptoRecv.
Extraction Language OCaml.

Definition rx_run := FlowRecv.run.
Definition rx_judge := FlowRecvSpec.judge.
Definition rx_judge_tolerant := FlowRecvSpec.judge_tolerant.
Definition crypto_run := CryptoRecv.crun.
Definition crypto_judge := CryptoRecv.cjudge.
Definition fv_run := FrameVal.fv_run.
Definition fv_judge := FrameVal.fv_judge.
Definition st_run := StreamCtl.srun.
Definition st_judge := StreamCtlSpec.sjudge.
Definition st_judge_tolerant := StreamCtlSpec.sjudge_tolerant.
Extraction "../ocaml/gen/C04/model.ml" rx_run rx_judge rx_judge_tolerant st_run st_judge st_judge_tolerant fv_run fv_judge crypto_run crypto_judge.
