(* Extraction of the C03 models (ExtrOcamlBasic only; N, Z, positive stay extracted inductives). *)
From Coq Require Extraction.
From Coq Require Import ExtrOcamlBasic.
From SQ Require Import lib.Base.
From SQ Require model.DataSender model.SendJudge model.StreamId.
Extraction Language OCaml.

Definition ss_run := DataSender.run.
Definition ss_judge := SendJudge.judge03.
Definition ssr_judge := SendJudge.judge03r.
Definition st_run := StreamId.run.
Definition st_judge := StreamId.judge03.
Extraction "../ocaml/gen/C03/model.ml" st_run st_judge ss_run ss_judge ssr_judge.
