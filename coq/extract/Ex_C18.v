(* Extraction of the C18 models (ExtrOcamlBasic only; N, Z, positive stay extracted inductives). *)
From Coq Require Extraction.
From Coq Require Import ExtrOcamlBasic.
From SQ Require Import lib.Base.
From SQ Require model.DcPacket model.DcMap model.DcKeys.
Extraction Language OCaml.

Definition sc_run := DcPacket.sc_run.
Definition sc_judge := DcPacket.sc_judge.
Definition pkt_run := DcPacket.pkt_run.
Definition pkt_judge := DcPacket.pkt_judge.
Definition map_run := DcMap.run.
Definition map_judge := DcMap.judge.
Definition keys_run := DcKeys.run.
Definition keys_judge := DcKeys.judge.
Extraction "../ocaml/gen/C18/model.ml" sc_run sc_judge pkt_run pkt_judge map_run map_judge keys_run keys_judge.
