(* Extraction of the C20 monitor (ExtrOcamlBasic only; N, Z, positive stay extracted inductives). *)
From Coq Require Extraction.
From Coq Require Import ExtrOcamlBasic.
From SQ Require Import lib.Base.
From SQ Require model.DcStream.
Extraction Language OCaml.

Definition dcsim_run := DcStream.dcsim_run.
Definition dcsim_judge := DcStream.dcsim_judge.
Definition dcrecv_run := DcStream.dcrecv_run.
Definition dcrecv_judge := DcStream.dcrecv_judge.
Extraction "../ocaml/gen/C20/model.ml" dcsim_run dcsim_judge dcrecv_run dcrecv_judge.
