(* Extraction of the C01 models (ExtrOcamlBasic only; N, Z, positive stay extracted inductives). *)
From Coq Require Extraction.
From Coq Require Import ExtrOcamlBasic.
From SQ Require Import lib.Base.
From SQ Require model.Reassembler.
Extraction Language OCaml.

Definition reasm_run := Reassembler.run.
Definition reasm_judge := Reassembler.judge.
Definition reasm_spec_run := Reassembler.spec_run.
Extraction "../ocaml/gen/C01/model.ml" reasm_run reasm_judge reasm_spec_run.
