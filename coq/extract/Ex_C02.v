(* Extraction of the C02 models (ExtrOcamlBasic only; N, Z, positive stay extracted inductives). *)
From Coq Require Extraction.
From Coq Require Import ExtrOcamlBasic.
From SQ Require Import lib.Base.
From SQ Require model.Sync model.IdleTimer model.RxWake.
Extraction Language OCaml.

Definition ivs_run := Sync.ivs_run.
Definition ivs_judge := Sync.ivs_judge.
Definition osync_run := Sync.osy_run.
Definition osync_judge := Sync.osy_judge.
Definition psync_run := Sync.psy_run.
Definition psync_judge := Sync.psy_judge.
Definition idle_run := IdleTimer.run.
Definition idle_judge := IdleTimer.judge.
Definition rxwake_run := RxWake.run.
Definition rxwake_judge := RxWake.judge.
Extraction "../ocaml/gen/C02/model.ml" ivs_run ivs_judge osync_run osync_judge psync_run psync_judge idle_run idle_judge rxwake_run rxwake_judge.
