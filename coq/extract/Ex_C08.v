(* Extraction of the C08 models (ExtrOcamlBasic only; N, Z, positive stay extracted inductives). *)
From Coq Require Extraction.
From Coq Require Import ExtrOcamlBasic.
From SQ Require Import lib.Base.
From SQ Require model.PacketNumber model.TxPn model.AckManager.
Extraction Language OCaml.

Definition pn_run := PacketNumber.run.
Definition pn_judge := PacketNumber.judge.
Definition txpn_run := TxPn.run.
Definition txpn_judge := TxPn.judge.
Definition ackmgr_run := AckManager.run.
Definition ackmgr_judge := AckManager.judge.
Extraction "../ocaml/gen/C08/model.ml" pn_run pn_judge txpn_run txpn_judge ackmgr_run ackmgr_judge.
