(* Extraction of the C09 models (ExtrOcamlBasic only; N, Z, positive stay extracted inductives). *)
From Coq Require Extraction.
From Coq Require Import ExtrOcamlBasic.
From SQ Require Import lib.Base.
From SQ Require model.Rtt model.Loss model.Pto model.Recovery model.PcComp model.RecoveryAcks.
Extraction Language OCaml.

Definition loss_run := Loss.run.
Definition loss_judge := Loss.judge.
Definition rtt_run := Rtt.run.
Definition rtt_judge := Rtt.judge.
Definition pto_run := Pto.run.
Definition pto_judge := Pto.judge.
Definition pc_run := PcComp.run.
Definition pc_judge := PcComp.judge.
Definition manager_run := Recovery.run.
Definition manager_judge := Recovery.judge.
Definition manager_tol_judge := Recovery.judge_tol.
Definition manager_acks_judge := RecoveryAcks.judge_acks.
Extraction "../ocaml/gen/C09/model.ml" loss_run loss_judge rtt_run rtt_judge pto_run pto_judge pc_run pc_judge manager_run manager_judge manager_tol_judge manager_acks_judge.
