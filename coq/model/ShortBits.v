(* C05 component "shortbits": the first byte of a 1-RTT (short header) packet after header
   protection has been removed, RFC 9000 section 17.3.1:
     Header Form (1) = 0, Fixed Bit (1) = 1, Spin Bit (1), Reserved Bits (2), Key Phase (1),
     Packet Number Length (2)
   "The value included prior to protection MUST be set to 0.  An endpoint MUST treat receipt of a
   packet that has a non-zero value for these bits, after removing both packet and header
   protection, as a connection error of type PROTOCOL_VIOLATION."  Spin and key phase are free.
   The masks below are the RFC's; that short.rs / long.rs / key_phase.rs declare the same values is
   a proved obligation over the generated constants (ShortBitsProofs), kept out of the executable
   model so that the reference still runs when the source stops declaring one of them. *)
From SQ Require Import lib.Base gen.Gen_C05 model.Varint model.PacketHeader model.PnExpand.
Import Varint PacketHeader PnExpand.
Local Open Scope N_scope.

Definition rfc_spin_mask : N := 32.        (* 0x20 *)
Definition rfc_reserved_mask : N := 24.    (* 0x18 *)
Definition rfc_key_phase_mask : N := 4.    (* 0x04 *)

(* what a sender writes *)
Definition short_first (spin kp : bool) (n : nat) : N :=
  64 + (if spin then rfc_spin_mask else 0) + (if kp then rfc_key_phase_mask else 0)
  + (N.of_nat n - 1).

(* what a receiver reads: None = PROTOCOL_VIOLATION (reserved bits set) *)
Definition short_fields (b : N) : option (bool * bool * nat) :=
  if N.land b rfc_reserved_mask =? 0 then
    Some (negb (N.land b rfc_spin_mask =? 0), negb (N.land b rfc_key_phase_mask =? 0),
          S (N.to_nat (N.land b 3)))
  else None.

(* receive path for a packet whose unprotected first byte is b and whose packet number bytes are
   the low-order bytes of pn; largest received = 0 *)
Definition receive (b pn : N) : list Z :=
  match short_fields b with
  | None => [3%Z]
  | Some (spin, kp, n) =>
      [0%Z; bz kp; bz spin; Z.of_nat n; Nz (expand 0 (pn_value (pn_bytes n pn)) (8 * N.of_nat n))]
  end.

Definition sel_pn (sel : N) : N :=
  match sel mod 4 with 0 => 1 | 1 => 200 | 2 => 40000 | _ => 10000000 end.

(* case = 0 :: first byte (low 6 bits used, form/fixed bits forced to 01) :: pn  -> receive
   case = 1 :: spin :: key phase :: selector of the packet number length
        -> first byte the encoder wrote :: receive *)
Definition run (case : list Z) : list Z :=
  match case with
  | 0%Z :: b :: pn :: _ => receive (64 + zN b mod 64) (zN pn)
  | 1%Z :: spin :: kp :: sel :: _ =>
      let pn := sel_pn (zN sel) in
      match pn_choice 0 pn with
      | None => [(-1)%Z]
      | Some n =>
          let b := short_first (negb (spin =? 0)%Z) (negb (kp =? 0)%Z) n in
          Nz b :: receive b pn
      end
  | _ => [(-1)%Z]
  end.

Definition judge (case out : list Z) : bool := zlist_eqb out (run case).
