(* Model of quic/s2n-quic-transport/src/ack/{ack_manager.rs, ack_transmission_state.rs},
   s2n-quic-core/src/ack/{ranges.rs, transmission.rs, settings.rs} as driven by the hook AckDriver.
   ack::Ranges (an IntervalSet with a limit) is modelled by its abstract value: the ascending list of
   disjoint, non-adjacent inclusive intervals.  Executable definitions only. *)
From SQ Require Import lib.Base gen.Gen_C08.
Local Open Scope N_scope.

(* ---------------- ack::Ranges ---------------- *)
Definition ranges := list (N * N).

(* IntervalSet::insert of a single value without limit *)
Fixpoint ins (pn : N) (l : ranges) : ranges :=
  match l with
  | [] => [(pn, pn)]
  | (a, b) :: t =>
      if pn + 1 <? a then (pn, pn) :: l
      else if pn + 1 =? a then (pn, b) :: t
      else if pn <=? b then l
      else if pn =? b + 1 then
        match t with
        | (c, d) :: t' => if c =? pn + 1 then (a, d) :: t' else (a, pn) :: t
        | [] => [(a, pn)]
        end
      else (a, b) :: ins pn t
  end.

Definition len (l : ranges) : N := N.of_nat (length l).

(* IntervalSet::insert with the limit: LimitExceeded only when a new interval would be added *)
Definition insert_limited (pn : N) (l : ranges) (limit : N) : option ranges :=
  let l' := ins pn l in
  if (len l <? len l') && (limit <=? len l) then None else Some l'.

(* Ranges::insert_packet_number: shed the lowest interval to make room for a larger number *)
Definition insert_packet_number (pn : N) (l : ranges) (limit : N) : ranges :=
  match insert_limited pn l limit with
  | Some l' => l'
  | None =>
      match l with
      | [] => l
      | (a, b) :: t =>
          if b <? pn                                  (* min < pn_range.start() *)
          then match insert_limited pn t limit with Some l' => l' | None => t end   (* LowestRangeDropped *)
          else l                                      (* insert_front(min): RangeInsertionFailed *)
      end
  end.

(* IntervalSet::remove(0 ..= x) *)
Fixpoint remove_upto (x : N) (l : ranges) : ranges :=
  match l with
  | [] => []
  | (a, b) :: t => if b <=? x then remove_upto x t else if a <=? x then (x + 1, b) :: t else l
  end.

(* IntervalSet::max_value: the largest element of the set (the end of the last interval of the ascending
   list; written as a maximum over the intervals, which is the same value on an ascending list) *)
Definition largest_hi (l : list (N * N)) : N := fold_right (fun r m => N.max (snd r) m) 0 l.
Definition max_value (l : ranges) : option N := match l with [] => None | _ => Some (largest_hi l) end.
Definition min_value (l : ranges) : option N := match l with [] => None | (a, _) :: _ => Some a end.
Definition spread (l : ranges) : N :=
  match min_value l, max_value l with Some mn, Some mx => mx - mn | _, _ => 0 end.
Definition in_ranges (pn : N) (l : ranges) : bool := existsb (fun r => (fst r <=? pn) && (pn <=? snd r)) l.

(* ---------------- AckTransmissionState ---------------- *)
Inductive tstate := Disabled | Passive (r : N) | Active (r : N).

(* transmission::Constraint: 0 None, 1 RetransmissionOnly, 2 CongestionLimited, 3 AmplificationLimited;
   transmission::Mode: 0 Normal, others are probing modes *)
Definition can_transmit (constraint : N) : bool := constraint =? 0.
Definition can_retransmit (constraint : N) : bool := (constraint =? 0) || (constraint =? 1).

Definition should_transmit (s : tstate) (constraint mode : N) (has_ranges : bool) : bool :=
  if negb has_ranges then false
  else if negb (mode =? 0) then true
  else match s with
       | Disabled => false
       | Passive _ => can_transmit constraint || can_retransmit constraint
       | Active _ => true
       end.

Definition activate (s : tstate) : tstate := match s with Passive r => Active r | _ => s end.

Definition ts_on_update (s : tstate) (l : ranges) : tstate :=
  match l with
  | [] => Disabled
  | _ =>
      let nr := N.min (len l / 2 + spread l / 10) 10 in
      match s with Active _ => Active nr | Passive _ => Passive nr | Disabled => Passive nr end
  end.

Definition ts_on_transmit (s : tstate) : tstate :=
  match s with
  | Active r | Passive r => if 1 <=? r then Passive (r - 1) else Disabled
  | Disabled => Disabled
  end.

Definition is_active (s : tstate) : bool := match s with Active _ => true | _ => false end.

(* ---------------- ack::transmission::Set ---------------- *)
Definition tx := (N * N)%type.     (* sent_in_packet, largest_received_packet_number_acked *)

Definition tx_hit (t : option tx) (lo hi : N) : option N :=
  match t with Some (p, x) => if (lo <=? p) && (p <=? hi) then Some x else None | None => None end.

(* Set::on_update: (stable, latest, Some largest of the range 0..=largest) *)
Definition aet_on_update (stable latest : option tx) (lo hi : N) : option tx * option tx * option N :=
  match tx_hit latest lo hi with
  | Some x => (None, None, Some x)
  | None =>
      match tx_hit stable lo hi with
      | Some x => (latest, latest, Some x)
      | None => (stable, latest, None)
      end
  end.

(* ---------------- AckManager ---------------- *)
Record settings := { max_ack_delay : N (* microseconds *); exponent : N; elicitation_interval : N; ranges_limit : N }.

Definition default_settings : settings :=
  {| max_ack_delay := max_ack_delay_ms * 1000; exponent := ack_delay_exponent;
     elicitation_interval := ack_elicitation_interval; ranges_limit := ack_ranges_limit |}.
(* Settings::EARLY *)
Definition early_settings : settings :=
  {| max_ack_delay := 0; exponent := 0;
     elicitation_interval := ack_elicitation_interval; ranges_limit := ack_ranges_limit |}.

Record state := {
  cfg : settings;
  timer : option N;                    (* ack_delay_timer *)
  stable : option tx; latest : option tx;
  rng : ranges;                        (* ack_ranges *)
  lrpa : N;                            (* largest_received_packet_number_acked *)
  lrp_at : option N;                   (* largest_received_packet_number_at *)
  ppst : N;                            (* processed_packets_since_transmission, u8 saturating *)
  tse : N;                             (* transmissions_since_elicitation, u8 saturating *)
  ts : tstate;
  ecn : N * N * N                      (* ect0, ect1, ce *)
}.

Definition init (c : settings) : state :=
  {| cfg := c; timer := None; stable := None; latest := None; rng := []; lrpa := 0; lrp_at := None;
     ppst := 0; tse := 0; ts := Disabled; ecn := (0, 0, 0) |}.

Definition sat8 (x : N) : N := N.min x 255.
Definition sat_vi (x : N) : N := N.min x varint_max.
(* Timestamp::from_duration_impl: zero becomes one microsecond *)
Definition tstamp (x : N) : N := N.max x 1.
(* Timestamp::has_elapsed(now): expiration < now + K_GRANULARITY (1 ms) *)
Definition expired (t : option N) (now : N) : bool := match t with Some e => e <? now + 1000 | None => false end.

(* on_processed_packet; ecn code: 0 NotEct, 1 Ect1, 2 Ect0, 3 Ce *)
Definition on_processed_packet (s : state) (pn : N) (eliciting : bool) (now0 : N) (ecnc : N) (pc : bool) : state :=
  let now := tstamp now0 in
  let '(is_ordered, is_largest) :=
    match max_value (rng s) with
    | Some m => if m <? varint_max then (pn =? m + 1, m <? pn) else (true, true)
    | None => (true, true)
    end in
  let rng' := insert_packet_number pn (rng s) (ranges_limit (cfg s)) in
  let '(e0, e1, ce) := ecn s in
  let ecn' := if ecnc =? 2 then (sat_vi (e0 + 1), e1, ce)
              else if ecnc =? 1 then (e0, sat_vi (e1 + 1), ce)
              else if ecnc =? 3 then (e0, e1, sat_vi (ce + 1)) else (e0, e1, ce) in
  let ts1 := ts_on_update (ts s) rng' in
  let ppst' := sat8 (ppst s + 1) in
  let lrp_at' := if is_largest then Some now else lrp_at s in
  let should_activate :=
    negb is_largest || negb is_ordered || (ecnc =? 3) || (packet_tolerance <=? ppst') || pc in
  let '(ts2, timer2) :=
    if eliciting then
      if should_activate then (activate ts1, timer s)
      else match timer s with None => (ts1, Some (tstamp (now + max_ack_delay (cfg s)))) | Some _ => (ts1, timer s) end
    else (ts1, timer s) in
  let '(ts3, timer3) := if expired timer2 now then (activate ts2, None) else (ts2, timer2) in
  {| cfg := cfg s; timer := timer3; stable := stable s; latest := latest s; rng := rng'; lrpa := lrpa s;
     lrp_at := lrp_at'; ppst := ppst'; tse := tse s; ts := ts3; ecn := ecn' |}.

(* Settings::encode_ack_delay(now - largest_received_packet_number_at) *)
Definition ack_delay (s : state) (now : N) : N :=
  (* saturating_duration_since goes through Timestamp::checked_sub, whose zero result is clamped to
     one microsecond by from_duration_impl *)
  let d := match lrp_at s with Some p => if p <=? now then N.max (now - p) 1 else 0 | None => 0 end in
  sat_vi (d / 2 ^ exponent (cfg s)).

Record frame := { f_ranges : list (N * N) (* descending *); f_delay : N; f_ecn : option (N * N * N); f_ping : bool }.

(* on_transmit followed, when it returned true, by on_transmit_complete *)
Definition transmit (s : state) (now0 constraint mode pkt : N) (other_eliciting ack_fits ping_fits : bool)
  : state * option frame :=
  let now := tstamp now0 in
  let has_ranges := match rng s with [] => false | _ => true end in
  if negb (should_transmit (ts s) constraint mode has_ranges) then (s, None)
  else if negb ack_fits then (s, None)
  else
    let want_ping := negb other_eliciting
                     && (can_transmit constraint || can_retransmit constraint)
                     && (elicitation_interval (cfg s) <=? tse s) in
    let ping := want_ping && ping_fits in
    let is_elic := other_eliciting || ping in
    let tse1 := if other_eliciting then tse s else if ping then tse s else sat8 (tse s + 1) in
    let lrpa' := match max_value (rng s) with Some m => m | None => lrpa s end in
    let '(stable', latest', tse2) :=
      if is_elic
      then (match stable s with None => Some (pkt, lrpa') | Some t => Some t end, Some (pkt, lrpa'), 0)
      else (stable s, latest s, tse1) in
    let fr := {| f_ranges := rev (rng s); f_delay := ack_delay s now;
                 f_ecn := (let '(e0, e1, ce) := ecn s in
                           if (e0 =? 0) && (e1 =? 0) && (ce =? 0) then None else Some (e0, e1, ce));
                 f_ping := ping |} in
    ({| cfg := cfg s; timer := None; stable := stable'; latest := latest'; rng := rng s; lrpa := lrpa';
        lrp_at := lrp_at s; ppst := 0; tse := tse2; ts := ts_on_transmit (ts s); ecn := ecn s |}, Some fr).

Definition on_packet_ack (s : state) (lo hi : N) : state :=
  let '(st, la, r) := aet_on_update (stable s) (latest s) lo hi in
  let rng' := match r with Some x => remove_upto x (rng s) | None => rng s end in
  {| cfg := cfg s; timer := timer s; stable := st; latest := la; rng := rng'; lrpa := lrpa s;
     lrp_at := lrp_at s; ppst := ppst s; tse := tse s; ts := ts s; ecn := ecn s |}.

Definition on_packet_loss (s : state) (lo hi : N) : state :=
  let '(st, la, r) := aet_on_update (stable s) (latest s) lo hi in
  let ts' := match r with Some _ => activate (ts_on_update (ts s) (rng s)) | None => ts s end in
  {| cfg := cfg s; timer := timer s; stable := st; latest := la; rng := rng s; lrpa := lrpa s;
     lrp_at := lrp_at s; ppst := ppst s; tse := tse s; ts := ts'; ecn := ecn s |}.

Definition on_timeout (s : state) (now0 : N) : state :=
  if expired (timer s) (tstamp now0)
  then {| cfg := cfg s; timer := None; stable := stable s; latest := latest s; rng := rng s; lrpa := lrpa s;
          lrp_at := lrp_at s; ppst := ppst s; tse := tse s; ts := activate (ts s); ecn := ecn s |}
  else s.

(* ---------------- operations and harness protocol ---------------- *)
Inductive op :=
| OProc (dt pn flags : N)           (* flags: bit0 ack-eliciting, bits1-2 ecn, bit3 path_challenge_on_active_path *)
| OTx (dt ctl pkt : N)              (* ctl: bits0-1 constraint, bits2-3 mode, bit4 other frames ack-eliciting,
                                            bit5 ACK does not fit, bit6 PING does not fit *)
| OAck (a b : N) | OLoss (a b : N)
| OTimeout (dt : N).

Definition optz (o : option N) : Z := match o with Some v => Nz v | None => (-1)%Z end.

Definition status (s : state) : list Z := [optz (timer s); bz (is_active (ts s)); Nz (lrpa s)].

Definition enc_frame (f : option frame) : list Z :=
  match f with
  | None => [0%Z]
  | Some f =>
      [1%Z; bz (f_ping f); Nz (f_delay f)]
      ++ (match f_ecn f with Some (a, b, c) => [Nz a; Nz b; Nz c] | None => [-1; -1; -1]%Z end)
      ++ [Z.of_nat (length (f_ranges f))]
      ++ flat_map (fun r => [Nz (fst r); Nz (snd r)]) (f_ranges f)
  end.

(* one step: new clock, new state, the ACK frame emitted (OTx only) *)
Definition step_core (now : N) (s : state) (o : op) : N * state * option frame :=
  match o with
  | OProc dt pn fl =>
      let now' := now + dt in
      (now', on_processed_packet s pn (N.testbit fl 0) now' (N.land (N.shiftr fl 1) 3) (N.testbit fl 3), None)
  | OTx dt ctl pkt =>
      let now' := now + dt in
      let '(s', f) := transmit s now' (N.land ctl 3) (N.land (N.shiftr ctl 2) 3) pkt
                        (N.testbit ctl 4) (negb (N.testbit ctl 5)) (negb (N.testbit ctl 6)) in
      (now', s', f)
  | OAck a b => (now, on_packet_ack s (N.min a b) (N.max a b), None)
  | OLoss a b => (now, on_packet_loss s (N.min a b) (N.max a b), None)
  | OTimeout dt => let now' := now + dt in (now', on_timeout s now', None)
  end.

Definition step (now : N) (s : state) (o : op) : N * state * list Z :=
  let '(now', s', f) := step_core now s o in
  (now', s', (match o with OTx _ _ _ => enc_frame f | _ => [] end) ++ status s').

Fixpoint steps (now : N) (s : state) (ops : list op) : list Z :=
  match ops with
  | [] => []
  | o :: t => let '(now', s', out) := step now s o in out ++ steps now' s' t
  end.

(* case = header ++ ops; header: sel (0 default settings, 1 EARLY, 2 custom: mad_us exp interval limit follow);
   ops: `0 dt pn flags` | `1 dt ctl pkt` | `2 a b` | `3 a b` | `4 dt`; op code mod 5 *)
Fixpoint parse (fuel : nat) (c : list Z) : list op :=
  match fuel with
  | O => []
  | S f =>
      match c with
      | [] => []
      | k :: r =>
          let x0 := zN (hd 0%Z r) in let x1 := zN (hd 0%Z (tl r)) in let x2 := zN (hd 0%Z (tl (tl r))) in
          match (k mod 5)%Z with
          | 0%Z => OProc x0 x1 x2 :: parse f (tl (tl (tl r)))
          | 1%Z => OTx x0 x1 x2 :: parse f (tl (tl (tl r)))
          | 2%Z => OAck x0 x1 :: parse f (tl (tl r))
          | 3%Z => OLoss x0 x1 :: parse f (tl (tl r))
          | _ => OTimeout x0 :: parse f (tl r)
          end
      end
  end.

Definition header (c : list Z) : settings * list Z :=
  match c with
  | [] => (default_settings, [])
  | sel :: r =>
      match (sel mod 3)%Z with
      | 0%Z => (default_settings, r)
      | 1%Z => (early_settings, r)
      | _ => ({| max_ack_delay := zN (hd 0%Z r); exponent := zN (hd 0%Z (tl r)) mod 21;
                 elicitation_interval := zN (hd 0%Z (tl (tl r))) mod 256;
                 ranges_limit := zN (hd 0%Z (tl (tl (tl r)))) mod 255 + 1 |},
              tl (tl (tl (tl r))))
      end
  end.

Definition run (c : list Z) : list Z :=
  let '(cfg0, r) := header c in steps 1 (init cfg0) (parse (length r) r).

(* ---------------- the property as a judgement on an implementation's output ---------------- *)
(* Reference bookkeeping recomputed from the operations and the emitted frames only:
   procd   = packet numbers processed so far;  nproc = how many packets were processed
   pend    = ack-eliciting packets (pn, arrival) that are owed an acknowledgement
   cov     = ack-eliciting packets whose acknowledgement is in flight: covered by an emitted ACK frame
   frames  = the emitted ACK frames, newest first
   lacked  = largest "largest acknowledged" of a frame whose carrying packet the peer acknowledged
             (RFC 9000 13.2.4: the receiver may stop acknowledging packets at or below it); -1 = none
   Exemption for bounded state (RFC 9000 13.2.3): once ack_ranges_limit packets have been processed the
   receiver may have shed its lowest ranges; a frame emitted from then on (j_all) counts as covering
   every packet that arrived before it.
   A covered packet is owed again when every frame covering it travelled in an ack-eliciting packet
   that was declared lost (packets carrying nothing ack-eliciting are never reported to the manager). *)
Record jframe := { j_pkt : N; j_elic : bool; j_rl : list (N * N); j_all : bool; j_time : N; j_lost : bool }.
Record ref := { procd : list N; nproc : N; pend : list (N * N); cov : list (N * N);
                frames : list jframe; lacked : Z }.

Definition ref0 : ref := {| procd := []; nproc := 0; pend := []; cov := []; frames := []; lacked := (-1)%Z |}.

(* every number of lo..=hi was processed (a range longer than the history is rejected at once) *)
Definition range_processed (lo hi : N) (l : list N) : bool :=
  (lo <=? hi) && (hi - lo <? N.of_nat (length l))
  && forallb (fun k => mem_N (lo + N.of_nat k) l) (seq 0 (N.to_nat (hi - lo) + 1)).

Fixpoint take_ranges (n : nat) (out : list Z) : option (list (N * N) * list Z) :=
  match n with
  | O => Some ([], out)
  | S k => match out with
           | lo :: hi :: r =>
               if ((0 <=? lo) && (0 <=? hi))%Z then
                 match take_ranges k r with Some (l, r') => Some ((zN lo, zN hi) :: l, r') | None => None end
               else None
           | _ => None
           end
  end.

Definition in_frame (p : N) (l : list (N * N)) : bool := in_ranges p l.

(* largest processed number above lacked *)
Definition max_tracked (rf : ref) : option N :=
  max_list (filter (fun p => (lacked rf <? Nz p)%Z) (procd rf)).

Definition min_arrival (l : list (N * N)) : option N :=
  match l with [] => None | h :: t => Some (fold_right (fun r m => N.min (snd r) m) (snd h) t) end.

(* ack_deadline: while an ack-eliciting packet is owed an acknowledgement, the manager demands a
   transmission or its delay timer is armed no later than the oldest arrival + max_ack_delay *)
Definition deadline_ok (mad : N) (rf : ref) (tm act : Z) : bool :=
  match min_arrival (pend rf) with
  | None => true
  | Some t0 => (act =? 1)%Z || ((0 <=? tm) && (tm <=? Nz (t0 + mad)))%Z
  end.

Definition covers (f : jframe) (pa : N * N) : bool :=
  negb (j_lost f) && (in_frame (fst pa) (j_rl f) || (j_all f && (snd pa <=? j_time f))).

Definition op_time (now : N) (o : op) : N :=
  match o with OProc dt _ _ | OTx dt _ _ | OTimeout dt => now + dt | _ => now end.

(* what the operation, with the frame it produced (PING flag, ranges as listed), does to the reference *)
Definition ref_step (limit now' : N) (rf : ref) (o : op) (fo : option (bool * list (N * N))) : ref :=
  match o with
  | OProc _ pn fl =>
      let owed := N.testbit fl 0 && (lacked rf <? Nz pn)%Z in
      {| procd := pn :: procd rf; nproc := nproc rf + 1;
         pend := if owed then (pn, now') :: pend rf else pend rf;
         cov := cov rf; frames := frames rf; lacked := lacked rf |}
  | OTx _ ctl pkt =>
      match fo with
      | None => rf
      | Some (ping, rl) =>
          let all := limit <=? nproc rf in
          let keep := fun pa : N * N => negb all && negb (in_frame (fst pa) rl) in
          {| procd := procd rf; nproc := nproc rf;
             pend := filter keep (pend rf);
             cov := filter (fun pa => negb (keep pa)) (pend rf) ++ cov rf;
             frames := {| j_pkt := pkt; j_elic := N.testbit ctl 4 || ping; j_rl := rl; j_all := all;
                          j_time := now'; j_lost := false |} :: frames rf;
             lacked := lacked rf |}
      end
  | OAck a b =>
      let lo := N.min a b in let hi := N.max a b in
      let la := fold_right (fun f m => if (lo <=? j_pkt f) && (j_pkt f <=? hi)
                                       then Z.max (Nz (largest_hi (j_rl f))) m else m)
                           (lacked rf) (frames rf) in
      {| procd := procd rf; nproc := nproc rf;
         pend := filter (fun pa => (la <? Nz (fst pa))%Z) (pend rf);
         cov := filter (fun pa => (la <? Nz (fst pa))%Z) (cov rf);
         frames := frames rf; lacked := la |}
  | OLoss a b =>
      let lo := N.min a b in let hi := N.max a b in
      let frames' := map (fun f => if j_elic f && (lo <=? j_pkt f) && (j_pkt f <=? hi)
                                   then {| j_pkt := j_pkt f; j_elic := j_elic f; j_rl := j_rl f; j_all := j_all f;
                                           j_time := j_time f; j_lost := true |}
                                   else f) (frames rf) in
      let covered := fun pa => existsb (fun f => covers f pa) frames' in
      {| procd := procd rf; nproc := nproc rf;
         pend := filter (fun pa => negb (covered pa)) (cov rf) ++ pend rf;
         cov := filter covered (cov rf);
         frames := frames'; lacked := lacked rf |}
  | OTimeout _ => rf
  end.

(* the three statements, evaluated after one operation: rf before, rf' after, status (tm, act) *)
Definition check (mad now' : N) (rf rf' : ref) (o : op) (fo : option (bool * list (N * N))) (tm act : Z) : bool :=
  (match o with
   | OProc _ pn fl =>
       (* immediate_on_reorder: not the successor of the largest number still tracked, or CE marked *)
       let ooo := match max_tracked rf with Some m => negb (pn =? m + 1) | None => false end in
       let ce := N.land (N.shiftr fl 1) 3 =? 3 in
       if N.testbit fl 0 && (ooo || ce) then (act =? 1)%Z else true
   | OTx _ _ _ =>
       (* acks_subset_processed *)
       match fo with
       | Some (_, rl) => forallb (fun r => range_processed (fst r) (snd r) (procd rf)) rl
       | None => true
       end
   | OTimeout _ =>
       (* a timeout at or after the deadline of an owed packet makes the manager demand a transmission:
          the timer it still reports lies in the future *)
       match min_arrival (pend rf') with
       | None => true
       | Some _ => (act =? 1)%Z || (Nz now' <? tm)%Z
       end
   | _ => true
   end)
  && deadline_ok mad rf' tm act.

Definition parse_out (o : op) (out : list Z)
  : option (option (bool * list (N * N)) * Z * Z * list Z) :=
  match o with
  | OTx _ _ _ =>
      match out with
      | w :: out1 =>
          if (w =? 0)%Z then
            match out1 with tm :: act :: _ :: r => Some (None, tm, act, r) | _ => None end
          else
            match out1 with
            | ping :: _ :: _ :: _ :: _ :: k :: r0 =>
                if (k <=? 0)%Z then None else
                match take_ranges (Z.to_nat k) r0 with
                | Some (rl, tm :: act :: _ :: r) => Some (Some ((ping =? 1)%Z, rl), tm, act, r)
                | _ => None
                end
            | _ => None
            end
      | [] => None
      end
  | _ => match out with tm :: act :: _ :: r => Some (None, tm, act, r) | _ => None end
  end.

Fixpoint judge_from (mad limit now : N) (rf : ref) (ops : list op) (out : list Z) : bool :=
  match ops with
  | [] => match out with [] => true | _ => false end
  | o :: t =>
      match parse_out o out with
      | None => false
      | Some (fo, tm, act, r) =>
          let now' := op_time now o in
          let rf' := ref_step limit now' rf o fo in
          check mad now' rf rf' o fo tm act && judge_from mad limit now' rf' t r
      end
  end.

Definition judge (c out : list Z) : bool :=
  let '(cfg0, r) := header c in
  judge_from (max_ack_delay cfg0) (ranges_limit cfg0) 1 ref0 (parse (length r) r) out.
