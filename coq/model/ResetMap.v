(* Model of the stateless reset token bookkeeping across connections:
   s2n-quic-transport/src/connection/peer_id_registry.rs (register_initial_stateless_reset_token,
   on_new_connection_id, consume_new_id_inner, Drop), connection_id_mapper.rs (StatelessResetMap,
   remove_internal_connection_id_by_stateless_reset_token) and endpoint/mod.rs
   (close_on_matching_stateless_reset), driven through the hook verif_hooks/reset_map.rs.
   Retirement by retire_prior_to (RETIRE_CONNECTION_ID acknowledged) is not modelled.
   Executable definitions only. *)
From SQ Require Import lib.Base gen.Gen_C06 model.Nonce model.RxPipeline.
Local Open Scope N_scope.

Definition tok_bytes (t : N) : list N := be_bytes 16 t.

(* HashMap::insert: replaces the mapping of an equal key *)
Definition map_insert (t : list N) (c : N) (m : list (list N * N)) : list (list N * N) :=
  (t, c) :: filter (fun e => negb (eqb_bytes t (fst e))) m.

Record conn := mkc {
  c_open : bool;
  c_fresh : list (N * N);     (* ids announced by NEW_CONNECTION_ID, not yet in use: (id, token) *)
  c_toks : list N             (* tokens of all registered ids, in registration order *)
}.

Record st := mks { conns : list conn; tmap : list (list N * N) }.

Fixpoint set_conn (i : nat) (l : list conn) (x : conn) : list conn :=
  match l, i with
  | [], _ => []
  | _ :: t, O => x :: t
  | h :: t, S j => h :: set_conn j t x
  end.

Definition get_open (s : st) (c : Z) : option (nat * conn) :=
  if (c <? 0)%Z then None else
  match nth_error (conns s) (Z.to_nat c) with
  | Some k => if c_open k then Some (Z.to_nat c, k) else None
  | None => None
  end.

(* ops: 0 flag tok (open) | 1 c seq tok (NEW_CONNECTION_ID) | 2 c (take the next id into use)
        | 3 c (connection dropped) | 4 len bytes (datagram) *)
Fixpoint run_ops (fuel : nat) (s : st) (c : list Z) : list Z :=
  match fuel with
  | O => []
  | S f =>
      match c with
      | 0%Z :: flag :: tok :: r =>
          let i := N.of_nat (length (conns s)) in
          let has := negb (flag =? 0)%Z in
          run_ops f {| conns := conns s ++ [mkc true [] (if has then [zN tok] else [])];
                       tmap := if has then map_insert (tok_bytes (zN tok)) i (tmap s) else tmap s |} r
      | 1%Z :: c0 :: seq :: tok :: r =>
          match get_open s c0 with
          | None => 9%Z :: run_ops f s r
          | Some (i, k) =>
              0%Z :: run_ops f {| conns := set_conn i (conns s)
                                             (mkc true (c_fresh k ++ [(zN c0 * 256 + zN seq, zN tok)]) (c_toks k ++ [zN tok]));
                                  tmap := tmap s |} r
          end
      | 2%Z :: c0 :: r =>
          match get_open s c0 with
          | None => 9%Z :: run_ops f s r
          | Some (i, k) =>
              match c_fresh k with
              | [] => (-1)%Z :: run_ops f s r
              | (id, tok) :: fr =>
                  Nz id :: run_ops f {| conns := set_conn i (conns s) (mkc true fr (c_toks k));
                                        tmap := map_insert (tok_bytes tok) (N.of_nat i) (tmap s) |} r
              end
          end
      | 3%Z :: c0 :: r =>
          match get_open s c0 with
          | None => 9%Z :: run_ops f s r
          | Some (i, k) =>
              0%Z :: run_ops f {| conns := set_conn i (conns s) (mkc false [] []);
                           tmap := fold_left (fun m t => snd (map_remove (tok_bytes t) m)) (c_toks k) (tmap s) |} r
          end
      | 4%Z :: len :: r =>
          let d := map zN (firstn (Z.to_nat len) r) in
          let '(o, m') := on_stateless_reset (tmap s) d in
          (match o with None => 0%Z | Some i => Nz (i + 1) end)
          :: run_ops f {| conns := conns s; tmap := m' |} (skipn (Z.to_nat len) r)
      | _ => []
      end
  end.

Definition run (c : list Z) : list Z := run_ops (length c) (mks [] []) c.

(* the property: a datagram is matched to connection i only if its last 16 bytes are a token the
   peer registered for connection i (transport parameter or NEW_CONNECTION_ID) earlier *)
Fixpoint judge_ops (fuel : nat) (nconn : N) (regs : list (N * list N)) (c o : list Z) : bool :=
  match fuel with
  | O => match o with [] => true | _ => false end
  | S f =>
      match c with
      | 0%Z :: flag :: tok :: r =>
          judge_ops f (nconn + 1) (if (flag =? 0)%Z then regs else (nconn, tok_bytes (zN tok)) :: regs) r o
      | 1%Z :: c0 :: seq :: tok :: r =>
          match o with
          | code :: o' => judge_ops f nconn (if (code =? 0)%Z then (zN c0, tok_bytes (zN tok)) :: regs else regs) r o'
          | [] => false
          end
      | 2%Z :: c0 :: r => match o with _ :: o' => judge_ops f nconn regs r o' | [] => false end
      | 3%Z :: c0 :: r => match o with _ :: o' => judge_ops f nconn regs r o' | [] => false end
      | 4%Z :: len :: r =>
          let d := map zN (firstn (Z.to_nat len) r) in
          match o with
          | i :: o' =>
              (if (i =? 0)%Z then true
               else (0 <? i)%Z &&
                    match last16 d with
                    | None => false
                    | Some t => existsb (fun e => (fst e =? zN i - 1) && eqb_bytes t (snd e)) regs
                    end)
              && judge_ops f nconn regs (skipn (Z.to_nat len) r) o'
          | [] => false
          end
      | _ => match o with [] => true | _ => false end
      end
  end.

Definition judge (c o : list Z) : bool := judge_ops (length c) 0 [] c o.
