(* Model of the stateless reset token bookkeeping across connections:
   s2n-quic-transport/src/connection/peer_id_registry.rs (register_initial_stateless_reset_token,
   on_new_connection_id incl. retire_prior_to, consume_new_id_inner, on_transmit, on_packet_ack,
   Drop), connection_id_mapper.rs (StatelessResetMap,
   remove_internal_connection_id_by_stateless_reset_token) and endpoint/mod.rs
   (close_on_matching_stateless_reset), driven through the hook verif_hooks/reset_map.rs.
   The generator keeps NEW_CONNECTION_ID frames acceptable (fresh increasing sequence numbers,
   tokens distinct within a connection, at most 3 active and 6 retired ids).
   Executable definitions only. *)
From SQ Require Import lib.Base gen.Gen_C06 model.Nonce model.RxPipeline.
Local Open Scope N_scope.

Definition tok_bytes (t : N) : list N := be_bytes 16 t.

(* HashMap::insert: replaces the mapping of an equal key *)
Definition map_insert (t : list N) (c : N) (m : list (list N * N)) : list (list N * N) :=
  (t, c) :: filter (fun e => negb (eqb_bytes t (fst e))) m.

(* PeerIdStatus *)
Inductive status := SNew | SInUse | SPendRet | SPendAck (pn : N).
Definition is_active (st : status) : bool := match st with SNew | SInUse => true | _ => false end.

Record idinfo := mki { i_seq : N; i_tok : option N; i_st : status }.

Record conn := mkc {
  c_open : bool;
  c_rpt : N;                  (* retire_prior_to *)
  c_ids : list idinfo         (* registered_ids, in registration order *)
}.

Record st := mks { conns : list conn; tmap : list (list N * N) }.

Fixpoint set_conn (i : nat) (l : list conn) (x : conn) : list conn :=
  match l, i with
  | [], _ => []
  | _ :: t, O => x :: t
  | h :: t, S j => h :: set_conn j t x
  end.

Definition get_open (s : st) (c : N) : option conn :=
  match nth_error (conns s) (N.to_nat c) with
  | Some k => if c_open k then Some k else None
  | None => None
  end.

Inductive rop :=
| OOpen (flag : bool) (tok : N)
| ONew (c seq rpt tok : N)
| OUse (c : N)
| ODrop (c : N)
| ODgram (d : list N)
| OTx (c pn : N)
| OAck (c pn : N).

(* tokens of a list of ids, in order *)
Definition toks_of (l : list idinfo) : list N :=
  flat_map (fun e => match i_tok e with Some t => [t] | None => [] end) l.

Definition remove_all (ts : list N) (m : list (list N * N)) : list (list N * N) :=
  fold_left (fun m t => snd (map_remove (tok_bytes t) m)) ts m.

(* consume_new_id_inner: the first New id *)
Fixpoint take_new (l : list idinfo) : option (idinfo * list idinfo) :=
  match l with
  | [] => None
  | e :: r =>
      match i_st e with
      | SNew => Some (e, mki (i_seq e) (i_tok e) SInUse :: r)
      | _ => match take_new r with Some (x, r') => Some (x, e :: r') | None => None end
      end
  end.

Definition retire_ready (rp : N) (e : idinfo) : idinfo :=
  if is_active (i_st e) && (i_seq e <? rp) then mki (i_seq e) (i_tok e) SPendRet else e.

Definition is_pend_ret (e : idinfo) : bool := match i_st e with SPendRet => true | _ => false end.
Definition is_pend_ack (pn : N) (e : idinfo) : bool := match i_st e with SPendAck q => q =? pn | _ => false end.

Definition step (s : st) (o : rop) : st * list Z :=
  match o with
  | OOpen flag tok =>
      let i := N.of_nat (length (conns s)) in
      ({| conns := conns s ++ [mkc true 0 [mki 0 (if flag then Some tok else None) SInUse]];
          tmap := if flag then map_insert (tok_bytes tok) i (tmap s) else tmap s |}, [])
  | ONew c seq rpt tok =>
      match get_open s c with
      | None => (s, [9%Z])
      | Some k =>
          let rp := N.max (c_rpt k) rpt in
          let ids := map (retire_ready rp) (c_ids k) ++ [retire_ready rp (mki seq (Some tok) SNew)] in
          ({| conns := set_conn (N.to_nat c) (conns s) (mkc true rp ids); tmap := tmap s |}, [0%Z])
      end
  | OUse c =>
      match get_open s c with
      | None => (s, [9%Z])
      | Some k =>
          match take_new (c_ids k) with
          | None => (s, [(-1)%Z])
          | Some (e, ids) =>
              ({| conns := set_conn (N.to_nat c) (conns s) (mkc true (c_rpt k) ids);
                  tmap := match i_tok e with Some t => map_insert (tok_bytes t) c (tmap s) | None => tmap s end |},
               [Nz (c * 256 + i_seq e)])
          end
      end
  | ODrop c =>
      match get_open s c with
      | None => (s, [9%Z])
      | Some k =>
          ({| conns := set_conn (N.to_nat c) (conns s) (mkc false 0 []);
              tmap := remove_all (toks_of (c_ids k)) (tmap s) |}, [0%Z])
      end
  | ODgram d =>
      let '(r, m') := on_stateless_reset (tmap s) d in
      ({| conns := conns s; tmap := m' |}, [match r with None => 0%Z | Some i => Nz (i + 1) end])
  | OTx c pn =>
      match get_open s c with
      | None => (s, [9%Z])
      | Some k =>
          let n := length (filter is_pend_ret (c_ids k)) in
          let ids := map (fun e => if is_pend_ret e then mki (i_seq e) (i_tok e) (SPendAck pn) else e) (c_ids k) in
          ({| conns := set_conn (N.to_nat c) (conns s) (mkc true (c_rpt k) ids); tmap := tmap s |}, [Z.of_nat n])
      end
  | OAck c pn =>
      match get_open s c with
      | None => (s, [9%Z])
      | Some k =>
          let gone := filter (is_pend_ack pn) (c_ids k) in
          let ids := filter (fun e => negb (is_pend_ack pn e)) (c_ids k) in
          ({| conns := set_conn (N.to_nat c) (conns s) (mkc true (c_rpt k) ids);
              tmap := remove_all (toks_of gone) (tmap s) |}, [0%Z])
      end
  end.

Fixpoint run_ops (s : st) (ops : list rop) : list Z :=
  match ops with
  | [] => []
  | o :: t => let '(s', out) := step s o in out ++ run_ops s' t
  end.

(* case -> ops: 0 flag tok | 1 c seq tok | 2 c | 3 c | 4 len bytes | 5 c seq tok (retire_prior_to = seq)
                | 6 c pn (one packet is written) | 7 c pn (it is acknowledged) *)
Fixpoint parse (fuel : nat) (c : list Z) : list rop :=
  match fuel with
  | O => []
  | S f =>
      match c with
      | 0%Z :: flag :: tok :: r => OOpen (negb (flag =? 0)%Z) (zN tok) :: parse f r
      | 1%Z :: c0 :: seq :: tok :: r =>
          if (c0 <? 0)%Z then [] else ONew (zN c0) (zN seq) 0 (zN tok) :: parse f r
      | 5%Z :: c0 :: seq :: tok :: r =>
          if (c0 <? 0)%Z then [] else ONew (zN c0) (zN seq) (zN seq) (zN tok) :: parse f r
      | 2%Z :: c0 :: r => if (c0 <? 0)%Z then [] else OUse (zN c0) :: parse f r
      | 3%Z :: c0 :: r => if (c0 <? 0)%Z then [] else ODrop (zN c0) :: parse f r
      | 4%Z :: len :: r => ODgram (map zN (firstn (Z.to_nat len) r)) :: parse f (skipn (Z.to_nat len) r)
      | 6%Z :: c0 :: pn :: r => if (c0 <? 0)%Z then [] else OTx (zN c0) (zN pn) :: parse f r
      | 7%Z :: c0 :: pn :: r => if (c0 <? 0)%Z then [] else OAck (zN c0) (zN pn) :: parse f r
      | _ => []
      end
  end.

Definition run (c : list Z) : list Z := run_ops (mks [] []) (parse (length c) c).

(* the property: a datagram is matched to connection i only if its last 16 bytes are a token the
   peer registered for connection i (transport parameter or an accepted NEW_CONNECTION_ID) earlier *)
Fixpoint judge_ops (nconn : N) (regs : list (N * list N)) (ops : list rop) (o : list Z) : bool :=
  match ops with
  | [] => match o with [] => true | _ => false end
  | OOpen flag tok :: t =>
      judge_ops (nconn + 1) (if flag then (nconn, tok_bytes tok) :: regs else regs) t o
  | ONew c seq rpt tok :: t =>
      match o with
      | code :: o' => judge_ops nconn (if (code =? 0)%Z then (c, tok_bytes tok) :: regs else regs) t o'
      | [] => false
      end
  | ODgram d :: t =>
      match o with
      | i :: o' =>
          (if (i =? 0)%Z then true
           else (0 <? i)%Z &&
                match last16 d with
                | None => false
                | Some tk => existsb (fun e => (fst e =? zN i - 1) && eqb_bytes tk (snd e)) regs
                end)
          && judge_ops nconn regs t o'
      | [] => false
      end
  | _ :: t => match o with _ :: o' => judge_ops nconn regs t o' | [] => false end
  end.

Definition judge (c o : list Z) : bool := judge_ops 0 [] (parse (length c) c) o.
