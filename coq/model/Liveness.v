(* C02 composition model (abstract): one finished stream of [n] chunks carried from a sender to a
   receiver over a lossy network, with retransmission driven by PTO/loss events, a receiver that
   reassembles the contiguous prefix, and stream + connection flow-control credit that is released as
   the receiving application reads -- carried by two instances of the IncrementalValueSync model
   (model/Sync.v: MAX_STREAM_DATA, MAX_DATA).

   Abstractions (stated in the limits paragraph of the property):
   * one packet = one frame; a transmission is a round trip decided by two network bits:
     [fwd] the packet reaches the peer, [rev] its acknowledgement comes back.  fwd && rev: the frame
     is acknowledged at once; otherwise it stays in flight until the endpoint's PTO declares it lost.
     (fwd && !rev is the duplicate-delivery case: the peer gets the retransmission again.)
   * the application wrote all [n] chunks and finished the stream before the run; the last chunk
     carries the FIN; data content is irrelevant here (C01/Arq.v covers content).
   * chunks are transmitted in order, retransmissions first and free of flow control (as in
     sync/data_sender.rs); a new chunk needs stream and connection credit and an unmasked sender.
   * the connection stays open (no idle expiry during the run; see the idle theorems for that side).
   Oracles: the scheduler (which endpoint action runs at step k), the network (fwd, rev at step k),
   and [mask] (whether the sender's flow controller reports "blocked" at step k). *)
From SQ Require Import lib.Base model.Sync.
Local Open Scope N_scope.

Inductive cst := CInFlight | CLost | CAcked.

Record st := mkSt {
  ch : list (cst * bool);   (* transmitted chunks in stream order: (sender's view, received by the peer) *)
  rread : N;                (* chunks consumed by the receiving application *)
  lim_s : N;                (* sender's MAX_STREAM_DATA *)
  lim_c : N;                (* sender's MAX_DATA *)
  car_s : ivs;              (* receiver's IncrementalValueSync carrying MAX_STREAM_DATA *)
  car_c : ivs }.            (* receiver's IncrementalValueSync carrying MAX_DATA *)

Inductive action :=
| ASend        (* sender gets a transmit opportunity *)
| ASendPto     (* sender's PTO / loss timer fires: everything in flight is declared lost *)
| ARead        (* the receiving application task runs and reads what is available *)
| ARxS         (* receiver gets a transmit opportunity for the MAX_STREAM_DATA carrier *)
| ARxC         (* ... for the MAX_DATA carrier *)
| ARxPto.      (* receiver's PTO fires *)

Definition is_unacked (c : cst) : bool := match c with CAcked => false | _ => true end.
Definition is_cinflight (c : cst) : bool := match c with CInFlight => true | _ => false end.
Definition is_clost (c : cst) : bool := match c with CLost => true | _ => false end.

Definition cnt (f : cst -> bool) (l : list (cst * bool)) : nat :=
  length (filter (fun x => f (fst x)) l).

(* retransmit the first lost chunk *)
Fixpoint retx (l : list (cst * bool)) (fwd rev : bool) : option (list (cst * bool)) :=
  match l with
  | [] => None
  | (CLost, r) :: t => Some ((if fwd && rev then CAcked else CInFlight, r || fwd) :: t)
  | x :: t => match retx t fwd rev with Some t' => Some (x :: t') | None => None end
  end.

Definition pto_data (l : list (cst * bool)) : list (cst * bool) :=
  map (fun x => (match fst x with CInFlight => CLost | c => c end, snd x)) l.

(* length of the contiguous received prefix *)
Fixpoint prefix_len (l : list (cst * bool)) : nat :=
  match l with
  | (_, true) :: t => S (prefix_len t)
  | _ => O
  end.

Definition wants (c : ivs) : bool := match idel c with Requested _ | Lost _ => true | _ => false end.

(* one transmission of a credit carrier: Some (carrier afterwards, value delivered to the peer) *)
Definition carrier_tx (c : ivs) (fwd rev : bool) : option (ivs * option N) :=
  if try_transmit (idel c) 0 then
    let c1 := fst (ivs_step c (OTransmit 0 true 0)) in
    let c2 := if fwd && rev then fst (ivs_step c1 (OAck (ipn c) (ipn c))) else c1 in
    Some (c2, if fwd then Some (latest c) else None)
  else None.

Definition carrier_lose (c : ivs) : ivs :=
  match idel c with
  | InFlight _ pn _ => fst (ivs_step c (OLoss pn pn))
  | _ => c
  end.

Section Liveness.
  Variable n : N.            (* chunks written; the stream is finished *)
  Variable ws wc : N.        (* receive windows (stream, connection) the receiver maintains *)
  Variable ths thc : N.      (* update thresholds of the two carriers *)

  Definition pos (s : st) : N := N.of_nat (length (ch s)).

  (* stream and connection credit for the next new chunk *)
  Definition credit_ok (s : st) : bool :=
    (pos s <? n) && (pos s <? lim_s s) && (pos s <? lim_c s).

  Definition init : st :=
    mkSt [] 0 ws wc (ivs_new ws ws ths) (ivs_new wc wc thc).

  Definition step (m : bool) (nt : bool * bool) (a : action) (s : st) : st :=
    let fwd := fst nt in
    let rev := snd nt in
    match a with
    | ASend =>
        match retx (ch s) fwd rev with
        | Some l => mkSt l (rread s) (lim_s s) (lim_c s) (car_s s) (car_c s)
        | None =>
            if credit_ok s && negb m
            then mkSt (ch s ++ [(if fwd && rev then CAcked else CInFlight, fwd)])
                      (rread s) (lim_s s) (lim_c s) (car_s s) (car_c s)
            else s
        end
    | ASendPto =>
        if (0 <? cnt is_cinflight (ch s))%nat
        then mkSt (pto_data (ch s)) (rread s) (lim_s s) (lim_c s) (car_s s) (car_c s)
        else s
    | ARead =>
        let r' := N.of_nat (prefix_len (ch s)) in
        if rread s <? r'
        then mkSt (ch s) r' (lim_s s) (lim_c s)
                  (fst (ivs_step (car_s s) (OUpdate (r' - rread s))))
                  (fst (ivs_step (car_c s) (OUpdate (r' - rread s))))
        else s
    | ARxS =>
        match carrier_tx (car_s s) fwd rev with
        | Some (c', dv) =>
            mkSt (ch s) (rread s) (match dv with Some v => N.max (lim_s s) v | None => lim_s s end)
                 (lim_c s) c' (car_c s)
        | None => s
        end
    | ARxC =>
        match carrier_tx (car_c s) fwd rev with
        | Some (c', dv) =>
            mkSt (ch s) (rread s) (lim_s s)
                 (match dv with Some v => N.max (lim_c s) v | None => lim_c s end) (car_s s) c'
        | None => s
        end
    | ARxPto =>
        if is_inflight (idel (car_s s)) || is_inflight (idel (car_c s))
        then mkSt (ch s) (rread s) (lim_s s) (lim_c s) (carrier_lose (car_s s)) (carrier_lose (car_c s))
        else s
    end.

  (* every chunk transmitted and acknowledged at the sender, everything read by the receiving
     application (the last chunk carries the FIN: both halves of the finished stream are complete) *)
  Definition complete (s : st) : Prop :=
    pos s = n /\ cnt is_unacked (ch s) = O /\ rread s = n.

  (* the oracles *)
  Variable sched : nat -> action.
  Variable net : nat -> bool * bool.
  Variable mask : nat -> bool.

  Fixpoint run (k : nat) : st :=
    match k with
    | O => init
    | S k' => step (mask k') (net k') (sched k') (run k')
    end.

  (* ---- passengers: the sender's *_BLOCKED PeriodicSync (model/Sync.v), one per window.  They are
     driven by the run but never feed back into it (BLOCKED frames are advisory / keep-alive).
     [lim] selects the window (lim_s: STREAM_DATA_BLOCKED, lim_c: DATA_BLOCKED); time = step index. *)
  Definition blocked_on (lim : st -> N) (s : st) : bool := (pos s <? n) && (lim s <=? pos s).

  Definition blk_ops (lim : st -> N) (rx : action) (s : st) (b : psy) (now : N)
             (a : action) (nt : bool * bool) : list op :=
    match a with
    | ASend =>
        (* acquire_flow_control_window: request_delivery(limit) when blocked; then on_transmit *)
        (if blocked_on lim s then [OUpdate (lim s - platest b)] else [])
        ++ [OTransmit 0 true now]
        ++ (if fst nt && snd nt then [OAck (ppn b) (ppn b)] else [])
    | ASendPto => [OLoss 0 varint_max; OTimeout now]     (* in-flight declared lost; timers polled *)
    | _ =>
        (* set_max_stream_data / on_max_data with a higher limit: stop_sync *)
        if (match a, rx with ARxS, ARxS => true | ARxC, ARxC => true | _, _ => false end)
           && (lim s <? lim (step false nt a s))
        then [OStop] else []
    end.

  Fixpoint blk_run (lim : st -> N) (rx : action) (k : nat) : psy * list op :=
    match k with
    | O => (psy_init, [])
    | S k' =>
        let '(b, h) := blk_run lim rx k' in
        let ops := blk_ops lim rx (run k') b (N.of_nat k') (sched k') (net k') in
        (fold_left (fun b o => fst (psy_step b o)) ops b, h ++ ops)
    end.
End Liveness.
