(* C04, stream limits and stream states: the property as an executable judgement on an
   implementation's output, written from RFC 9000 and the operations of the case alone
   (model/StreamCtl.v is used only for the case syntax [sop] / [sparse]).

   RFC 9000 rules judged
   * 4.6 / 19.11  a frame that would create a peer-initiated stream beyond the stream limit ->
     STREAM_LIMIT_ERROR.  The limit is the initial limit plus the number of streams of that type
     that are closed (terminal receive state read by the application: 3.2 "Data Read" /
     "Reset Read"); the endpoint never offers more (MAX_STREAMS value <= closed + limit, capped
     at 2^60).  Between the largest MAX_STREAMS actually transmitted and closed + limit either
     answer is accepted.
   * 19.8 / 19.10 / 19.5 (and, by the property text, every stream frame) a frame for a locally
     initiated stream that the application has not opened -> STREAM_STATE_ERROR.
   * 19.8, 19.4, 19.13 STREAM / RESET_STREAM / STREAM_DATA_BLOCKED for a send-only stream and
     19.10, 19.5 MAX_STREAM_DATA / STOP_SENDING for a receive-only stream -> STREAM_STATE_ERROR.
     (Frames for a stream that has already been closed and forgotten may be ignored.)
   * section 11: "a generic error code (such as PROTOCOL_VIOLATION or INTERNAL_ERROR) can always be
     used in place of specific error codes" -- both are accepted wherever a rule is broken.
   * every other frame is accepted. *)
From SQ Require Import lib.Base gen.Gen_C04 model.FlowRecv model.FlowRecvSpec model.StreamCtl.
Local Open Scope N_scope.

Inductive jus := JNone | JOpen | JFin | JReset | JGone.

Record sj := {
  jlimb : N; jlimu : N;        (* configured limits *)
  jopb : N; jopu : N;          (* peer-initiated streams created so far (highest index + 1) *)
  jclu : N;                    (* peer-initiated unidirectional streams closed *)
  jadvb : N; jadvu : N;        (* largest MAX_STREAMS transmitted (initially the limits) *)
  jlob : N; jlou : N;          (* streams opened by the local application *)
  juni : list jus              (* receive state of peer-initiated unidirectional streams *)
}.

Definition sjinit (lb lu : N) : sj :=
  {| jlimb := lb; jlimu := lu; jopb := 0; jopu := 0; jclu := 0; jadvb := lb; jadvu := lu;
     jlob := 0; jlou := 0; juni := [] |}.

Definition G_PROTOCOL_VIOLATION : Z := 10.
Definition G_INTERNAL_ERROR : Z := 1.
Definition S_LIMIT : Z := 4.
Definition S_STATE : Z := 5.

Definition generic (r : Z) : bool := (r =? G_PROTOCOL_VIOLATION)%Z || (r =? G_INTERNAL_ERROR)%Z.

Definition cap (v : N) : N := N.min v max_streams_max.

Definition jext (l : list jus) (n : N) : list jus := l ++ repeat JOpen (N.to_nat (n + 1) - length l).

Definition jus_frame (u : jus) (k : N) : jus :=
  match u with
  | JOpen => if k =? 1 then JFin else if k =? 2 then JReset else JOpen
  | _ => u
  end.

(* receive-type frames: STREAM, STREAM+FIN, RESET_STREAM, STREAM_DATA_BLOCKED *)
Definition recv_kind (k : N) : bool := k <=? 3.

(* [tol] = tolerate a wrong-direction frame on an existing / creatable stream being accepted *)
Fixpoint sjudge_ops (tol : bool) (j : sj) (ops : list sop) (out : list Z) : bool :=
  match ops with
  | [] => match out with [] => true | _ => false end
  | o :: rest =>
    match o with
    | SFrame t n k =>
        match out with
        | [] => false
        | r :: out' =>
            let is_local := 2 <=? t in
            let is_bidi := (t =? 0) || (t =? 2) in
            let unopened_local := is_local && ((if is_bidi then jlob j else jlou j) <=? n) in
            let gone := (t =? 1) && match nth_error (juni j) (N.to_nat n) with Some JGone => true | _ => false end in
            let wrong_dir := negb gone && (((t =? 3) && recv_kind k) || ((t =? 1) && negb (recv_kind k))) in
            let opened := if is_bidi then jopb j else jopu j in
            let closed := if is_bidi then 0 else jclu j in
            let limit := if is_bidi then jlimb j else jlimu j in
            let adv := if is_bidi then jadvb j else jadvu j in
            let v_limit := negb is_local && (opened <=? n) && (cap (closed + limit) <=? n) in
            let v_state := unopened_local || wrong_dir in
            let ok :=
              if (r =? 0)%Z then negb v_limit && negb unopened_local && (tol || negb wrong_dir)
              else (v_state && (r =? S_STATE)%Z) || (v_limit && (r =? S_LIMIT)%Z)
                   || ((v_state || v_limit) && generic r)
                   || (negb is_local && (opened <=? n) && (adv <=? n) && (r =? S_LIMIT)%Z) in
            if negb ok then false
            else if negb (r =? 0)%Z then match out' with [] => true | _ => false end
            else
              (* accepted: a frame for a peer-initiated stream creates it and all lower ones *)
              let j' :=
                if t =? 0 then
                  {| jlimb := jlimb j; jlimu := jlimu j; jopb := N.max (jopb j) (n + 1); jopu := jopu j;
                     jclu := jclu j; jadvb := jadvb j; jadvu := jadvu j; jlob := jlob j; jlou := jlou j; juni := juni j |}
                else if t =? 1 then
                  let l := jext (juni j) n in
                  let u := nth (N.to_nat n) l JGone in
                  {| jlimb := jlimb j; jlimu := jlimu j; jopb := jopb j; jopu := N.max (jopu j) (n + 1);
                     jclu := jclu j; jadvb := jadvb j; jadvu := jadvu j; jlob := jlob j; jlou := jlou j;
                     juni := if recv_kind k then set_nth (N.to_nat n) l (jus_frame u k) else l |}
                else j in
              sjudge_ops tol j' rest out'
        end
    | SOpen b =>
        match out with
        | r :: out' =>
            let j' := if (r =? 0)%Z then j else
                      if b then {| jlimb := jlimb j; jlimu := jlimu j; jopb := jopb j; jopu := jopu j; jclu := jclu j;
                                   jadvb := jadvb j; jadvu := jadvu j; jlob := jlob j + 1; jlou := jlou j; juni := juni j |}
                      else {| jlimb := jlimb j; jlimu := jlimu j; jopb := jopb j; jopu := jopu j; jclu := jclu j;
                              jadvb := jadvb j; jadvu := jadvu j; jlob := jlob j; jlou := jlou j + 1; juni := juni j |} in
            ((r =? 0)%Z || (r =? 1)%Z) && sjudge_ops tol j' rest out'
        | [] => false
        end
    | SRead n =>
        match out with
        | r :: out' =>
            (* the stream is closed once the application has seen its end (FIN read: 1; reset: error) *)
            let u := nth (N.to_nat n) (juni j) JNone in
            let closes := match u with
                          | JFin => (r =? 1)%Z
                          | JReset => (r =? -1)%Z
                          | _ => false
                          end in
            let j' := if closes then
                        {| jlimb := jlimb j; jlimu := jlimu j; jopb := jopb j; jopu := jopu j; jclu := jclu j + 1;
                           jadvb := jadvb j; jadvu := jadvu j; jlob := jlob j; jlou := jlou j;
                           juni := set_nth (N.to_nat n) (juni j) JGone |}
                      else j in
            ((r =? -1)%Z || (r =? 0)%Z || (r =? 1)%Z) && sjudge_ops tol j' rest out'
        | [] => false
        end
    | STransmit =>
        match out with
        | vb :: vu :: out' =>
            adv_ok vb (cap (jlimb j)) && adv_ok vu (cap (jclu j + jlimu j))
            && sjudge_ops tol
                 {| jlimb := jlimb j; jlimu := jlimu j; jopb := jopb j; jopu := jopu j; jclu := jclu j;
                    jadvb := if (vb =? -1)%Z then jadvb j else N.max (jadvb j) (zN vb);
                    jadvu := if (vu =? -1)%Z then jadvu j else N.max (jadvu j) (zN vu);
                    jlob := jlob j; jlou := jlou j; juni := juni j |} rest out'
        | _ => false
        end
    | SAdvance | SAck _ | SLoss _ => sjudge_ops tol j rest out
    end
  end.

Definition sjudge_pol (tol : bool) (c out : list Z) : bool :=
  let lb := N.min (zN (hd 0%Z (tl c))) max_limit in
  let lu := N.min (zN (hd 0%Z (tl (tl c)))) max_limit in
  sjudge_ops tol (sjinit lb lu) (sparse (length c) (tl (tl (tl c)))) out.

Definition sjudge : list Z -> list Z -> bool := sjudge_pol false.
(* identical, except that a wrong-direction frame (receive-type frame on a send-only stream,
   STOP_SENDING on a receive-only stream) may be accepted *)
Definition sjudge_tolerant : list Z -> list Z -> bool := sjudge_pol true.
