(* Model of quic/s2n-quic-transport/src/connection/close_sender.rs
     (CloseSender::{close, on_timeout, on_datagram_received, transmission interest, write_payload},
      Limiter::{on_timeout, on_datagram_received})
   with time in milliseconds: a Timer set to d is expired at `now` iff d <= now
   (Timestamp::has_elapsed compares with one millisecond of granularity added to `now`).
   The driver keeps the path validated, so the only constraint on sending is the sender's own
   transmission interest.  Executable definitions only. *)
From SQ Require Import lib.Base gen.Gen_C12.
Local Open Scope N_scope.

Definition sat8 (x : N) : N := N.min x 255.

(* st: 1 Closing, 2 Closed (Idle does not occur: the driver starts with close()) *)
Record cs := mk_cs { c_st : N; c_tx : bool; c_close : N; c_factor : N; c_recv : N; c_deb : option N }.

Definition cs_close (timeout : N) : cs :=
  mk_cs 1 true timeout Gen_C12.close_factor_init Gen_C12.close_received_init None.

(* on_timeout: true = Poll::Ready *)
Definition cs_timeout (s : cs) (now : N) : bool * cs :=
  if c_st s =? 2 then (true, s)
  else if c_close s <=? now then (true, mk_cs 2 false (c_close s) (c_factor s) (c_recv s) (c_deb s))
  else match c_deb s with
       | Some d => if d <=? now then (false, mk_cs 1 true (c_close s) (c_factor s) (c_recv s) None)
                   else (false, s)
       | None => (false, s)
       end.

Definition cs_datagram (s : cs) (rtt now : N) : cs :=
  if negb (c_st s =? 1) then s
  else match c_deb s with
       | Some _ => s
       | None =>
           let r := sat8 (c_recv s + 1) in
           if c_factor s <=? r
           then mk_cs 1 (c_tx s) (c_close s) (sat8 (c_factor s + c_factor s)) 0 (Some (now + rtt))
           else mk_cs 1 (c_tx s) (c_close s) (c_factor s) r None
       end.

(* an opportunity to send: true = the close packet is written *)
Definition cs_transmit (s : cs) : bool * cs :=
  if (c_st s =? 1) && c_tx s then (true, mk_cs 1 false (c_close s) (c_factor s) (c_recv s) (c_deb s))
  else (false, s).

Definition nx (l : list Z) : Z * list Z := match l with [] => (0%Z, []) | x :: t => (x, t) end.

Fixpoint run_ops (fuel : nat) (rtt now : N) (s : cs) (ops : list Z) : list Z :=
  match fuel with
  | O => []
  | S fuel =>
      match ops with
      | [] => []
      | 1%Z :: r =>
          let '(a, r) := nx r in
          let now' := now + zN a mod 10000 in
          let '(b, s') := cs_timeout s now' in
          [1%Z; bz b] ++ run_ops fuel rtt now' s' r
      | 2%Z :: r => 2%Z :: run_ops fuel rtt now (cs_datagram s rtt now) r
      | 3%Z :: r =>
          let '(b, s') := cs_transmit s in
          [3%Z; bz b] ++ run_ops fuel rtt now s' r
      | _ => []
      end
  end.

Definition run (case : list Z) : list Z :=
  let '(a, r) := nx case in let '(b, r) := nx r in let '(_, r) := nx r in
  run_ops (length r) (zN b mod 5000) 0 (cs_close (zN a mod 100000)) r.

(* C12, close: everything sent after CONNECTION_CLOSE is a copy of the close packet (code 1, never 2)
   and the number of copies sent so far never exceeds 1 + the number of datagrams received so far
   (one for entering the closing state, the others only in response to incoming packets) *)
Fixpoint walk (fuel : nat) (sent recv : N) (ops out : list Z) : bool :=
  match fuel with
  | O => true
  | S fuel =>
      match ops with
      | [] => true
      | 1%Z :: r => let '(_, r) := nx r in
          match out with 1%Z :: _ :: o => walk fuel sent recv r o | _ => false end
      | 2%Z :: r =>
          match out with 2%Z :: o => walk fuel sent (recv + 1) r o | _ => false end
      | 3%Z :: r =>
          match out with
          | 3%Z :: 0%Z :: o => walk fuel sent recv r o
          | 3%Z :: 1%Z :: o => (sent + 1 <=? 1 + recv) && walk fuel (sent + 1) recv r o
          | _ => false
          end
      | _ => true
      end
  end.

Definition judge (case out : list Z) : bool :=
  let '(_, r) := nx case in let '(_, r) := nx r in let '(_, r) := nx r in
  walk (length r) 0 0 r out.
