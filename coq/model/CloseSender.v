(* Model of quic/s2n-quic-transport/src/connection/close_sender.rs
     (CloseSender::{close, on_timeout, on_datagram_received, transmission interest, write_payload},
      Limiter::{on_timeout, on_datagram_received})
   with time in milliseconds: a Timer set to d is expired at `now` iff d <= now
   (Timestamp::has_elapsed compares with one millisecond of granularity added to `now`).
   The driver keeps the path validated, so the only constraint on sending is the sender's own
   transmission interest.  Executable definitions only. *)
From SQ Require Import lib.Base gen.Gen_C12.
Local Open Scope N_scope.

Definition sat8 (x : N) : N := N.min x 255.

(* st: 1 Closing, 2 Closed (Idle does not occur: the driver starts with close()) *)
Record cs := mk_cs { c_st : N; c_tx : bool; c_close : N; c_factor : N; c_recv : N; c_deb : option N }.

Definition cs_close (timeout : N) : cs :=
  mk_cs 1 true timeout Gen_C12.close_factor_init Gen_C12.close_received_init None.

(* on_timeout: true = Poll::Ready *)
Definition cs_timeout (s : cs) (now : N) : bool * cs :=
  if c_st s =? 2 then (true, s)
  else if c_close s <=? now then (true, mk_cs 2 false (c_close s) (c_factor s) (c_recv s) (c_deb s))
  else match c_deb s with
       | Some d => if d <=? now then (false, mk_cs 1 true (c_close s) (c_factor s) (c_recv s) None)
                   else (false, s)
       | None => (false, s)
       end.

Definition cs_datagram (s : cs) (rtt now : N) : cs :=
  if negb (c_st s =? 1) then s
  else match c_deb s with
       | Some _ => s
       | None =>
           let r := sat8 (c_recv s + 1) in
           if c_factor s <=? r
           then mk_cs 1 (c_tx s) (c_close s) (sat8 (c_factor s + c_factor s)) 0 (Some (now + rtt))
           else mk_cs 1 (c_tx s) (c_close s) (c_factor s) r None
       end.

(* an opportunity to send: true = the close packet is written *)
Definition cs_transmit (s : cs) : bool * cs :=
  if (c_st s =? 1) && c_tx s then (true, mk_cs 1 false (c_close s) (c_factor s) (c_recv s) (c_deb s))
  else (false, s).

Definition nx (l : list Z) : Z * list Z := match l with [] => (0%Z, []) | x :: t => (x, t) end.

(* the driver gives the sender an opportunity to send after every event, as the connection's event
   loop does: a timeout, a received datagram, an explicit opportunity; and once right after close() *)
Fixpoint run_ops (fuel : nat) (rtt now : N) (s : cs) (ops : list Z) : list Z :=
  match fuel with
  | O => []
  | S fuel =>
      match ops with
      | [] => []
      | 1%Z :: r =>
          let '(a, r) := nx r in
          let now' := now + zN a mod 10000 in
          let '(b, s1) := cs_timeout s now' in
          let '(t, s2) := cs_transmit s1 in
          [1%Z; bz b; bz t] ++ run_ops fuel rtt now' s2 r
      | 2%Z :: r =>
          let '(t, s2) := cs_transmit (cs_datagram s rtt now) in
          [2%Z; bz t] ++ run_ops fuel rtt now s2 r
      | 3%Z :: r =>
          let '(t, s2) := cs_transmit s in
          [3%Z; bz t] ++ run_ops fuel rtt now s2 r
      | _ => []
      end
  end.

Definition run (case : list Z) : list Z :=
  let '(a, r) := nx case in let '(b, r) := nx r in let '(_, r) := nx r in
  let '(t, s0) := cs_transmit (cs_close (zN a mod 100000)) in
  [9%Z; bz t] ++ run_ops (length r) (zN b mod 5000) 0 s0 r.

(* C12, close: everything sent after CONNECTION_CLOSE is a copy of the close packet (flag 1, never 2),
   and every copy after the first is sent in response to an incoming packet: at least one datagram
   was received since the previous copy (recomputed from the operations alone).
   monitor: sent = a copy was sent before, fresh = a datagram was received since the last copy *)
Definition copy_ok (sent fresh : bool) (v : Z) : option (bool * bool) :=
  match v with
  | 0%Z => Some (sent, fresh)
  | 1%Z => if negb sent || fresh then Some (true, false) else None
  | _ => None
  end.

Fixpoint walk (fuel : nat) (sent fresh : bool) (ops out : list Z) : bool :=
  match fuel with
  | O => true
  | S fuel =>
      match ops with
      | [] => true
      | 1%Z :: r => let '(_, r) := nx r in
          match out with
          | 1%Z :: _ :: v :: o =>
              match copy_ok sent fresh v with Some (s', f') => walk fuel s' f' r o | None => false end
          | _ => false
          end
      | 2%Z :: r =>
          match out with
          | 2%Z :: v :: o =>
              match copy_ok sent true v with Some (s', f') => walk fuel s' f' r o | None => false end
          | _ => false
          end
      | 3%Z :: r =>
          match out with
          | 3%Z :: v :: o =>
              match copy_ok sent fresh v with Some (s', f') => walk fuel s' f' r o | None => false end
          | _ => false
          end
      | _ => true
      end
  end.

Definition judge (case out : list Z) : bool :=
  let '(_, r) := nx case in let '(_, r) := nx r in let '(_, r) := nx r in
  match out with
  | 9%Z :: v :: o =>
      match copy_ok false false v with Some (s', f') => walk (length r) s' f' r o | None => false end
  | _ => false
  end.
