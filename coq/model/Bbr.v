(* Model of the congestion-window assignments and the bytes_in_flight counter of
   quic/s2n-quic-core/src/recovery/bbr.rs (BbrCongestionController).  Executable definitions only.

   Two levels.
   (1) The three places that assign [cwnd] -- set_cwnd (with bound_cwnd_for_model), restore_cwnd,
       on_mtu_update -- and the constructor are modelled with the code's own u32 arithmetic; every
       quantity that comes from BBR's bandwidth / inflight model (max_inflight, filled_pipe,
       delivered bytes, ProbeRTT, probe_rtt_cwnd, the state dependent cap, inflight_lo, the f32
       rescale) is an arbitrary oracle input.
   (2) The executable history model used for differential runs keeps bytes_in_flight exactly and
       takes the implementation's own window after each step as the oracle's answer, confined to
       the envelope that level (1) allows: [minimum_window, (largest window so far) + newly acked]. *)
From SQ Require Import lib.Base gen.Gen_C10.
From SQ Require model.Cubic.
Import Cubic.
Local Open Scope N_scope.

(* minimum_window: MIN_PIPE_CWND_PACKETS as u32 * max_datagram_size as u32 -- a u32 product
   (since the `fix:` commit efa1126; it used to be a u16 product that overflowed from 16384 on).
   None = the u32 product overflows, which no u16 datagram size can cause. *)
Definition bbr_min_window_checked (m : N) : option N :=
  let v := bbr_min_pipe_cwnd_packets * m in if v <=? u32_max then Some v else None.
Definition bbr_min_window (m : N) : N := bbr_min_pipe_cwnd_packets * m.

Definition bbr_initial_window (m : N) : N :=
  N.max (N.min (bbr_initial_window_packets * m) (N.max bbr_initial_window_limit (bbr_initial_window_floor_packets * m)))
        (bbr_min_window m).

Record bbr_oracle := mkO {
  filled_pipe : bool;        (* full_pipe_estimator.filled_pipe() *)
  max_inflight : N;          (* self.max_inflight() as u32 (saturated) *)
  delivered_small : bool;    (* bw_estimator.delivered_bytes() < 2 * initial_cwnd *)
  probing_rtt : bool;        (* state.is_probing_rtt() *)
  probe_rtt_cwnd : N;
  cap : N;                   (* inflight_hi / inflight_with_headroom() / u32::MAX according to the state *)
  inflight_lo : N
}.

Definition bound_cwnd_for_model (m : N) (o : bbr_oracle) : N :=
  N.max (N.min (cap o) (inflight_lo o)) (bbr_min_window m).

(* u32::clamp (lo <= hi is asserted by the standard library) *)
Definition clamp (x lo hi : N) : N := if x <? lo then lo else if hi <? x then hi else x.

(* set_cwnd; None = the unchecked `cwnd += newly_acked as u32` overflows u32 *)
Definition bbr_set_cwnd (cwnd m acked : N) (o : bbr_oracle) : option N :=
  let c1 := if filled_pipe o
            then let c := N.min (cwnd + acked) u32_max in           (* saturating_add *)
                 if max_inflight o <=? c then max_inflight o else c
            else if (cwnd <? max_inflight o) || delivered_small o then cwnd + acked else cwnd in
  if u32_max <? c1 then None else
  let c2 := if probing_rtt o then N.min c1 (probe_rtt_cwnd o) else c1 in
  Some (clamp c2 (bbr_min_window m) (bound_cwnd_for_model m o)).

Definition bbr_restore_cwnd (cwnd prior : N) : N := N.max cwnd prior.
Definition bbr_save_cwnd (cwnd prior : N) : N := N.max prior cwnd.
(* on_mtu_update: raw = the f32 rescale of the old window, truncated to u32 *)
Definition bbr_mtu_cwnd (raw m : N) : N := N.max raw (bbr_initial_window m).

(* ---- level (2): executable history model ---- *)
Record bstate := mkB { bmds : N; bcwnd : N; bbif : N; bmaxw : N }.

Definition binit (m : N) : bstate :=
  {| bmds := m; bcwnd := bbr_initial_window m; bbif := 0; bmaxw := bbr_initial_window m |}.

Definition bstep (s : bstate) (o : op) (a : N) : option bstate :=
  match o with
  | Sent bytes _ =>
      if bytes =? 0 then Some s else
      if u32_max <? bbif s + bytes then None else
      Some {| bmds := bmds s; bcwnd := bcwnd s; bbif := bbif s + bytes; bmaxw := bmaxw s |}
  | Ack bytes _ _ =>
      if bbif s <? bytes then None else
      let c := N.max (bbr_min_window (bmds s)) (N.min a (bmaxw s + bytes)) in
      Some {| bmds := bmds s; bcwnd := c; bbif := bbif s - bytes; bmaxw := N.max (bmaxw s) c |}
  | Lost bytes _ _ =>
      if (bytes =? 0) || (bbif s <? bytes) then None else
      Some {| bmds := bmds s; bcwnd := bcwnd s; bbif := bbif s - bytes; bmaxw := bmaxw s |}
  | Ecn _ => Some s
  | Mtu m =>
      let c := bbr_mtu_cwnd a m in
      Some {| bmds := m; bcwnd := c; bbif := bbif s; bmaxw := N.max (bmaxw s) c |}
  | Discard bytes =>
      if bbif s <? bytes then None else
      Some {| bmds := bmds s; bcwnd := bcwnd s; bbif := bbif s - bytes; bmaxw := bmaxw s |}
  | Nop => Some s
  end.

(* rows: congestion_window(), bytes_in_flight(), is_congestion_limited() *)
Definition brow (s : bstate) : list Z :=
  [Nz (bcwnd s); Nz (bbif s); bz (bcwnd s - bbif s <? bmds s)].

Definition bnext_answer (rows : list Z) : N * list Z :=
  match rows with
  | a :: _ :: _ :: t => (zN a, t)
  | _ => (0, [])
  end.

Fixpoint breplay_from (s : bstate) (ops : list op) (rows : list Z) : list Z :=
  match ops with
  | [] => []
  | o :: t =>
      let '(a, rows') := bnext_answer rows in
      match bstep s o a with
      | None => [(-1)%Z]
      | Some s' => brow s' ++ breplay_from s' t rows'
      end
  end.

Definition breplay (case rows : list Z) : list Z :=
  match case with
  | [] => []
  | m :: t => let s := binit (zN m) in brow s ++ breplay_from s (decode 0 t) (snd (bnext_answer rows))
  end.

Definition run (l : list Z) : list Z := let '(c, r) := split_at_neg l in breplay c r.

(* ---- the property on an implementation's rows: window >= 4 datagrams, not saturated,
        bytes_in_flight equal to the bytes outstanding according to the operations ---- *)
Record bj := mkBJ { bjm : N; bjb : N }.

Definition bjvalid (j : bj) (o : op) : bool :=
  match o with
  | Sent bytes _ => (bytes =? 0) || (bjb j + bytes <=? u32_max)
  | Ack bytes _ _ => bytes <=? bjb j
  | Lost bytes _ _ => negb (bytes =? 0) && (bytes <=? bjb j)
  | Discard bytes => bytes <=? bjb j
  | _ => true
  end.

Definition bjstep (j : bj) (o : op) (w b : N) : bool * bj :=
  let m' := match o with Mtu m => m | _ => bjm j end in
  let b' := match o with
            | Sent bytes _ => bjb j + bytes
            | Ack bytes _ _ | Lost bytes _ _ | Discard bytes => bjb j - bytes
            | _ => bjb j
            end in
  ((bbr_min_window m' <=? w) && (w <? u32_max) && (b =? b'), {| bjm := m'; bjb := b' |}).

Fixpoint bjudge_from (j : bj) (ops : list op) (rows : list Z) : bool :=
  match ops with
  | [] => match rows with [] => true | _ => false end
  | o :: t =>
      if negb (bjvalid j o) then true else
      match rows with
      | w :: b :: _ :: rows' =>
          if (w <? 0)%Z || (b <? 0)%Z then false else
          let '(ok, j') := bjstep j o (zN w) (zN b) in
          ok && bjudge_from j' t rows'
      | _ => false
      end
  end.

Definition judge (case rows : list Z) : bool :=
  match case with
  | [] => true
  | m :: t =>
      match rows with
      | w :: b :: _ :: rows' =>
          let m := zN m in
          (0 <=? w)%Z && (bbr_min_window m <=? zN w) && (zN w <? u32_max) && (b =? 0)%Z
          && bjudge_from {| bjm := m; bjb := 0 |} (decode 0 t) rows'
      | _ => false
      end
  end.
