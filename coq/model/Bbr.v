(* Model of the congestion-window assignments and the bytes_in_flight counter of
   quic/s2n-quic-core/src/recovery/bbr.rs (BbrCongestionController).  Executable definitions only.

   Two levels.
   (1) The three places that assign [cwnd] -- set_cwnd (with bound_cwnd_for_model), restore_cwnd,
       on_mtu_update -- and the constructor are modelled with the code's own u32 arithmetic; every
       quantity that comes from BBR's bandwidth / inflight model (max_inflight, filled_pipe,
       delivered bytes, ProbeRTT, probe_rtt_cwnd, the state dependent cap, inflight_lo, the f32
       rescale) is an arbitrary oracle input.
   (2) The executable history model used for differential runs keeps exactly: bytes_in_flight,
       the recovery state, the delivery-rate estimator's counters (delivered / lost bytes, the
       application-limited marker), prior_cwnd (save_cwnd / restore_cwnd) and the f32 rescale of
       on_mtu_update.  The state kind, filled_pipe, inflight_hi and inflight_lo after a step are
       oracle answers (the implementation's own values), accepted only along the transitions the
       code allows; the window after on_ack is an oracle answer confined to what set_cwnd can
       produce from them: unchanged (after restore_cwnd), or within
       [minimum_window, min(window + newly acked, bound_cwnd_for_model)]. *)
From SQ Require Import lib.Base gen.Gen_C10.
From SQ Require model.Cubic.
Import Cubic.
Local Open Scope N_scope.

(* minimum_window: MIN_PIPE_CWND_PACKETS as u32 * max_datagram_size as u32 -- a u32 product
   (since the `fix:` commit efa1126; it used to be a u16 product that overflowed from 16384 on).
   None = the u32 product overflows, which no u16 datagram size can cause. *)
Definition bbr_min_window_checked (m : N) : option N :=
  let v := bbr_min_pipe_cwnd_packets * m in if v <=? u32_max then Some v else None.
Definition bbr_min_window (m : N) : N := bbr_min_pipe_cwnd_packets * m.

Definition bbr_initial_window (m : N) : N :=
  N.max (N.min (bbr_initial_window_packets * m) (N.max bbr_initial_window_limit (bbr_initial_window_floor_packets * m)))
        (bbr_min_window m).

Record bbr_oracle := mkO {
  filled_pipe : bool;        (* full_pipe_estimator.filled_pipe() *)
  raw_inflight : N;          (* bdp * cwnd_gain + extra_acked, before quantization_budget *)
  offload_budget : N;        (* 3 * send_quantum *)
  probing_up : bool;         (* state.is_probing_bw_up() *)
  delivered_small : bool;    (* bw_estimator.delivered_bytes() < 2 * initial_cwnd *)
  probing_rtt : bool;        (* state.is_probing_rtt() *)
  raw_probe_rtt_cwnd : N;    (* bdp * probe_rtt::CWND_GAIN *)
  cap : N;                   (* inflight_hi / inflight_with_headroom() / u32::MAX according to the state *)
  inflight_lo : N
}.

Definition bound_cwnd_for_model (m : N) (o : bbr_oracle) : N :=
  N.max (N.min (cap o) (inflight_lo o)) (bbr_min_window m).

(* quantization_budget / max_inflight (saturated to u32), probe_rtt_cwnd: each applies its own
   floor at minimum_window *)
Definition max_inflight (m : N) (o : bbr_oracle) : N :=
  let i := N.max (N.max (raw_inflight o) (offload_budget o)) (bbr_min_window m) in
  N.min (if probing_up o then i + 2 * m else i) u32_max.
Definition probe_rtt_cwnd (m : N) (o : bbr_oracle) : N :=
  N.max (N.min (raw_probe_rtt_cwnd o) u32_max) (bbr_min_window m).

(* u32::clamp (lo <= hi is asserted by the standard library) *)
Definition clamp (x lo hi : N) : N := if x <? lo then lo else if hi <? x then hi else x.

(* set_cwnd; None = the unchecked `cwnd += newly_acked as u32` overflows u32 *)
Definition bbr_set_cwnd (cwnd m acked : N) (o : bbr_oracle) : option N :=
  let c1 := if filled_pipe o
            then let c := N.min (cwnd + acked) u32_max in           (* saturating_add *)
                 if max_inflight m o <=? c then max_inflight m o else c
            else if (cwnd <? max_inflight m o) || delivered_small o then cwnd + acked else cwnd in
  if u32_max <? c1 then None else
  let c2 := if probing_rtt o then N.min c1 (probe_rtt_cwnd m o) else c1 in
  Some (clamp c2 (bbr_min_window m) (bound_cwnd_for_model m o)).

(* the same without the final lower clamp: the value before `.clamp(minimum_window, ..)` bounded
   above only (used to show the lower clamp never binds) *)
Definition bbr_set_cwnd_unclamped (cwnd m acked : N) (o : bbr_oracle) : N :=
  let c1 := if filled_pipe o
            then let c := N.min (cwnd + acked) u32_max in
                 if max_inflight m o <=? c then max_inflight m o else c
            else if (cwnd <? max_inflight m o) || delivered_small o then cwnd + acked else cwnd in
  let c2 := if probing_rtt o then N.min c1 (probe_rtt_cwnd m o) else c1 in
  N.min c2 (bound_cwnd_for_model m o).

Definition bbr_restore_cwnd (cwnd prior : N) : N := N.max cwnd prior.
Definition bbr_save_cwnd (cwnd prior : N) : N := N.max prior cwnd.
(* on_mtu_update: raw = the f32 rescale of the old window, truncated to u32 *)
Definition bbr_mtu_cwnd (raw m : N) : N := N.max raw (bbr_initial_window m).

(* ---- level (2): executable history model ---- *)
Definition u64_max' : N := 18446744073709551615.

(* state kinds: 0 Startup, 1 Drain, 2 ProbeBw Down, 3 Cruise, 4 Refill, 5 Up, 6 ProbeRtt *)
Record bstate := mkB {
  bmds : N; bcwnd : N; bprior : N; bbif : N;
  bkind : N; bfilled : bool; bhi : N; blo : N;
  bdeliv : N; blost : N; bapp : option N;          (* bw_estimator: delivered, lost, app-limited marker *)
  brec : option (N * bool);                         (* recovery_state: Recovering(start, requires transmission) *)
  bq : list (N * N);                                (* harness side: outstanding packets (bytes left, sent time) *)
  blast : option N                                  (* harness side: send time of the last packet *)
}.

Definition binit (m : N) : bstate :=
  {| bmds := m; bcwnd := bbr_initial_window m; bprior := 0; bbif := 0; bkind := 0; bfilled := false;
     bhi := u64_max'; blo := u64_max'; bdeliv := 0; blost := 0; bapp := None; brec := None; bq := []; blast := None |}.

Definition sat32 (x : N) : N := N.min x u32_max.
Definition is_pbw (k : N) : bool := (2 <=? k) && (k <=? 5).

(* inflight_with_headroom and bound_cwnd_for_model from the state kind and the two bounds *)
Definition headroom (hi m : N) : N :=
  if hi =? u64_max' then u32_max
  else N.max (sat32 (bbr_headroom_num * hi / bbr_headroom_den)) (bbr_min_window m).
Definition bound_of (k hi lo m : N) : N :=
  let cap := if (k =? 2) || (k =? 4) || (k =? 5) then sat32 hi
             else if (k =? 6) || (k =? 3) then headroom hi m
             else u32_max in
  N.max (N.min cap (sat32 lo)) (bbr_min_window m).

(* transitions on_ack may take in one call (f' = filled_pipe afterwards) *)
Definition legal_ack (k k' : N) (f' : bool) : bool :=
  ((k' =? k) ||
   match k with
   | 0 => (k' =? 1) || is_pbw k' || (k' =? 6)
   | 1 => is_pbw k' || (k' =? 6)
   | 6 => ((k' =? 0) && negb f') || ((k' =? 3) && f')
   | _ => if is_pbw k then is_pbw k' || (k' =? 6) else false
   end)
  && (if (k' =? 1) || is_pbw k' then f' else true).

(* removes n bytes from the oldest packets; the send time of the last packet touched *)
Fixpoint take (q : list (N * N)) (n : N) (hit : option N) : list (N * N) * option N :=
  match q with
  | [] => ([], hit)
  | (b, t) :: r =>
      if n =? 0 then (q, hit)
      else if n <? b then ((b - n, t) :: r, Some t)
      else take r (n - b) (Some t)
  end.

Definition app_mark (s : bstate) (b : N) (app : N) : option N :=
  match app with
  | 1 => bapp s                                                      (* Some(false) *)
  | _ => Some (bdeliv s + sat32 (bbif s + b))                        (* None / Some(true) *)
  end.

Definition clear_req_b (r : option (N * bool)) : option (N * bool) :=
  match r with Some (t, true) => Some (t, false) | _ => r end.
Definition congestion_b (r : option (N * bool)) (now : N) : option (N * bool) :=
  match r with None => Some (now, true) | _ => r end.

Record banswer := mkA { a_cwnd : N; a_kind : N; a_filled : bool; a_hi : N; a_lo : N }.

Definition upd (s : bstate) (c p b k : N) (f : bool) (hi lo : N) : bstate :=
  {| bmds := bmds s; bcwnd := c; bprior := p; bbif := b; bkind := k; bfilled := f; bhi := hi; blo := lo;
     bdeliv := bdeliv s; blost := blost s; bapp := bapp s; brec := brec s; bq := bq s; blast := blast s |}.

Definition bstep (s : bstate) (o : op) (a : banswer) : option bstate :=
  match o with
  | Sent bytes app _ =>
      if negb (bytes =? 0) && (u32_max <? bbif s + bytes) then None else
      Some {| bmds := bmds s; bcwnd := bcwnd s; bprior := bprior s; bbif := bbif s + bytes;
              bkind := bkind s; bfilled := bfilled s; bhi := bhi s; blo := blo s;
              bdeliv := bdeliv s; blost := blost s; bapp := app_mark s bytes app;
              brec := if bytes =? 0 then brec s else clear_req_b (brec s);
              bq := bq s; blast := blast s |}
  | Ack bytes _ _ =>
      let '(q', hit) := take (bq s) bytes None in
      match (match hit with Some t => Some t | None => blast s end) with
      | None => Some s
      | Some st =>
          if bbif s <? bytes then None else
          let d' := bdeliv s + bytes in
          let app' := match bapp s with Some x => if x <? d' then None else Some x | None => None end in
          let rec' := match brec s with Some (t, r) => if t <? st then None else Some (t, r) | None => None end in
          let f' := if bfilled s then true else a_filled a in
          let k' := if legal_ack (bkind s) (a_kind a) f' then a_kind a else 7 in
          let p' := if negb (bkind s =? 6) && (k' =? 6) then N.max (bprior s) (bcwnd s) else bprior s in
          let restored := if (bkind s =? 6) && negb (k' =? 6) then N.max (bcwnd s) p' else bcwnd s in
          let bound := bound_of k' (a_hi a) (a_lo a) (bmds s) in
          let c' := if a_cwnd a =? restored then restored
                    else N.max (bbr_min_window (bmds s)) (N.min (a_cwnd a) (N.min (restored + bytes) bound)) in
          Some {| bmds := bmds s; bcwnd := c'; bprior := p'; bbif := bbif s - bytes;
                  bkind := k'; bfilled := f'; bhi := a_hi a; blo := a_lo a;
                  bdeliv := d'; blost := blost s;
                  (* handle_probe_rtt marks the connection application limited *)
                  bapp := if (bkind s =? 6) || (k' =? 6) then Some (d' + (bbif s - bytes)) else app';
                  brec := rec'; bq := q'; blast := blast s |}
      end
  | Lost bytes _ now =>
      if (bytes =? 0) || (bbif s <? bytes) then None else
      let '(q', _) := take (bq s) bytes None in
      let k' := if (a_kind a =? bkind s) || ((bkind s =? 5) && (a_kind a =? 2)) then a_kind a else 7 in
      Some {| bmds := bmds s; bcwnd := bcwnd s; bprior := bprior s; bbif := bbif s - bytes;
              bkind := k'; bfilled := bfilled s; bhi := a_hi a; blo := a_lo a;
              bdeliv := bdeliv s; blost := blost s + bytes;
              bapp := match bapp s with Some x => Some (x - bytes) | None => None end;
              brec := congestion_b (brec s) now; bq := q'; blast := blast s |}
  | Ecn now =>
      Some {| bmds := bmds s; bcwnd := bcwnd s; bprior := bprior s; bbif := bbif s;
              bkind := bkind s; bfilled := bfilled s; bhi := bhi s; blo := blo s;
              bdeliv := bdeliv s; blost := blost s; bapp := bapp s;
              brec := congestion_b (brec s) now; bq := bq s; blast := blast s |}
  | Mtu m =>
      (* ((cwnd as f32 / old as f32) * new as f32) as u32, then max with the initial window *)
      let raw := sat32 (fdivmul (round24 (bcwnd s)) (bmds s) m) in
      Some {| bmds := m; bcwnd := bbr_mtu_cwnd raw m; bprior := bprior s; bbif := bbif s;
              bkind := bkind s; bfilled := bfilled s; bhi := bhi s; blo := blo s;
              bdeliv := bdeliv s; blost := blost s; bapp := bapp s; brec := brec s; bq := bq s; blast := blast s |}
  | Discard bytes =>
      if bbif s <? bytes then None else
      let '(q', _) := take (bq s) bytes None in
      Some {| bmds := bmds s; bcwnd := bcwnd s; bprior := bprior s; bbif := bbif s - bytes;
              bkind := bkind s; bfilled := bfilled s; bhi := bhi s; blo := blo s;
              bdeliv := bdeliv s; blost := blost s;
              bapp := match bapp s with Some x => Some (x - bytes) | None => None end;
              brec := clear_req_b (brec s); bq := q'; blast := blast s |}
  | RttUpd _ _ _ => Some s            (* only initialises the pacing rate *)
  | Nop => Some s
  end.

(* the harness keeps its own packet queue: a send enqueues (bytes, now) and records the time *)
Definition note_sent (s : bstate) (o : op) (now : N) : bstate :=
  match o with
  | Sent bytes _ _ =>
      {| bmds := bmds s; bcwnd := bcwnd s; bprior := bprior s; bbif := bbif s;
         bkind := bkind s; bfilled := bfilled s; bhi := bhi s; blo := blo s;
         bdeliv := bdeliv s; blost := blost s; bapp := bapp s; brec := brec s;
         bq := if bytes =? 0 then bq s else bq s ++ [(bytes, now)]; blast := Some now |}
  | Discard _ => s
  | _ => s
  end.

(* rows (13): congestion_window(), bytes_in_flight(), is_congestion_limited(),
   requires_fast_retransmission(), state kind, filled_pipe, prior_cwnd, inflight_hi, inflight_lo,
   delivered_bytes, lost_bytes, application limited, recovery (0 / 1 idle / 2 requires transmission) *)
Definition brow (s : bstate) : list Z :=
  [Nz (bcwnd s); Nz (bbif s); bz (bcwnd s - bbif s <? bmds s);
   bz (match brec s with Some (_, true) => true | _ => false end);
   Nz (bkind s); bz (bfilled s); Nz (bprior s); Nz (bhi s); Nz (blo s);
   Nz (bdeliv s); Nz (blost s); bz (match bapp s with Some _ => true | None => false end);
   (match brec s with None => 0 | Some (_, false) => 1 | Some (_, true) => 2 end)%Z].

Definition bnext_answer (rows : list Z) : banswer * list Z :=
  match rows with
  | c :: _ :: _ :: _ :: k :: f :: _ :: hi :: lo :: _ :: _ :: _ :: _ :: t =>
      ({| a_cwnd := zN c; a_kind := zN k; a_filled := negb (f =? 0)%Z; a_hi := zN hi; a_lo := zN lo |}, t)
  | _ => ({| a_cwnd := 0; a_kind := 0; a_filled := false; a_hi := 0; a_lo := 0 |}, [])
  end.

(* the time of each operation (the same clock as Cubic.decode) *)
Fixpoint times (now : N) (l : list Z) : list N :=
  match l with
  | _ :: _ :: _ :: _ :: dt :: t => (now + zN dt) :: times (now + zN dt) t
  | _ => []
  end.

Fixpoint breplay_from (s : bstate) (ops : list op) (ts : list N) (rows : list Z) : list Z :=
  match ops with
  | [] => []
  | o :: t =>
      let '(a, rows') := bnext_answer rows in
      let now := hd 0 ts in
      match bstep s o a with
      | None => [(-1)%Z]
      | Some s' => let s'' := note_sent s' o now in brow s'' ++ breplay_from s'' t (tl ts) rows'
      end
  end.

Definition breplay (case rows : list Z) : list Z :=
  match case with
  | [] => []
  | m :: t => let s := binit (zN m) in
              brow s ++ breplay_from s (decode 0 t) (times 0 t) (snd (bnext_answer rows))
  end.

Definition run (l : list Z) : list Z := let '(c, r) := split_at_neg l in breplay c r.

(* ---- the property on an implementation's rows: window >= 4 datagrams, not saturated,
        bytes_in_flight equal to the bytes outstanding according to the operations ---- *)
Record bj := mkBJ { bjm : N; bjb : N }.

Definition bjvalid (j : bj) (o : op) : bool :=
  match o with
  | Sent bytes _ _ => (bytes =? 0) || (bjb j + bytes <=? u32_max)
  | Ack bytes _ _ => bytes <=? bjb j
  | Lost bytes _ _ => negb (bytes =? 0) && (bytes <=? bjb j)
  | Discard bytes => bytes <=? bjb j
  | _ => true
  end.

Definition bjstep (j : bj) (o : op) (w b : N) : bool * bj :=
  let m' := match o with Mtu m => m | _ => bjm j end in
  let b' := match o with
            | Sent bytes _ _ => bjb j + bytes
            | Ack bytes _ _ | Lost bytes _ _ | Discard bytes => bjb j - bytes
            | _ => bjb j
            end in
  ((bbr_min_window m' <=? w) && (w <? u32_max) && (b =? b'), {| bjm := m'; bjb := b' |}).

Fixpoint bjudge_from (j : bj) (ops : list op) (rows : list Z) : bool :=
  match ops with
  | [] => match rows with [] => true | _ => false end
  | o :: t =>
      if negb (bjvalid j o) then true else
      match rows with
      | w :: b :: _ :: _ :: _ :: _ :: _ :: _ :: _ :: _ :: _ :: _ :: _ :: rows' =>
          if (w <? 0)%Z || (b <? 0)%Z then false else
          let '(ok, j') := bjstep j o (zN w) (zN b) in
          ok && bjudge_from j' t rows'
      | _ => false
      end
  end.

Definition judge (case rows : list Z) : bool :=
  match case with
  | [] => true
  | m :: t =>
      match rows with
      | w :: b :: _ :: _ :: _ :: _ :: _ :: _ :: _ :: _ :: _ :: _ :: _ :: rows' =>
          let m := zN m in
          (0 <=? w)%Z && (bbr_min_window m <=? zN w) && (zN w <? u32_max) && (b =? 0)%Z
          && bjudge_from {| bjm := m; bjb := 0 |} (decode 0 t) rows'
      | _ => false
      end
  end.
