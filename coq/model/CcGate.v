(* The sending gate: Path::transmission_constraint (quic/s2n-quic-transport/src/path/mod.rs),
   as a function of at_amplification_limit(), is_congestion_limited() and
   requires_fast_retransmission().  (Its correspondence with the real Path is exercised by the
   C11 driver; the two controller inputs are rows of the C10 harness.) *)
From SQ Require Import lib.Base.
From SQ Require model.Cubic.
Import Cubic.
Local Open Scope N_scope.

Inductive constraint := AmplificationLimited | RetransmissionOnly | CongestionLimited | Unconstrained.

Definition transmission_constraint (amplification_limited congestion_limited fast_retransmission : bool) : constraint :=
  if amplification_limited then AmplificationLimited
  else if congestion_limited then (if fast_retransmission then RetransmissionOnly else CongestionLimited)
  else Unconstrained.

Definition cubic_constraint (amp : bool) (s : cstate) : constraint :=
  transmission_constraint amp (Cubic.congestion_limited s)
    (match kind s with Recovery _ true => true | _ => false end).
