(* The sending gate: Path::transmission_constraint (quic/s2n-quic-transport/src/path/mod.rs),
   as a function of at_amplification_limit(), is_congestion_limited() and
   requires_fast_retransmission().  (Its correspondence with the real Path is exercised by the
   C11 driver; the two controller inputs are rows of the C10 harness.) *)
From SQ Require Import lib.Base.
From SQ Require model.Cubic.
Import Cubic.
Local Open Scope N_scope.

Inductive constraint := AmplificationLimited | RetransmissionOnly | CongestionLimited | Unconstrained.

Definition transmission_constraint (amplification_limited congestion_limited fast_retransmission : bool) : constraint :=
  if amplification_limited then AmplificationLimited
  else if congestion_limited then (if fast_retransmission then RetransmissionOnly else CongestionLimited)
  else Unconstrained.

Definition cubic_constraint (amp : bool) (s : cstate) : constraint :=
  transmission_constraint amp (Cubic.congestion_limited s)
    (match kind s with Recovery _ true => true | _ => false end).

(* ---- property clause "one packet when entering recovery" as an executable judgement on an
   implementation's CUBIC rows (only the trait observable requires_fast_retransmission() is used):
   the allowance may turn on only at a loss / ECN event, and at most once per recovery period,
   i.e. not again until a packet sent after that event is acknowledged or persistent congestion
   is declared. ---- *)
Record gj := mkG { gprev : bool; ggrant : option N }.

Fixpoint gate_from (w idx : nat) (g : gj) (ops : list op) (rows : list Z) : bool :=
  match ops with
  | [] => true
  | o :: t =>
      let cur := negb (nth idx rows 0 =? 0)%Z in
      let rise := cur && negb (gprev g) in
      let ok := if rise
                then match o with
                     | Lost _ _ _ | Ecn _ => match ggrant g with None => true | Some _ => false end
                     | _ => false
                     end
                else true in
      let grant' := match o with
                    | Lost _ true now => if rise then Some now else None
                    | Lost _ false now | Ecn now => if rise then Some now else ggrant g
                    | Ack _ st _ => match ggrant g with Some T => if T <? st then None else Some T | None => None end
                    | _ => ggrant g
                    end in
      ok && gate_from w idx {| gprev := cur; ggrant := grant' |} t (skipn w rows)
  end.

(* CUBIC rows are 9 wide, requires_fast_retransmission() is column 5; the first row is the new controller *)
Definition cubic_gate_judge (case rows : list Z) : bool :=
  match case with
  | [] => true
  | _ :: t => gate_from 9 5 {| gprev := false; ggrant := None |} (decode 0 t) (skipn 9 rows)
  end.
