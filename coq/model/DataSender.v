(* Model of the send side of streams: what may be emitted.
     quic/s2n-quic-transport/src/sync/data_sender.rs           (DataSender: push, finish, stop_sending,
                                                                on_packet_ack, on_packet_loss, on_transmit)
     quic/s2n-quic-transport/src/sync/data_sender/transmissions.rs (transmit_set, transmit_interval,
                                                                transmit_fin, on_ack_signal)
     quic/s2n-quic-transport/src/sync/data_sender/writer.rs    (writer::Stream: write_chunk, write_fin)
     quic/s2n-quic-core/src/frame/stream.rs                    (Stream::try_fit, encoding size)
     quic/s2n-quic-transport/src/stream/send_stream.rs         (SendStream: poll_request, init_reset,
                                                                on_stop_sending, on_max_stream_data,
                                                                on_packet_ack/loss, on_transmit, stream_interests)
   Abstraction (deliberate): the DataSender is modelled at the level of its interval sets (pending,
   lost, in-flight ranges, total pushed, buffer head, fin state, flow window); the chunk queue of
   buffer.rs is not modelled: the byte at stream offset o is the position-keyed payload byte, i.e. the
   model *assumes* a view returns the bytes that were pushed at that offset.  That assumption is exactly
   what the judgement checks on the implementation's frames.  IntervalSet is modelled as the canonical
   sorted list of disjoint, non-adjacent half-open intervals (its behaviour is the subject of C16).
   Executable definitions only. *)
From SQ Require Import lib.Base gen.Gen_C12.
From SQ Require Export model.FlowSend.
Local Open Scope N_scope.

(* ---------------------------------------------------------------------------------------------- *)
(* small interval-set helper: sorted, disjoint, non-adjacent half-open intervals [a, b), a < b      *)
Definition iset := list (N * N).

Fixpoint iadd (a b : N) (s : iset) : iset :=
  match s with
  | [] => [(a, b)]
  | (x, y) :: t =>
      if b <? x then (a, b) :: s
      else if y <? a then (x, y) :: iadd a b t
      else iadd (N.min a x) (N.max b y) t
  end.

Fixpoint isub (s : iset) (a b : N) : iset :=
  match s with
  | [] => []
  | (x, y) :: t =>
      if y <=? a then (x, y) :: isub t a b
      else if b <=? x then s
      else (if x <? a then [(x, a)] else []) ++ (if b <? y then (b, y) :: t else isub t a b)
  end.

Fixpoint iinter1 (s : iset) (a b : N) : iset :=
  match s with
  | [] => []
  | (x, y) :: t =>
      if y <=? a then iinter1 t a b
      else if b <=? x then []
      else (N.max x a, N.min y b) :: iinter1 t a b
  end.
Definition iinter (s t : iset) : iset := flat_map (fun ab => iinter1 s (fst ab) (snd ab)) t.

(* ---------------------------------------------------------------------------------------------- *)
(* wire sizes                                                                                       *)
Definition vlen (n : N) : N :=
  if n <? 64 then 1 else if n <? 16384 then 2 else if n <? 1073741824 then 4 else 8.

(* frame::Stream::try_fit followed by the size the frame then occupies:
   Some (payload length, encoded frame size) *)
Definition stream_fit (sid off len cap : N) : option (N * N) :=
  let fixed := 1 + vlen sid + (if off =? 0 then 0 else vlen off) in
  if cap <? fixed then None
  else
    let rc := cap - fixed in
    let m := N.min rc len in
    if m =? rc then Some (m, fixed + m)
    else
      let pre := vlen m in
      if rc <? pre then None
      else
        let d := N.min (rc - pre) len in
        Some (d, fixed + d + vlen d).

(* position-keyed payload: the byte the drivers write at offset o of stream index k *)
Definition payload (salt k o : N) : N :=
  (((o * 2654435761 + (salt + 131 * k) * 40503) mod 4294967296) / 65536) mod 256.
Definition slice (salt k off len : N) : list N :=
  map (fun i => payload salt k (off + N.of_nat i)) (seq 0 (N.to_nat len)).

(* ---------------------------------------------------------------------------------------------- *)
(* frames and the packet being written                                                              *)
(* kinds: 1 STREAM, 2 RESET_STREAM, 3 STREAM_DATA_BLOCKED, 4 DATA_BLOCKED *)
Record frame := mk_frame { fr_kind : N; fr_sid : N; fr_val : N; fr_code : N; fr_fin : bool; fr_data : list N }.

Record pkt := mk_pkt { p_rem : N; p_pn : N; p_c : N; p_out : list frame }.
Definition p_elicit (p : pkt) : bool := match p_out p with [] => false | _ => true end.
Definition p_write (p : pkt) (size : N) (f : frame) : pkt :=
  mk_pkt (p_rem p - size) (p_pn p) (p_c p) (p_out p ++ [f]).

(* ---------------------------------------------------------------------------------------------- *)
(* one send stream                                                                                  *)
(* DataSender state: 0 Sending, 1 Finishing(Pending), 2 Finishing(InFlight pn), 3 Finishing(Lost),
   4 Finishing(Acknowledged), 5 Finished, 6 Cancelled *)
Record sst := mk_sst {
  s_k : N;                 (* index of the stream in the driver (keys the payload) *)
  s_sid : N;               (* stream id *)
  s_ss : N;                (* SendStreamState: 0 Sending, 1 ResetSent, 2 ResetAcknowledged *)
  s_obs : bool;            (* final_state_observed *)
  s_total : N;             (* buffer.total_len() *)
  s_head : N;              (* buffer.head() *)
  s_pend : iset;
  s_lost : iset;
  s_infl : list (N * N * N);   (* (packet number, offset, len) *)
  s_toff : N;              (* transmission_offset *)
  s_ds : N;
  s_finpn : N;             (* packet of Finishing(InFlight pn) *)
  s_fc : sfc;
  s_rst : dlv;             (* reset_sync (OnceSync) *)
  s_rst_final : N;
  s_rst_code : N;
  s_maxbuf : N
}.

Definition sst_new (k w maxbuf : N) : sst :=
  mk_sst k (Gen_C12.sid_initial_bidi_client + Gen_C12.stream_id_step * k) 0 false 0 0 [] [] [] 0 0 0
         (sfc_new w) DNot 0 0 maxbuf.

Definition set_fc (s : sst) (f : sfc) : sst :=
  mk_sst (s_k s) (s_sid s) (s_ss s) (s_obs s) (s_total s) (s_head s) (s_pend s) (s_lost s) (s_infl s)
         (s_toff s) (s_ds s) (s_finpn s) f (s_rst s) (s_rst_final s) (s_rst_code s) (s_maxbuf s).
Definition set_lost (s : sst) (l : iset) : sst :=
  mk_sst (s_k s) (s_sid s) (s_ss s) (s_obs s) (s_total s) (s_head s) (s_pend s) l (s_infl s)
         (s_toff s) (s_ds s) (s_finpn s) (s_fc s) (s_rst s) (s_rst_final s) (s_rst_code s) (s_maxbuf s).
Definition set_toff (s : sst) (t : N) : sst :=
  mk_sst (s_k s) (s_sid s) (s_ss s) (s_obs s) (s_total s) (s_head s) (s_pend s) (s_lost s) (s_infl s)
         t (s_ds s) (s_finpn s) (s_fc s) (s_rst s) (s_rst_final s) (s_rst_code s) (s_maxbuf s).
Definition set_fin (s : sst) (d pn : N) : sst :=
  mk_sst (s_k s) (s_sid s) (s_ss s) (s_obs s) (s_total s) (s_head s) (s_pend s) (s_lost s) (s_infl s)
         (s_toff s) d pn (s_fc s) (s_rst s) (s_rst_final s) (s_rst_code s) (s_maxbuf s).
Definition add_infl (s : sst) (pn off len : N) : sst :=
  mk_sst (s_k s) (s_sid s) (s_ss s) (s_obs s) (s_total s) (s_head s) (s_pend s) (s_lost s)
         (s_infl s ++ [(pn, off, len)])
         (s_toff s) (s_ds s) (s_finpn s) (s_fc s) (s_rst s) (s_rst_final s) (s_rst_code s) (s_maxbuf s).
Definition set_rst (s : sst) (d : dlv) : sst :=
  mk_sst (s_k s) (s_sid s) (s_ss s) (s_obs s) (s_total s) (s_head s) (s_pend s) (s_lost s) (s_infl s)
         (s_toff s) (s_ds s) (s_finpn s) (s_fc s) d (s_rst_final s) (s_rst_code s) (s_maxbuf s).
Definition set_obs (s : sst) : sst :=
  mk_sst (s_k s) (s_sid s) (s_ss s) true (s_total s) (s_head s) (s_pend s) (s_lost s) (s_infl s)
         (s_toff s) (s_ds s) (s_finpn s) (s_fc s) (s_rst s) (s_rst_final s) (s_rst_code s) (s_maxbuf s).

Definition is_finishing (s : sst) : bool := (1 <=? s_ds s) && (s_ds s <=? 4).

(* Transmissions::transmit_interval for writer::Stream; [lo, hi) is the requested interval.
   None = Err(CouldNotAcquireEnoughSpace); Some hi' = the interval [lo, hi') was written *)
Definition tx_interval (salt : N) (s : sst) (c : cfc) (p : pkt) (lo hi : N)
  : option N * sst * cfc * pkt :=
  let capacity := N.min (p_rem p) Gen_C12.transmit_capacity_clamp in
  let ilen := hi - lo in
  if (capacity =? 0) || ((Gen_C12.min_write_size <=? ilen) && (capacity <? Gen_C12.min_write_size))
  then (None, s, c, p)
  else
    let hi1 := if capacity <? ilen then lo + capacity else hi in
    let '(c1, f1, w) := sfc_acquire c (s_fc s) hi1 in
    let s1 := set_fc s f1 in
    if w <=? lo then (None, s1, c1, p)
    else
      let hi2 := if w - lo <? hi1 - lo then w else hi1 in
      let len := hi2 - lo in
      match stream_fit (s_sid s) lo len (p_rem p) with
      | None => (None, s1, c1, p)
      | Some (d, size) =>
          if d =? 0 then (None, s1, c1, p)
          else
            let is_fin := is_finishing s && (hi2 =? s_total s) && (d =? len) in
            let f := mk_frame 1 (s_sid s) lo 0 is_fin (slice salt (s_k s) lo d) in
            let p1 := p_write p size f in
            let s2 := add_infl s1 (p_pn p) lo d in
            let s3 := if is_fin && ((s_ds s =? 1) || (s_ds s =? 3)) then set_fin s2 2 (p_pn p) else s2 in
            (Some (lo + d), s3, c1, p1)
      end.

(* Transmissions::transmit_set over the lost set (pop_min / insert_front).
   result: None = Err, Some b = Ok(b) *)
Fixpoint tx_set (salt : N) (lost : iset) (s : sst) (c : cfc) (p : pkt)
  : option bool * iset * sst * cfc * pkt :=
  match lost with
  | [] => (Some false, [], s, c, p)
  | (a, b) :: rest =>
      match tx_interval salt s c p a b with
      | (None, s1, c1, p1) => (None, lost, s1, c1, p1)
      | (Some h, s1, c1, p1) =>
          if h <? b then (Some true, (h, b) :: rest, s1, c1, p1)
          else
            match tx_set salt rest s1 c1 p1 with
            | (None, l2, s2, c2, p2) => (None, l2, s2, c2, p2)
            | (Some _, l2, s2, c2, p2) => (Some true, l2, s2, c2, p2)
            end
      end
  end.

(* Transmissions::transmit_fin + writer::Stream::write_fin; false = Err *)
Definition tx_fin (s : sst) (p : pkt) : bool * sst * pkt :=
  if sfc_is_blocked (s_fc s) then (false, s, p)
  else if (s_ds s =? 1) || (s_ds s =? 3) then
    let off := s_total s in
    let fixed := 1 + vlen (s_sid s) + (if off =? 0 then 0 else vlen off) in
    if p_rem p <? fixed then (false, s, p)
    else
      let size := if p_rem p - fixed =? 0 then fixed else fixed + 1 in
      (true, set_fin s 2 (p_pn p), p_write p size (mk_frame 1 (s_sid s) off 0 true []))
  else (true, s, p).

(* DataSender::on_transmit_impl; false = Err *)
Definition ds_transmit_impl (salt : N) (s : sst) (c : cfc) (p : pkt) : bool * sst * cfc * pkt :=
  let '(r1, l1, s1, c1, p1) :=
    if can_retransmit (p_c p) then tx_set salt (s_lost s) s c p else (Some false, s_lost s, s, c, p) in
  let s1 := set_lost s1 l1 in
  match r1 with
  | None => (false, s1, c1, p1)
  | Some _ =>
      let blocked := sfc_is_blocked (s_fc s1) in
      let '(r2, s2, c2, p2) :=
        if negb blocked && can_transmit (p_c p) && (s_toff s1 <? s_total s1) then
          match tx_interval salt s1 c1 p1 (s_toff s1) (s_total s1) with
          | (None, s', c', p') => (false, s', c', p')
          | (Some h, s', c', p') => (true, set_toff s' h, c', p')
          end
        else (true, s1, c1, p1) in
      if negb r2 then (false, s2, c2, p2)
      else
        let can_fin := ((s_ds s2 =? 3) && can_retransmit (p_c p))
                       || ((s_ds s2 =? 1) && negb blocked && can_transmit (p_c p)) in
        if can_fin then
          let '(r3, s3, p3) := tx_fin s2 p2 in (r3, s3, c2, p3)
        else (true, s2, c2, p2)
  end.

(* DataSender::on_transmit: an error is only reported when nothing was written *)
Definition ds_transmit (salt : N) (s : sst) (c : cfc) (p : pkt) : bool * sst * cfc * pkt :=
  let '(r, s', c', p') := ds_transmit_impl salt s c p in
  ((r || (p_rem p' <? p_rem p))%bool, s', c', p').

(* SendStream::on_transmit; false = Err *)
Definition ss_transmit (salt : N) (s : sst) (c : cfc) (p : pkt) : bool * sst * cfc * pkt :=
  (* reset_sync (OnceSync) *)
  let '(r0, s0, p0) :=
    if dlv_try (s_rst s) (p_c p) then
      let size := 1 + vlen (s_sid s) + vlen (s_rst_code s) + vlen (s_rst_final s) in
      if p_rem p <? size then (false, s, p)
      else (true, set_rst s (DInfl (p_pn p)),
            p_write p size (mk_frame 2 (s_sid s) (s_rst_final s) (s_rst_code s) false []))
    else (true, s, p) in
  if negb r0 then (false, s0, c, p0)
  else
    let '(r1, s1, c1, p1) := ds_transmit salt s0 c p0 in
    if negb r1 then (false, s1, c1, p1)
    else
      (* StreamFlowController::on_transmit: STREAM_DATA_BLOCKED *)
      let sdb := f_sdb (s_fc s1) in
      if p_elicit p1 && ps_delivered sdb then (true, set_fc s1 (sfc_with_sdb (s_fc s1) (ps_skip sdb)), c1, p1)
      else if dlv_try (ps_d sdb) (p_c p) then
        let size := 1 + vlen (s_sid s1) + vlen (ps_latest sdb) in
        if p_rem p1 <? size then (false, s1, c1, p1)
        else (true, set_fc s1 (sfc_with_sdb (s_fc s1) (ps_sent sdb (p_pn p))), c1,
              p_write p1 size (mk_frame 3 (s_sid s1) (ps_latest sdb) 0 false []))
      else (true, s1, c1, p1).

(* ---------------------------------------------------------------------------------------------- *)
(* application calls and peer frames                                                                *)

(* poll_request with one chunk of [len] bytes, no waker: result = bytes consumed or -1 *)
Definition ss_push (s : sst) (len : N) : Z * sst :=
  if negb (s_ss s =? 0) then ((-1)%Z, set_obs s)
  else if len =? 0 then (0%Z, s)
  else if negb (s_ds s =? 0) then ((-1)%Z, s)
  else if s_maxbuf s - (s_total s - s_head s) =? 0 then (0%Z, s)
  else
    (Nz len,
     mk_sst (s_k s) (s_sid s) (s_ss s) (s_obs s) (s_total s + len) (s_head s)
            (iadd (s_total s) (s_total s + len) (s_pend s)) (s_lost s) (s_infl s)
            (s_toff s) (s_ds s) (s_finpn s) (s_fc s) (s_rst s) (s_rst_final s) (s_rst_code s) (s_maxbuf s)).

Definition ss_finish (s : sst) : Z * sst :=
  if negb (s_ss s =? 0) then ((-1)%Z, set_obs s)
  else if s_ds s =? 5 then (0%Z, set_obs s)
  else if s_ds s =? 0 then (0%Z, set_fin s 1 0)
  else (0%Z, s).

(* init_reset (LocalApplication: app = true, StopSendingFrame: app = false) *)
Definition ss_reset (s : sst) (code : N) (app : bool) : sst :=
  if negb (s_ss s =? 0) then s
  else if s_ds s =? 5 then s
  else
    mk_sst (s_k s) (s_sid s) 1 (s_obs s || app) 0 0 [] [] [] 0 6 0 (sfc_finish (s_fc s))
           (match s_rst s with DNot => DReq | d => d end)
           (match s_rst s with DNot => f_acq (s_fc s) | _ => s_rst_final s end)
           (match s_rst s with DNot => code | _ => s_rst_code s end)
           (s_maxbuf s).

Definition ss_max_stream_data (s : sst) (v : N) : sst :=
  if s_ss s =? 0 then set_fc s (sfc_set_max_sd (s_fc s) v) else s.

Definition in_pn (lo hi : N) (t : N * N * N) : bool := in_rng lo hi (fst (fst t)).

(* SendStream::on_packet_ack *)
Definition ss_ack (s : sst) (lo hi : N) : sst :=
  let hit := filter (in_pn lo hi) (s_infl s) in
  let rest := filter (fun t => negb (in_pn lo hi t)) (s_infl s) in
  let pend := fold_left (fun acc t => isub acc (snd (fst t)) (snd (fst t) + snd t)) hit (s_pend s) in
  let ds1 := if (s_ds s =? 2) && in_rng lo hi (s_finpn s) then 4 else s_ds s in
  let any := match hit with [] => false | _ => true end in
  let lost := if any then iinter (s_lost s) pend else s_lost s in
  let head := if any then match pend with
                          | [] => s_total s
                          | (a, _) :: _ => if a <=? s_head s then s_head s else a
                          end
              else s_head s in
  let infl := if any then match pend with [] => [] | _ => rest end else rest in
  let done := (ds1 =? 4) && match infl, pend, lost with [], [], [] => true | _, _, _ => false end in
  let fc1 := if done then sfc_finish (s_fc s) else s_fc s in
  let fc2 := sfc_with_sdb fc1 (ps_ack (f_sdb fc1) lo hi) in
  let rst_hit := (s_ss s =? 1) && match s_rst s with DInfl pn => in_rng lo hi pn | _ => false end in
  mk_sst (s_k s) (s_sid s) (if rst_hit then 2 else s_ss s) (s_obs s) (s_total s)
         (if done then s_total s else head) pend lost infl (s_toff s)
         (if done then 5 else ds1) (s_finpn s) fc2
         (if rst_hit then DDeliv else s_rst s) (s_rst_final s) (s_rst_code s) (s_maxbuf s).

(* SendStream::on_packet_loss *)
Definition ss_loss (s : sst) (lo hi : N) : sst :=
  let hit := filter (in_pn lo hi) (s_infl s) in
  let rest := filter (fun t => negb (in_pn lo hi t)) (s_infl s) in
  let lost0 := fold_left (fun acc t => iadd (snd (fst t)) (snd (fst t) + snd t) acc) hit (s_lost s) in
  let fin_lost := (s_ds s =? 2) && in_rng lo hi (s_finpn s) in
  let any := match hit with [] => fin_lost | _ => true end in
  let fc1 := if any then sfc_clear_blocked (s_fc s) else s_fc s in
  let lost := if any then iinter lost0 (s_pend s) else lost0 in
  let fc2 := sfc_with_sdb fc1 (ps_loss (f_sdb fc1) lo hi) in
  let rst := match s_rst s with DInfl pn => if in_rng lo hi pn then DLost else s_rst s | d => d end in
  mk_sst (s_k s) (s_sid s) (s_ss s) (s_obs s) (s_total s) (s_head s) (s_pend s) lost rest (s_toff s)
         (if fin_lost then 3 else s_ds s) (s_finpn s) fc2 rst (s_rst_final s) (s_rst_code s) (s_maxbuf s).

(* transmission interest: DataSender, then the whole stream as stream_interests reports it *)
Definition ds_interest (s : sst) : N :=
  let blocked := sfc_is_blocked (s_fc s) in
  if s_ds s =? 3 then 2
  else
    let a := if (s_ds s =? 1) && negb blocked then 1 else 0 in
    let b := match s_lost s with
             | _ :: _ => 2
             | [] => if (s_toff s <? s_total s) && negb blocked then 1 else 0
             end in
    N.max a b.

Definition ss_interest (s : sst) : N :=
  if (s_ss s =? 0) && s_obs s then 0
  else if (s_ss s =? 2) && s_obs s then 0
  else if s_ss s =? 1 then dlv_interest (s_rst s)
  else N.max (ds_interest s) (N.max (dlv_interest (ps_d (f_sdb (s_fc s)))) (dlv_interest (s_rst s))).

(* ---------------------------------------------------------------------------------------------- *)
(* the driver: several streams sharing the connection flow controller                               *)
Record conn := mk_conn { k_flow : cfc; k_streams : list sst; k_pn : N }.

Fixpoint upd_nth (i : nat) (l : list sst) (f : sst -> sst) : list sst :=
  match l, i with
  | [], _ => []
  | x :: t, O => f x :: t
  | x :: t, S j => x :: upd_nth j t f
  end.

(* MAX_DATA, then on_connection_window_available on the streams blocked on the connection window,
   in index order, until the window is used up *)
Fixpoint offer_window (c : cfc) (l : list sst) : cfc * list sst :=
  match l with
  | [] => (c, [])
  | s :: t =>
      if f_st (s_fc s) =? 2 then
        let '(c1, f1) := if s_ss s =? 0 then sfc_try_acquire c (s_fc s) else (c, s_fc s) in
        if c_avail c1 =? 0 then (c1, set_fc s f1 :: t)
        else let '(c2, t2) := offer_window c1 t in (c2, set_fc s f1 :: t2)
      else let '(c2, t2) := offer_window c t in (c2, s :: t2)
  end.

Definition conn_max_data (k : conn) (v : N) : conn :=
  let c1 := cfc_max_data (k_flow k) v in
  if c_avail c1 =? 0 then mk_conn c1 (k_streams k) (k_pn k)
  else let '(c2, l2) := offer_window c1 (k_streams k) in mk_conn c2 l2 (k_pn k).

(* all streams in index order, stopping at the first error *)
Fixpoint tx_all (salt : N) (l : list sst) (c : cfc) (p : pkt) : list sst * cfc * pkt :=
  match l with
  | [] => ([], c, p)
  | s :: t =>
      let '(r, s1, c1, p1) := ss_transmit salt s c p in
      if r then let '(t2, c2, p2) := tx_all salt t c1 p1 in (s1 :: t2, c2, p2)
      else (s1 :: t, c1, p1)
  end.

Fixpoint tx_one (salt : N) (i : nat) (l : list sst) (c : cfc) (p : pkt) : list sst * cfc * pkt :=
  match l, i with
  | [], _ => ([], c, p)
  | s :: t, O => let '(_, s1, c1, p1) := ss_transmit salt s c p in (s1 :: t, c1, p1)
  | s :: t, S j => let '(t2, c2, p2) := tx_one salt j t c p in (s :: t2, c2, p2)
  end.

(* one packet; target 0 = all streams, i+1 = stream i; mode 0 Normal, 1 LossRecoveryProbing, 2 MtuProbing,
   3 PathValidationOnly *)
Definition conn_transmit (salt : N) (k : conn) (target cap cons mode : N) : conn * list frame :=
  let p0 := mk_pkt cap (k_pn k) cons [] in
  let reachable := ((mode =? 0) || (mode =? 1)) && (can_transmit cons || can_retransmit cons) in
  let '(l, c, p) :=
    if reachable then
      (* OutgoingConnectionFlowController::on_transmit: DATA_BLOCKED first *)
      let dbs := c_dbs (k_flow k) in
      let '(ok, c1, p1) :=
        if dlv_try (ps_d dbs) cons then
          let size := 1 + vlen (ps_latest dbs) in
          if cap <? size then (false, k_flow k, p0)
          else (true, mk_cfc (c_total (k_flow k)) (c_avail (k_flow k)) (ps_sent dbs (k_pn k)),
                p_write p0 size (mk_frame 4 0 (ps_latest dbs) 0 false []))
        else (true, k_flow k, p0) in
      if ok then
        match target with
        | 0 => tx_all salt (k_streams k) c1 p1
        | _ => tx_one salt (N.to_nat (target - 1)) (k_streams k) c1 p1
        end
      else (k_streams k, c1, p1)
    else (k_streams k, k_flow k, p0) in
  (mk_conn c l (match p_out p with [] => k_pn k | _ => k_pn k + 1 end), p_out p).

Definition conn_ack (k : conn) (lo hi : N) : conn :=
  let c := k_flow k in
  mk_conn (mk_cfc (c_total c) (c_avail c) (ps_ack (c_dbs c) lo hi))
          (map (fun s => ss_ack s lo hi) (k_streams k)) (k_pn k).
Definition conn_loss (k : conn) (lo hi : N) : conn :=
  let c := k_flow k in
  mk_conn (mk_cfc (c_total c) (c_avail c) (ps_loss (c_dbs c) lo hi))
          (map (fun s => ss_loss s lo hi) (k_streams k)) (k_pn k).

(* ---------------------------------------------------------------------------------------------- *)
(* line protocol (see harness/h_transport/src/send_driver.rs)                                       *)
Definition nx (l : list Z) : Z * list Z := match l with [] => (0%Z, []) | x :: t => (x, t) end.

Definition render_frame (f : frame) : list Z :=
  [Nz (fr_kind f); Nz (fr_sid f); Nz (fr_val f); Nz (fr_code f); bz (fr_fin f);
   Z.of_nat (length (fr_data f))] ++ map Nz (fr_data f).
Definition render_frames (l : list frame) : list Z :=
  Z.of_nat (length l) :: flat_map render_frame l.

Definition render_stream (s : sst) : list Z :=
  [Nz (s_ss s); Nz (s_ds s); Nz (f_st (s_fc s)); Nz (f_acq (s_fc s)); Nz (ss_interest s)].
Definition render_state (k : conn) : list Z :=
  [Nz (c_total (k_flow k)); Nz (c_avail (k_flow k))] ++ flat_map render_stream (k_streams k).

Definition max_buf_of (sel : N) : N :=
  match sel mod 4 with 0 => u32_max | 1 => 1 | 2 => 64 | _ => 1000 end.

Definition with_stream (k : conn) (i : N) (f : sst -> sst) : conn :=
  mk_conn (k_flow k) (upd_nth (N.to_nat i) (k_streams k) f) (k_pn k).
Definition get_stream (k : conn) (i : N) : sst :=
  nth (N.to_nat i) (k_streams k) (sst_new 0 0 0).

(* the drivers keep the payload capacity of a packet below this bound: one more than the value
   transmit_interval clamps the capacity to (u16::MAX, "UDP payloads can't be larger anyway") *)
Definition cap_bound : N := Gen_C12.transmit_capacity_clamp + 1.

(* one operation: Some (output of the op without the state, new state, remaining input), None = stop *)
Definition step (salt n : N) (k : conn) (op : Z) (r : list Z) : option (list Z * conn * list Z) :=
  match op with
  | 1%Z =>
      let '(a, r) := nx r in let '(b, r) := nx r in
      let i := zN a mod n in
      let '(res, s') := ss_push (get_stream k i) (zN b mod 4096) in
      Some ([1%Z; Nz i; res], with_stream k i (fun _ => s'), r)
  | 2%Z =>
      let '(a, r) := nx r in
      let i := zN a mod n in
      let '(res, s') := ss_finish (get_stream k i) in
      Some ([2%Z; Nz i; res], with_stream k i (fun _ => s'), r)
  | 3%Z =>
      let '(a, r) := nx r in let '(b, r) := nx r in
      let i := zN a mod n in
      Some ([3%Z; Nz i; 0%Z], with_stream k i (fun s => ss_reset s (zN b mod 1024) true), r)
  | 4%Z =>
      let '(a, r) := nx r in let '(b, r) := nx r in
      let i := zN a mod n in
      Some ([4%Z; Nz i], with_stream k i (fun s => ss_reset s (zN b mod 1024) false), r)
  | 5%Z =>
      let '(a, r) := nx r in let '(b, r) := nx r in let '(c, r) := nx r in let '(d, r) := nx r in
      let '(k', fs) := conn_transmit salt k (zN a mod (n + 1)) (zN b mod cap_bound) (zN c mod 4) (zN d mod 4) in
      Some ([5%Z; Nz (k_pn k)] ++ render_frames fs, k', r)
  | 6%Z =>
      let '(a, r) := nx r in let '(b, r) := nx r in
      let lo := zN a mod 65536 in
      Some ([6%Z], conn_ack k lo (lo + zN b mod 65536), r)
  | 7%Z =>
      let '(a, r) := nx r in let '(b, r) := nx r in
      let lo := zN a mod 65536 in
      Some ([7%Z], conn_loss k lo (lo + zN b mod 65536), r)
  | 8%Z =>
      let '(a, r) := nx r in let '(b, r) := nx r in
      let i := zN a mod n in
      Some ([8%Z; Nz i], with_stream k i (fun s => ss_max_stream_data s (N.min (zN b) varint_max)), r)
  | 9%Z =>
      let '(a, r) := nx r in
      Some ([9%Z], conn_max_data k (N.min (zN a) varint_max), r)
  | _ => None
  end.

Fixpoint run_ops (fuel : nat) (salt n : N) (k : conn) (ops : list Z) : list Z :=
  match fuel with
  | O => []
  | S fuel =>
      match ops with
      | [] => []
      | op :: r =>
          match step salt n k op r with
          | None => []
          | Some (out, k', r') => out ++ render_state k' ++ run_ops fuel salt n k' r'
          end
      end
  end.

Fixpoint mk_streams (i : nat) (n : nat) (maxbuf : N) (r : list Z) : list sst * list Z :=
  match n with
  | O => ([], r)
  | S n' =>
      let '(w, r1) := nx r in
      let '(l, r2) := mk_streams (S i) n' maxbuf r1 in
      (sst_new (N.of_nat i) (N.min (zN w) varint_max) maxbuf :: l, r2)
  end.

Definition run (case : list Z) : list Z :=
  let '(a, r) := nx case in let '(b, r) := nx r in let '(c, r) := nx r in let '(d, r) := nx r in
  let salt := zN a mod 65536 in
  let n := zN c mod 4 + 1 in
  let '(l, r) := mk_streams 0 (N.to_nat n) (max_buf_of (zN d)) r in
  let k := mk_conn (cfc_new (N.min (zN b) varint_max)) l 0 in
  run_ops (length r) salt n k r ++ [0%Z].
