(* C18 component "keys": the receiver's application key state and forged packets
   (dc/s2n-quic-dc/src/path/secret/key.rs open::Application::{decrypt_in_place, needs_update,
   update}, stream/crypto.rs Crypto::open_with, seal::Application::update).

   The opener holds the keys of two consecutive key generations: the current one (key phase bit =
   generation mod 2) and the next one.  A packet selects the opener by its key-phase bit; only when
   it OPENS under the other phase's key does the receiver note that the peer moved on
   (needs_update), and open_with then rotates.  A packet that does not open changes nothing.
   Executable definitions only; proofs are in proofs/DcKeysProofs.v. *)
From SQ Require Import lib.Base.
Local Open Scope N_scope.

Record kstate := mk_k { k_recv_gen : N;      (* rotations of the opener = current generation *)
                        k_send_gen : N }.    (* the peer sealer's generation *)

(* a packet as the receiver sees it: the key-phase bit in its tag byte *)
Record kpkt := mk_kp { kp_bit : N }.

(* [opens g p]: the AEAD key of generation g opens packet p (and the dedup check passes) *)
Definition recv (opens : N -> kpkt -> bool) (s : kstate) (p : kpkt) : kstate * bool :=
  let cur := k_recv_gen s mod 2 in
  (* openers[bit]: the current generation's key for the current phase, the next one's otherwise *)
  let g := if kp_bit p =? cur then k_recv_gen s else k_recv_gen s + 1 in
  if opens g p then
    (* decrypt succeeded; needs_update when the packet's phase is not the expected one, and
       open_with rotates right after *)
    (mk_k (if kp_bit p =? cur then k_recv_gen s else k_recv_gen s + 1) (k_send_gen s), true)
  else (s, false).

(* ------------------------------------------------------------------ harness protocol *)
(* ops: 0       : the peer sends an authentic packet sealed with its current generation
        1 pos x : a forged packet: an authentic one with one byte changed
        _       : the peer updates its sealer (next generation), no output
   output per packet: accepted, rotations of the receiver's opener so far *)
Definition nxt (l : list Z) : Z * list Z := (hd 0%Z l, tl l).

(* in the harness an authentic packet of generation gs opens exactly under the generation-gs key
   (distinct generations have unrelated keys), a forged one under none *)
Definition case_opens (gs : N) (forged : bool) : N -> kpkt -> bool :=
  fun g _ => negb forged && (g =? gs).

Fixpoint run_ops (fuel : nat) (s : kstate) (ops : list Z) : list Z :=
  match fuel with
  | O => []
  | S f =>
      match ops with
      | [] => []
      | op :: r =>
          if (op =? 0)%Z then
            let '(s', a) := recv (case_opens (k_send_gen s) false) s (mk_kp (k_send_gen s mod 2)) in
            [bz a; Nz (k_recv_gen s')] ++ run_ops f s' r
          else if (op =? 1)%Z then
            let '(pos, r) := nxt r in
            let '(x, r) := nxt r in
            (* the changed byte may be the tag byte, i.e. the key-phase bit may be flipped: the bit
               the receiver sees is arbitrary (here: taken from the case); the outcome does not
               depend on it (forged_key_state_unchanged) *)
            let bit := (zN pos + zN x) mod 2 in
            let '(s', a) := recv (case_opens (k_send_gen s) true) s (mk_kp bit) in
            [bz a; Nz (k_recv_gen s')] ++ run_ops f s' r
          else run_ops f (mk_k (k_recv_gen s) (k_send_gen s + 1)) r
      end
  end.

Definition run (case : list Z) : list Z := run_ops (length case) (mk_k 0 0) case.

Fixpoint zlist_eqb (a b : list Z) : bool :=
  match a, b with
  | [], [] => true
  | x :: a', y :: b' => Z.eqb x y && zlist_eqb a' b'
  | _, _ => false
  end.

(* the property: forged packets are rejected and leave the key state (the rotation count, hence
   which authentic packets open afterwards) untouched; authentic packets have the documented
   effect.  That is the model's behaviour, so the judgement is equality with it. *)
Definition judge (case out : list Z) : bool := zlist_eqb out (run case).
