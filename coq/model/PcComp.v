(* Component for s2n-quic-core/src/recovery/persistent_congestion.rs (Calculator): the model is
   Recovery.pc_on_lost; this file adds the harness protocol and the property as an executable judgement.
   Executable definitions only. *)
From SQ Require Import lib.Base gen.Gen_C09 model.RecTime model.Rtt model.Loss model.Pto model.Recovery.
Local Open Scope N_scope.

(* case = [has_first; first_ts_us; cpath; then per lost packet: gap; dt_us; ack_eliciting; path]
   packet numbers increase by max(gap,1) (the first is gap), send times by dt (from 1 us) *)
Fixpoint decode (pn time : N) (started : bool) (l : list Z) : list pkt :=
  match l with
  | g :: dt :: ae :: path :: t =>
      let pn' := if started then pn + N.max (zN g) 1 else zN g in
      let time' := time + zN dt in
      {| p_pn := pn'; p_bytes := 1200; p_time := time'; p_ae := negb (ae =? 0)%Z; p_path := zN path |}
      :: decode pn' time' true t
  | _ => []
  end.

Definition case_first (c : list Z) : option N :=
  if (nth 0 c 0 =? 0)%Z then None else Some (ts_norm (zN (nth 1 c 0%Z))).
Definition case_cpath (c : list Z) : N := zN (nth 2 c 0%Z).
Definition case_pkts (c : list Z) : list pkt := decode 0 1 false (skipn 3 c).

Definition pc0 : pcalc := {| cur := None; maxd := 0 |}.

(* persistent_congestion_duration() after each lost packet *)
Fixpoint durations (c : pcalc) (first : option N) (cpath : N) (l : list pkt) : list Z :=
  match l with
  | [] => []
  | p :: t => let c' := pc_on_lost c first cpath p in Nz (maxd c') :: durations c' first cpath t
  end.

Definition run (c : list Z) : list Z := durations pc0 (case_first c) (case_cpath c) (case_pkts c).

(* ---- the property (RFC 9002 7.6.2) as an executable judgement ----
   A persistent congestion period is witnessed by two ack-eliciting lost packets sent on the path
   under consideration after the first RTT sample, such that every packet number between them was
   also lost (and is such a packet: nothing acknowledged, skipped or foreign in between).  The
   reported duration after k lost packets must not exceed the longest witnessed period among them. *)
Definition eligible (first : option N) (cpath : N) (p : pkt) : bool :=
  match first with None => false | Some ts => (ts <=? p_time p) && (p_path p =? cpath) end.

(* longest span from a start sent at [st] over the packets contiguous with [prev] *)
Fixpoint extend (first : option N) (cpath st prev best : N) (l : list pkt) : N :=
  match l with
  | [] => best
  | q :: t =>
      if eligible first cpath q && (p_pn q =? prev + 1)
      then extend first cpath st (p_pn q) (if p_ae q then N.max best (ts_sub (p_time q) st) else best) t
      else best
  end.

Fixpoint spec (first : option N) (cpath : N) (l : list pkt) : N :=
  match l with
  | [] => 0
  | p :: t => N.max (if eligible first cpath p && p_ae p then extend first cpath (p_time p) (p_pn p) 0 t else 0)
                    (spec first cpath t)
  end.

Fixpoint judge_from (first : option N) (cpath : N) (l : list pkt) (k : nat) (out : list Z) : bool :=
  match out with
  | [] => Nat.eqb k (length l)
  | d :: o => (0 <=? d)%Z && (zN d <=? spec first cpath (firstn (S k) l)) && Nat.ltb k (length l)
              && judge_from first cpath l (S k) o
  end.

Definition judge (c out : list Z) : bool := judge_from (case_first c) (case_cpath c) (case_pkts c) 0 out.
