(* C05 component "frames": reference frame codec written from RFC 9000 section 19 (Table 3 and
   sections 19.1 - 19.21), RFC 9221 (DATAGRAM) and, for the two s2n extension frames, from their
   tags and field lists (frame/dc_stateless_reset_tokens.rs, frame/mtu_probing_complete.rs).
   Not derived from the Rust decoders; deliberate choices where the RFC leaves freedom are marked
   CHOICE. *)
From SQ Require Import lib.Base model.Varint.
Import Varint.
Local Open Scope N_scope.

Notation "'let?' ' p ':=' e 'in' k" := (match e with Some p => k | None => None end)
  (at level 200, p pattern, e at level 200, k at level 200, only parsing).

(* ---------------------------------------------------------------- primitive fields *)
(* n raw bytes *)
Definition p_take (n : N) (bs : list N) : option (list N * list N) :=
  if N.of_nat (length bs) <? n then None
  else Some (firstn (N.to_nat n) bs, skipn (N.to_nat n) bs).

Definition p_byte (bs : list N) : option (N * list N) :=
  match bs with [] => None | b :: t => Some (b, t) end.

(* a variable-length integer length followed by that many bytes *)
Definition p_lenpref (bs : list N) : option (list N * list N) :=
  let? '(n, bs) := vdecode bs in p_take n bs.

(* leading zero bytes *)
Fixpoint span0 (bs : list N) : N * list N :=
  match bs with
  | 0 :: t => let '(k, r) := span0 t in (k + 1, r)
  | _ => (0, bs)
  end.

(* ---------------------------------------------------------------- frames *)
Inductive frame :=
| FPadding (n : N)                                   (* CHOICE: a run of n >= 1 PADDING frames *)
| FPing
| FAck (largest delay first : N) (ranges : list (N * N)) (ecn : option (N * N * N))
| FResetStream (id code final : N)
| FStopSending (id code : N)
| FCrypto (off : N) (data : list N)
| FNewToken (tok : list N)
| FStream (id off : N) (last fin : bool) (data : list N)   (* last = no Length field *)
| FMaxData (v : N)
| FMaxStreamData (id v : N)
| FMaxStreams (uni : bool) (v : N)
| FDataBlocked (v : N)
| FStreamDataBlocked (id v : N)
| FStreamsBlocked (uni : bool) (v : N)
| FNewConnectionId (seq rpt : N) (cid tok : list N)
| FRetireConnectionId (seq : N)
| FPathChallenge (d : list N)
| FPathResponse (d : list N)
| FCloseQuic (code ftype : N) (reason : list N)
| FCloseApp (code : N) (reason : list N)
| FHandshakeDone
| FDatagram (last : bool) (data : list N)
| FDcTokens (toks : list N)                          (* count * 16 bytes *)
| FMtuProbingComplete (mtu : N).

Definition two62 : N := 4611686018427387904.
Definition two60 : N := 1152921504606846976.
Definition dc_tokens_tag : N := 14417920.            (* 0xdc0000 *)
Definition mtu_probing_tag : N := 14417922.          (* 0xdc0002 *)
Definition dc_max_tokens : N := 4092.

(* ---------------------------------------------------------------- ACK (19.3) *)
(* cnt further ranges below [smallest]; 19.3.1: each Gap / ACK Range Length steps down by
   gap + 2 and len; a negative packet number is a FRAME_ENCODING_ERROR *)
Fixpoint p_ranges (fuel : nat) (cnt smallest : N) (bs : list N) : option (list (N * N) * list N) :=
  if cnt =? 0 then Some ([], bs) else
  match fuel with
  | O => None
  | S fuel' =>
      let? '(gap, bs) := vdecode bs in
      let? '(len, bs) := vdecode bs in
      if smallest <? gap + 2 then None else
      let largest := smallest - gap - 2 in
      if largest <? len then None else
      let? '(rs, bs) := p_ranges fuel' (cnt - 1) (largest - len) bs in
      Some ((gap, len) :: rs, bs)
  end.

Definition p_ack (with_ecn : bool) (bs : list N) : option (frame * list N) :=
  let? '(largest, bs) := vdecode bs in
  let? '(delay, bs) := vdecode bs in
  let? '(cnt, bs) := vdecode bs in
  let? '(first, bs) := vdecode bs in
  if largest <? first then None else
  let? '(rs, bs) := p_ranges (length bs) cnt (largest - first) bs in
  if with_ecn then
    let? '(e0, bs) := vdecode bs in
    let? '(e1, bs) := vdecode bs in
    let? '(ce, bs) := vdecode bs in
    Some (FAck largest delay first rs (Some (e0, e1, ce)), bs)
  else Some (FAck largest delay first rs None, bs).

(* the acknowledged packet number ranges (smallest, largest), highest first *)
Fixpoint ack_range_list (largest first : N) (rs : list (N * N)) : list (N * N) :=
  (largest - first, largest) ::
  match rs with
  | [] => []
  | (gap, len) :: t => ack_range_list (largest - first - gap - 2) len t
  end.

(* no computed packet number is negative *)
Fixpoint ack_ok (largest first : N) (rs : list (N * N)) : bool :=
  (first <=? largest) &&
  match rs with
  | [] => true
  | (gap, len) :: t => (gap + 2 <=? largest - first) && ack_ok (largest - first - gap - 2) len t
  end.

(* ---------------------------------------------------------------- decode one frame *)
Definition p_v1 (k : N -> frame) (bs : list N) : option (frame * list N) :=
  let? '(a, bs) := vdecode bs in Some (k a, bs).
Definition p_v2 (k : N -> N -> frame) (bs : list N) : option (frame * list N) :=
  let? '(a, bs) := vdecode bs in let? '(b, bs) := vdecode bs in Some (k a b, bs).
Definition p_v3 (k : N -> N -> N -> frame) (bs : list N) : option (frame * list N) :=
  let? '(a, bs) := vdecode bs in let? '(b, bs) := vdecode bs in let? '(c, bs) := vdecode bs in
  Some (k a b c, bs).

Definition p_stream (t : N) (bs : list N) : option (frame * list N) :=
  let has_off := N.testbit t 2 in
  let has_len := N.testbit t 1 in
  let fin := N.testbit t 0 in
  let? '(id, bs) := vdecode bs in
  let? '(off, bs) := (if has_off then vdecode bs else Some (0, bs)) in
  if has_len then
    let? '(d, bs) := p_lenpref bs in Some (FStream id off false fin d, bs)
  else Some (FStream id off true fin bs, []).

Definition p_datagram (t : N) (bs : list N) : option (frame * list N) :=
  if N.testbit t 0 then
    let? '(d, bs) := p_lenpref bs in Some (FDatagram false d, bs)
  else Some (FDatagram true bs, []).

Definition p_new_connection_id (bs : list N) : option (frame * list N) :=
  let? '(seq, bs) := vdecode bs in
  let? '(rpt, bs) := vdecode bs in
  if seq <? rpt then None else
  let? '(l, bs) := p_byte bs in
  if (l <? 1) || (20 <? l) then None else
  let? '(cid, bs) := p_take l bs in
  let? '(tok, bs) := p_take 16 bs in
  Some (FNewConnectionId seq rpt cid tok, bs).

Definition p_max_streams (k : N -> frame) (bs : list N) : option (frame * list N) :=
  let? '(v, bs) := vdecode bs in
  if two60 <? v then None else Some (k v, bs).

Definition p_dc_tokens (bs : list N) : option (frame * list N) :=
  let? '(cnt, bs) := vdecode bs in
  if (cnt =? 0) || (dc_max_tokens <? cnt) then None else
  let? '(toks, bs) := p_take (cnt * 16) bs in
  Some (FDcTokens toks, bs).

(* Table 3, by frame type *)
Definition p_core (t : N) (bs : list N) : option (frame * list N) :=
  match t with
  | 0 => let '(k, r) := span0 bs in Some (FPadding (k + 1), r)
  | 1 => Some (FPing, bs)
  | 2 => p_ack false bs
  | 3 => p_ack true bs
  | 4 => p_v3 FResetStream bs
  | 5 => p_v2 FStopSending bs
  | 6 => let? '(off, bs) := vdecode bs in let? '(d, bs) := p_lenpref bs in Some (FCrypto off d, bs)
  | 7 => let? '(tok, bs) := p_lenpref bs in
         match tok with [] => None | _ => Some (FNewToken tok, bs) end
  | 8 | 9 | 10 | 11 | 12 | 13 | 14 | 15 => p_stream t bs
  | 16 => p_v1 FMaxData bs
  | 17 => p_v2 FMaxStreamData bs
  | 18 => p_max_streams (FMaxStreams false) bs
  | 19 => p_max_streams (FMaxStreams true) bs
  | 20 => p_v1 FDataBlocked bs
  | 21 => p_v2 FStreamDataBlocked bs
  | 22 => p_max_streams (FStreamsBlocked false) bs
  | 23 => p_max_streams (FStreamsBlocked true) bs
  | 24 => p_new_connection_id bs
  | 25 => p_v1 FRetireConnectionId bs
  | 26 => let? '(d, bs) := p_take 8 bs in Some (FPathChallenge d, bs)
  | 27 => let? '(d, bs) := p_take 8 bs in Some (FPathResponse d, bs)
  | 28 => let? '(code, bs) := vdecode bs in let? '(ft, bs) := vdecode bs in
          let? '(r, bs) := p_lenpref bs in Some (FCloseQuic code ft r, bs)
  | 29 => let? '(code, bs) := vdecode bs in
          let? '(r, bs) := p_lenpref bs in Some (FCloseApp code r, bs)
  | 30 => Some (FHandshakeDone, bs)
  | 48 | 49 => p_datagram t bs
  | _ => None
  end.

Definition p_ext (t : N) (bs : list N) : option (frame * list N) :=
  if t =? dc_tokens_tag then p_dc_tokens bs
  else if t =? mtu_probing_tag then
    let? '(l, bs) := p_take 2 bs in Some (FMtuProbingComplete (be_acc 0 l), bs)
  else None.

(* 12.4: the Frame Type is a variable-length integer.  CHOICE (RFC: "MAY treat ... as a
   connection error"): the types of Table 3 and RFC 9221, all below 64, are accepted only in their
   one-byte shortest form; the extension types are accepted in any encoding length *)
Definition fdecode (bs : list N) : option (frame * list N) :=
  let? '(t, rest) := vdecode bs in
  if t <? 64 then
    if (vlen_of_first bs =? 1)%nat then p_core t rest else None
  else p_ext t rest.

(* ---------------------------------------------------------------- encode *)
Definition venc_len (d : list N) : list N := vencode (N.of_nat (length d)) ++ d.

Definition enc_ranges (rs : list (N * N)) : list N :=
  flat_map (fun p => vencode (fst p) ++ vencode (snd p)) rs.

Definition b2n (b : bool) : N := if b then 1 else 0.

Definition fencode (f : frame) : list N :=
  match f with
  | FPadding n => repeat 0 (N.to_nat n)
  | FPing => [1]
  | FAck largest delay first rs ecn =>
      [match ecn with None => 2 | Some _ => 3 end] ++ vencode largest ++ vencode delay
      ++ vencode (N.of_nat (length rs)) ++ vencode first ++ enc_ranges rs
      ++ match ecn with None => [] | Some (e0, e1, ce) => vencode e0 ++ vencode e1 ++ vencode ce end
  | FResetStream id code final => [4] ++ vencode id ++ vencode code ++ vencode final
  | FStopSending id code => [5] ++ vencode id ++ vencode code
  | FCrypto off d => [6] ++ vencode off ++ venc_len d
  | FNewToken tok => [7] ++ venc_len tok
  | FStream id off last fin d =>
      [8 + (if off =? 0 then 0 else 4) + (if last then 0 else 2) + b2n fin] ++ vencode id
      ++ (if off =? 0 then [] else vencode off) ++ (if last then d else venc_len d)
  | FMaxData v => [16] ++ vencode v
  | FMaxStreamData id v => [17] ++ vencode id ++ vencode v
  | FMaxStreams uni v => [18 + b2n uni] ++ vencode v
  | FDataBlocked v => [20] ++ vencode v
  | FStreamDataBlocked id v => [21] ++ vencode id ++ vencode v
  | FStreamsBlocked uni v => [22 + b2n uni] ++ vencode v
  | FNewConnectionId seq rpt cid tok =>
      [24] ++ vencode seq ++ vencode rpt ++ [N.of_nat (length cid)] ++ cid ++ tok
  | FRetireConnectionId seq => [25] ++ vencode seq
  | FPathChallenge d => [26] ++ d
  | FPathResponse d => [27] ++ d
  | FCloseQuic code ft r => [28] ++ vencode code ++ vencode ft ++ venc_len r
  | FCloseApp code r => [29] ++ vencode code ++ venc_len r
  | FHandshakeDone => [30]
  | FDatagram last d => [48 + (if last then 0 else 1)] ++ (if last then d else venc_len d)
  | FDcTokens toks => vencode dc_tokens_tag ++ vencode (N.of_nat (length toks) / 16) ++ toks
  | FMtuProbingComplete mtu => vencode mtu_probing_tag ++ be_bytes 2 mtu
  end.

(* announced size, computed without encoding *)
Definition vsz (v : N) : N := N.of_nat (vsize v).
Definition lsz (d : list N) : N := vsz (N.of_nat (length d)) + N.of_nat (length d).

Definition fsize (f : frame) : N :=
  match f with
  | FPadding n => n
  | FPing | FHandshakeDone => 1
  | FAck largest delay first rs ecn =>
      1 + vsz largest + vsz delay + vsz (N.of_nat (length rs)) + vsz first
      + fold_right (fun p a => vsz (fst p) + vsz (snd p) + a) 0 rs
      + match ecn with None => 0 | Some (e0, e1, ce) => vsz e0 + vsz e1 + vsz ce end
  | FResetStream id code final => 1 + vsz id + vsz code + vsz final
  | FStopSending id code => 1 + vsz id + vsz code
  | FCrypto off d => 1 + vsz off + lsz d
  | FNewToken tok => 1 + lsz tok
  | FStream id off last fin d =>
      1 + vsz id + (if off =? 0 then 0 else vsz off) + (if last then N.of_nat (length d) else lsz d)
  | FMaxData v | FDataBlocked v | FRetireConnectionId v => 1 + vsz v
  | FMaxStreamData id v | FStreamDataBlocked id v => 1 + vsz id + vsz v
  | FMaxStreams _ v | FStreamsBlocked _ v => 1 + vsz v
  | FNewConnectionId seq rpt cid tok => 1 + vsz seq + vsz rpt + 1 + N.of_nat (length cid) + N.of_nat (length tok)
  | FPathChallenge d | FPathResponse d => 1 + N.of_nat (length d)
  | FCloseQuic code ft r => 1 + vsz code + vsz ft + lsz r
  | FCloseApp code r => 1 + vsz code + lsz r
  | FDatagram last d => 1 + (if last then N.of_nat (length d) else lsz d)
  | FDcTokens toks => 4 + vsz (N.of_nat (length toks) / 16) + N.of_nat (length toks)
  | FMtuProbingComplete _ => 4 + 2
  end.

(* the values a frame may carry: integers below 2^62, byte strings of bytes, and the
   per-frame constraints of section 19 *)
Definition vok (v : N) : bool := v <? two62.
Definition lok (d : list N) : bool := wf_bytes d && vok (N.of_nat (length d)).

Definition wf_frame (f : frame) : bool :=
  match f with
  | FPadding n => 1 <=? n
  | FPing | FHandshakeDone => true
  | FAck largest delay first rs ecn =>
      vok largest && vok delay && vok first && vok (N.of_nat (length rs))
      && forallb (fun p => vok (fst p) && vok (snd p)) rs && ack_ok largest first rs
      && match ecn with None => true | Some (e0, e1, ce) => vok e0 && vok e1 && vok ce end
  | FResetStream a b c => vok a && vok b && vok c
  | FStopSending a b | FMaxStreamData a b | FStreamDataBlocked a b => vok a && vok b
  | FCrypto off d => vok off && lok d
  | FNewToken tok => lok tok && negb (length tok =? 0)%nat
  | FStream id off last fin d => vok id && vok off && lok d
  | FMaxData v | FDataBlocked v | FRetireConnectionId v => vok v
  | FMaxStreams _ v | FStreamsBlocked _ v => v <=? two60
  | FNewConnectionId seq rpt cid tok =>
      vok seq && (rpt <=? seq) && wf_bytes cid && wf_bytes tok
      && (1 <=? length cid)%nat && (length cid <=? 20)%nat && (length tok =? 16)%nat
  | FPathChallenge d | FPathResponse d => wf_bytes d && (length d =? 8)%nat
  | FCloseQuic code ft r => vok code && vok ft && lok r
  | FCloseApp code r => vok code && lok r
  | FDatagram last d => lok d
  | FDcTokens toks =>
      wf_bytes toks && (N.of_nat (length toks) mod 16 =? 0)
      && (1 <=? N.of_nat (length toks) / 16) && (N.of_nat (length toks) / 16 <=? dc_max_tokens)
  | FMtuProbingComplete mtu => mtu <? 65536
  end.

(* the frame ends the packet (its data has no Length field) *)
Definition extends_to_end (f : frame) : bool :=
  match f with
  | FStream _ _ last _ _ => last
  | FDatagram last _ => last
  | _ => false
  end.

(* ---------------------------------------------------------------- harness protocol *)
Definition zs (l : list N) : list Z := map Nz l.
Definition zlen (l : list N) : Z := Z.of_nat (length l).
Definition zdata (l : list N) : list Z := zlen l :: zs l.

Definition render (f : frame) : list Z :=
  match f with
  | FPadding n => [0; Nz n]
  | FPing => [1]
  | FAck largest delay first rs ecn =>
      [match ecn with None => 2 | Some _ => 3 end; Nz delay; Z.of_nat (S (length rs))]
      ++ flat_map (fun p => [Nz (fst p); Nz (snd p)]) (ack_range_list largest first rs)
      ++ match ecn with None => [] | Some (e0, e1, ce) => [Nz e0; Nz e1; Nz ce] end
  | FResetStream a b c => [4; Nz a; Nz b; Nz c]
  | FStopSending a b => [5; Nz a; Nz b]
  | FCrypto off d => [6; Nz off] ++ zdata d
  | FNewToken tok => [7] ++ zdata tok
  | FStream id off last fin d => [8; Nz id; Nz off; bz last; bz fin] ++ zdata d
  | FMaxData v => [16; Nz v]
  | FMaxStreamData a b => [17; Nz a; Nz b]
  | FMaxStreams uni v => [18; bz uni; Nz v]
  | FDataBlocked v => [20; Nz v]
  | FStreamDataBlocked a b => [21; Nz a; Nz b]
  | FStreamsBlocked uni v => [22; bz uni; Nz v]
  | FNewConnectionId seq rpt cid tok => [24; Nz seq; Nz rpt] ++ zdata cid ++ zs tok
  | FRetireConnectionId v => [25; Nz v]
  | FPathChallenge d => [26] ++ zs d
  | FPathResponse d => [27] ++ zs d
  | FCloseQuic code ft r => [28; Nz code; Nz ft] ++ zdata r
  | FCloseApp code r => [29; Nz code] ++ zdata r
  | FHandshakeDone => [30]
  | FDatagram last d => [48; bz last] ++ zdata d
  | FDcTokens toks => [Nz dc_tokens_tag] ++ zdata toks
  | FMtuProbingComplete mtu => [Nz mtu_probing_tag; Nz mtu]
  end%Z.

(* a packet payload is decoded frame by frame until it is empty or a frame is malformed.
   Result: the frames with the number of bytes each consumed, and whether the payload was
   exhausted (true) or a malformed frame was met (false).  None = out of fuel, proved unreachable
   when fuel >= length: every frame consumes at least one byte *)
Fixpoint fdecode_all (fuel : nat) (bs : list N) : option (list (frame * nat) * bool) :=
  match bs with
  | [] => Some ([], true)
  | _ =>
    match fuel with
    | O => None
    | S fuel' =>
        match fdecode bs with
        | None => Some ([], false)
        | Some (f, rest) =>
            let? '(fs, ok) := fdecode_all fuel' rest in
            Some ((f, (length bs - length rest)%nat) :: fs, ok)
        end
    end
  end.

(* per frame: 1, rendering, bytes consumed, announced size, emitted size, re-encoded bytes,
   1 (the re-encoding decodes to the same frame: theorem frame_roundtrip).
   End: 2 = payload exhausted, 0 = error, -9 = out of fuel *)
Definition render_entry (e : frame * nat) : list Z :=
  let '(f, consumed) := e in
  let enc := fencode f in
  [1%Z] ++ render f ++ [Z.of_nat consumed; Nz (fsize f); zlen enc] ++ zs enc ++ [1%Z].

Definition run_seq (fuel : nat) (bs : list N) : list Z :=
  match fdecode_all fuel bs with
  | None => [(-9)%Z]
  | Some (fs, ok) => flat_map render_entry fs ++ [if ok then 2%Z else 0%Z]
  end.

Definition run (case : list Z) : list Z :=
  let bs := map byte_of_z (tl case) in
  run_seq (length bs) bs.

Definition judge (case out : list Z) : bool := zlist_eqb out (run case).
