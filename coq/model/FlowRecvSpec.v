(* C04, receive side: the property as an executable judgement on an implementation's output,
   written from RFC 9000 (4.1 flow control, 4.5 final size, 11 / 20.1 error codes, 19.4, 19.8,
   19.9, 19.10) and from the operations of the case alone -- it does not look at the model's
   state (model/FlowRecv.v is only used for the case syntax [op] / [parse]).

   Per stream the judge keeps what an observer of the wire and of the application API knows:
   the accepted STREAM frames, the highest offset they reach, the established final size, the
   bytes handed to the application, the largest MAX_STREAM_DATA transmitted.

   Demands
   * receive half open (phase Live):
       - a frame that breaks a rule must be rejected, with the code the RFC names for (one of) the
         broken rule(s): beyond consumed + window (stream or connection) -> FLOW_CONTROL_ERROR;
         final size changed / data beyond final size / final size below data already received ->
         FINAL_SIZE_ERROR; offset + length above 2^62-1 -> FLOW_CONTROL_ERROR or
         FRAME_ENCODING_ERROR (19.8); or with one of the generic codes PROTOCOL_VIOLATION /
         INTERNAL_ERROR, which section 11 allows in place of any specific code ("a generic error
         code (such as PROTOCOL_VIOLATION or INTERNAL_ERROR) can always be used in place of
         specific error codes").  Another *specific* code (e.g. FINAL_SIZE_ERROR for a pure flow
         control violation) is not "applicable" and is refused.
       - a frame that breaks no rule and stays within the largest limits actually transmitted must
         be accepted.
       - between the largest transmitted limit and consumed + window either answer (Ok or
         FLOW_CONTROL_ERROR) is accepted: the endpoint may or may not count credit it has
         released but not yet put on the wire.
   * receive half closed by the application (stop_sending), by an accepted RESET_STREAM or by
     reading to the end: frames may be ignored (Ok) or rejected with a code a broken rule permits.
   * every MAX_STREAM_DATA / MAX_DATA transmitted is at most consumed + window, where consumed =
     bytes read by the application, or the final size once the stream has been reset (4.5).
   * bytes handed to the application at stream position p carry the tag of an accepted frame
     that covers p -- so no byte of a rejected frame is ever delivered, also not after the
     connection was closed. *)
From SQ Require Import lib.Base gen.Gen_C04 model.FlowRecv.
Local Open Scope N_scope.

Inductive phase := Live | Stopped | Closed.

Record js := {
  ph : phase;
  acc : list (N * N * N);     (* accepted STREAM frames: (tag, offset, end) *)
  hi : N;                     (* highest offset covered by accepted frames / accepted final size *)
  fsz : option N;             (* established final size *)
  deliv : N;                  (* bytes handed to the application *)
  cred : N;                   (* consumed, for credit: deliv, or the final size after a reset *)
  adv : N;                    (* largest MAX_STREAM_DATA on the wire (initially the window) *)
  jwin : N                    (* the stream's configured receive window *)
}.

Record jstate := { jstr : list js; advc : N; jwc : N; jtag : N; jopen : nat }.

Definition js_new (w : N) : js :=
  {| ph := Live; acc := []; hi := 0; fsz := None; deliv := 0; cred := 0; adv := w; jwin := w |}.

Definition jinit (ws wl wc : N) : jstate :=
  {| jstr := [js_new ws; js_new ws; js_new wl; js_new wl]; advc := wc; jwc := wc; jtag := 1; jopen := O |}.

Definition jget (j : jstate) (i : nat) : js := nth i (jstr j) (js_new 0).
Definition jput (j : jstate) (i : nat) (s : js) : jstate :=
  {| jstr := set_nth i (jstr j) s; advc := advc j; jwc := jwc j; jtag := jtag j; jopen := jopen j |}.

(* a frame for stream i creates the streams up to i (RFC 9000 3.2); the application cannot use a
   stream before that *)
Definition jopen_upto (j : jstate) (i : nat) : jstate :=
  {| jstr := jstr j; advc := advc j; jwc := jwc j; jtag := jtag j; jopen := open_count (jopen j) i |}.

Definition sum_hi (l : list js) : N := fold_right (fun s a => hi s + a) 0 l.
Definition sum_cred (l : list js) : N := fold_right (fun s a => cred s + a) 0 l.

Definition C_FLOW : Z := 3.      (* RFC 9000 20.1 FLOW_CONTROL_ERROR *)
Definition C_FINAL : Z := 6.     (* FINAL_SIZE_ERROR *)
Definition C_FRAME : Z := 7.     (* FRAME_ENCODING_ERROR *)

(* the rules a frame reaching offset [e] on stream [i] breaks; [fin_viol] is computed by the caller *)
Record viol := { v_big : bool; v_flow : bool; v_final : bool; legit_strict : bool }.

Definition analyse (j : jstate) (i : nat) (e : N) (fin_viol : bool) : viol :=
  let s := jget j i in
  let used := sum_hi (jstr j) - hi s + N.max (hi s) e in
  let lim_s := sat_add (cred s) (jwin s) in
  let lim_c := sat_add (sum_cred (jstr j)) (jwc j) in
  let big := varint_max <? e in
  let flow := (lim_s <? e) || (lim_c <? used) in
  {| v_big := big; v_flow := flow; v_final := fin_viol;
     legit_strict := negb big && negb flow && negb fin_viol && (e <=? adv s) && (used <=? advc j) |}.

Definition any_viol (v : viol) : bool := v_big v || v_flow v || v_final v.

(* is code [r] one the RFC names for a rule that was broken, or one of the generic codes that
   section 11 allows in its place ("a generic error code (such as PROTOCOL_VIOLATION or
   INTERNAL_ERROR) can always be used in place of specific error codes")? *)
Definition C_PROTOCOL_VIOLATION : Z := 10.
Definition C_INTERNAL : Z := 1.
Definition code_permitted (v : viol) (r : Z) : bool :=
  (v_big v && ((r =? C_FLOW)%Z || (r =? C_FRAME)%Z))
  || (v_flow v && (r =? C_FLOW)%Z)
  || (v_final v && (r =? C_FINAL)%Z)
  || ((v_big v || v_flow v || v_final v) && ((r =? C_PROTOCOL_VIOLATION)%Z || (r =? C_INTERNAL)%Z)).

(* verdict on the answer [r] (0 = accepted) to a frame with analysis [v] *)
Definition answer_ok (strict : bool) (v : viol) (r : Z) : bool :=
  if (r =? 0)%Z then (if strict then negb (any_viol v) else true)
  else code_permitted v r || (negb (any_viol v) && negb (legit_strict v) && (r =? C_FLOW)%Z).

(* RFC 9000 20.1 FINAL_SIZE_ERROR clause (2): a final size below data already received must be
   rejected also when it arrives in a RESET_STREAM *)
(* [pol] below: true = demand it (the property), false = tolerate it (used only to classify a
   failure as exactly this known class) *)

Definition covered (acc : list (N * N * N)) (t p k : N) : bool :=
  existsb (fun f => let '(t', o, e) := f in (t' =? t) && (o <=? p) && (p + k <=? e)) acc.

(* runs (tag, len) delivered from position p *)
Fixpoint runs_ok (acc : list (N * N * N)) (p : N) (cnt : nat) (out : list Z) : option (N * list Z) :=
  match cnt with
  | O => Some (p, out)
  | S c =>
      match out with
      | t :: k :: r =>
          if (0 <=? t)%Z && (0 <? k)%Z && covered acc (zN t) p (zN k)
          then runs_ok acc (p + zN k) c r else None
      | _ => None
      end
  end.

(* one read answer: -1 | total fin nruns runs.  Returns the updated stream and the rest *)
Definition read_ok (s : js) (limit : option N) (out : list Z) : option (js * list Z) :=
  match out with
  | [] => None
  | x :: r =>
      if (x =? -1)%Z then Some (s, r) else
      match r with
      | f :: nr :: r2 =>
          if (x <? 0)%Z || (nr <? 0)%Z then None else
          match runs_ok (acc s) (deliv s) (Z.to_nat nr) r2 with
          | None => None
          | Some (p, rest) =>
              let total := zN x in
              let within := match limit with Some n => total <=? n | None => true end in
              if (p =? deliv s + total) && within then
                Some ({| ph := match fsz s with
                               | Some z => if z =? p then Closed else ph s
                               | None => ph s end; acc := acc s; hi := hi s; fsz := fsz s;
                         deliv := p; cred := match ph s with Live => N.max (cred s) p | _ => cred s end;
                         adv := adv s; jwin := jwin s |}, rest)
              else None
          end
      | _ => None
      end
  end.

(* after a rejected frame: what each stream still hands out; nothing may follow *)
Fixpoint post_ok (l : list js) (out : list Z) : bool :=
  match l with
  | [] => match out with [] => true | _ => false end
  | s :: r => match read_ok s None out with
              | Some (_, rest) => post_ok r rest
              | None => false
              end
  end.

Definition adv_ok (v : Z) (bound : N) : bool := (v =? -1)%Z || ((0 <=? v)%Z && (zN v <=? bound)).

Fixpoint transmit_ok (l : list js) (out : list Z) : option (list js * list Z) :=
  match l with
  | [] => Some ([], out)
  | s :: r =>
      match out with
      | v :: rest =>
          if adv_ok v (sat_add (cred s) (jwin s)) then
            match transmit_ok r rest with
            | Some (l', rest') =>
                Some ({| ph := ph s; acc := acc s; hi := hi s; fsz := fsz s; deliv := deliv s; cred := cred s;
                         adv := if (v =? -1)%Z then adv s else N.max (adv s) (zN v); jwin := jwin s |} :: l', rest')
            | None => None
            end
          else None
      | [] => None
      end
  end.

Fixpoint judge_ops (pol : bool) (j : jstate) (ops : list op) (out : list Z) : bool :=
  match ops with
  | [] => match out with [] => true | _ => false end
  | o :: rest =>
    match o with
    | OStream i off len fin =>
        let t := jtag j in
        let j := {| jstr := jstr j; advc := advc j; jwc := jwc j; jtag := t + 1; jopen := open_count (jopen j) i |} in
        let s := jget j i in
        let e := off + len in
        let fin_viol := match fsz s with
                        | Some f => (f <? e) || (fin && negb (e =? f))
                        | None => fin && (e <? hi s)
                        end in
        let v := analyse j i e fin_viol in
        match out with
        | [] => false
        | r :: out' =>
            if (r =? -99)%Z then
              (* debug-build arithmetic panic: only for an offset + length above 2^62-1 on a stream
                 the application has stopped *)
              v_big v && match ph s with Stopped => true | _ => false end
              && match out' with [] => true | _ => false end
            else
            let strict := match ph s with Live => true | _ => false end in
            if negb (answer_ok strict v r) then false
            else if (r =? 0)%Z then
              let s' := match ph s with
                        | Live => let fsz' := if fin then Some e else fsz s in
                                  {| ph := match fsz' with
                                           | Some z => if z =? deliv s then Closed else Live
                                           | None => Live end;
                                     acc := (t, off, e) :: acc s; hi := N.max (hi s) e;
                                     fsz := fsz'; deliv := deliv s; cred := cred s;
                                     adv := adv s; jwin := jwin s |}
                        | _ => s
                        end in
              judge_ops pol (jput j i s') rest out'
            else post_ok (jstr j) out'
        end
    | OReset i size =>
        let j := jopen_upto j i in
        let s := jget j i in
        let fin_viol := match fsz s with
                        | Some f => negb (size =? f)
                        | None => pol && (size <? hi s)
                        end in
        let v := analyse j i size fin_viol in
        match out with
        | [] => false
        | r :: out' =>
            let strict := match ph s with Live => true | _ => false end in
            if negb (answer_ok strict v r) then false
            else if (r =? 0)%Z then
              let s' := match ph s with
                        | Closed => s
                        | _ => {| ph := Closed; acc := acc s; hi := N.max (hi s) size; fsz := Some size;
                                  deliv := deliv s; cred := N.max (hi s) size; adv := adv s; jwin := jwin s |}
                        end in
              judge_ops pol (jput j i s') rest out'
            else post_ok (jstr j) out'
        end
    | OBlocked i =>
        match out with
        | r :: out' => (r =? 0)%Z && judge_ops pol (jopen_upto j i) rest out'
        | [] => false
        end
    | ORead i n =>
        match read_ok (jget j i) (Some n) out with
        | Some (s', out') => judge_ops pol (jput j i s') rest out'
        | None => false
        end
    | OStop i =>
        let s := jget j i in
        let s' := match ph s with
                  | Live => if negb ((2 <=? i)%nat || (i <? jopen j)%nat) then s else
                            {| ph := Stopped; acc := acc s; hi := hi s; fsz := fsz s; deliv := deliv s;
                               cred := cred s; adv := adv s; jwin := jwin s |}
                  | _ => s
                  end in
        judge_ops pol (jput j i s') rest out
    | OTransmit =>
        match out with
        | md :: out' =>
            if adv_ok md (sat_add (sum_cred (jstr j)) (jwc j)) then
              match transmit_ok (jstr j) out' with
              | Some (l', out'') =>
                  judge_ops pol {| jstr := l'; advc := if (md =? -1)%Z then advc j else N.max (advc j) (zN md);
                               jwc := jwc j; jtag := jtag j; jopen := jopen j |} rest out''
              | None => false
              end
            else false
        | [] => false
        end
    | OAck _ | OLoss _ => judge_ops pol j rest out
    end
  end.

Definition judge_pol (pol : bool) (c out : list Z) : bool :=
  let ws := u32 (hd 0%Z c) in
  let wl := u32 (hd 0%Z (tl c)) in
  let wc := u32 (hd 0%Z (tl (tl c))) in
  judge_ops pol (jinit ws wl wc) (parse (length c) (tl (tl (tl c)))) out.

Definition judge : list Z -> list Z -> bool := judge_pol true.
(* the same judgement except that a RESET_STREAM whose final size is below data already received
   may be accepted *)
Definition judge_tolerant : list Z -> list Z -> bool := judge_pol false.
