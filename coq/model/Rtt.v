(* Model of s2n-quic-core/src/recovery/rtt_estimator.rs: RttEstimator::{new, on_max_ack_delay,
   update_rtt, pto_period, calculate_base_pto_micros, persistent_congestion_threshold,
   loss_time_threshold, on_persistent_congestion, rttvar_4x}, weighted_average.
   Durations are nanoseconds (N).  Executable definitions only. *)
From SQ Require Import lib.Base gen.Gen_C09 model.RecTime.
Local Open Scope N_scope.

Record rtt := { latest : N; minr : N; smoothed : N; rttvar : N; mad : N; first : bool }.

Definition two64 : N := 18446744073709551616.

(* new_with_max_ack_delay (release: initial_rtt.max(MIN_RTT); debug asserts initial_rtt >= MIN_RTT) *)
Definition rtt_new (max_ack_delay init : N) : rtt :=
  let i := N.max init min_rtt_ns in
  {| latest := i; minr := i; smoothed := i; rttvar := i / rttvar_new_div; mad := max_ack_delay; first := false |}.

(* weighted_average(a, b, weight): divide first, then multiply *)
Definition wavg (a b w : N) : N := (a / w) * (w - 1) + b / w.

Definition abs_diff (a b : N) : N := if a <? b then b - a else a - b.

(* spaces: 0 Initial, 1 Handshake, 2 ApplicationData *)
Definition update_rtt (r : rtt) (ack_delay sample : N) (confirmed : bool) (space : N) : rtt :=
  let l := N.max sample min_rtt_ns in
  if negb (first r) then
    {| latest := l; minr := l; smoothed := l; rttvar := l / rttvar_init_div; mad := mad r; first := true |}
  else
    let mn := N.min (minr r) l in
    let ad := if space =? 0 then 0 else ack_delay in
    let ad := if confirmed then N.min ad (mad r) else ad in
    let r1 := {| latest := l; minr := mn; smoothed := smoothed r; rttvar := rttvar r; mad := mad r; first := true |} in
    if mn + ad <? l then
      let adj := l - ad in
      {| latest := l; minr := mn;
         smoothed := wavg (smoothed r) adj srtt_weight;
         rttvar := wavg (rttvar r) (abs_diff (smoothed r) adj) rttvar_weight;
         mad := mad r; first := true |}
    else if negb confirmed then r1
    else
      {| latest := l; minr := mn;
         smoothed := wavg (smoothed r) l srtt_weight;
         rttvar := wavg (rttvar r) (abs_diff (smoothed r) l) rttvar_weight;
         mad := mad r; first := true |}.

Definition on_max_ack_delay (r : rtt) (ms : N) : rtt :=
  {| latest := latest r; minr := minr r; smoothed := smoothed r; rttvar := rttvar r;
     mad := ms * 1000000; first := first r |}.

Definition on_persistent_congestion (r : rtt) : rtt :=
  {| latest := latest r; minr := minr r; smoothed := smoothed r; rttvar := rttvar r;
     mad := mad r; first := false |}.

(* rttvar_4x().as_micros() *)
Definition rttvar_4x_us (r : rtt) : N := rttvar_mult * (rttvar r / 1000).

(* calculate_base_pto_micros before the multiplication by the backoff *)
Definition pto_base_us (r : rtt) (space : N) : N :=
  smoothed r / 1000 + N.max (rttvar_4x_us r) gran_us + (if space =? 2 then mad r / 1000 else 0).

(* pto_period: `pto_period *= pto_backoff as u64` in u64 (release: wraps; debug: overflow panic) *)
Definition pto_period (r : rtt) (backoff space : N) : N :=
  let p := (pto_base_us r space * backoff) mod two64 in
  N.max p gran_us * 1000.

Definition persistent_congestion_threshold (r : rtt) : N :=
  (smoothed r / 1000000 + N.max (rttvar_4x_us r / 1000) (k_granularity_ns / 1000000)
   + mad r / 1000000) * k_persistent_congestion_threshold * 1000000.

Definition loss_time_threshold (r : rtt) : N :=
  let m := N.max (smoothed r) (latest r) in
  N.max (m + m / time_threshold_div) k_granularity_ns.

(* ---- harness protocol ----
   case = init_ns :: ops, each op is 8 integers [code; a; b; c; d; backoff; pspace; _]
     code 1: update_rtt(ack_delay = a, sample = b, confirmed = (c <> 0), space = d)
     code 2: on_max_ack_delay(a ms)
     code 3: on_persistent_congestion
     other : no-op
   after each op: [latest; min; smoothed; rttvar; first?; loss_time_threshold;
                   persistent_congestion_threshold; pto_period(backoff, pspace); pto_period(2*backoff, pspace)] *)
Definition step (r : rtt) (c a b d e : Z) : rtt :=
  if (c =? 1)%Z then update_rtt r (zN a) (zN b) (negb (d =? 0)%Z) (zN e)
  else if (c =? 2)%Z then on_max_ack_delay r (zN a)
  else if (c =? 3)%Z then on_persistent_congestion r
  else r.

Definition obs (r : rtt) (bo sp : Z) : list Z :=
  [Nz (latest r); Nz (minr r); Nz (smoothed r); Nz (rttvar r); bz (first r);
   Nz (loss_time_threshold r); Nz (persistent_congestion_threshold r);
   Nz (pto_period r (zN bo) (zN sp)); Nz (pto_period r (2 * zN bo) (zN sp))].

Fixpoint run_ops (r : rtt) (l : list Z) : list Z :=
  match l with
  | c :: a :: b :: d :: e :: bo :: sp :: _ :: t =>
      let r' := step r c a b d e in obs r' bo sp ++ run_ops r' t
  | _ => []
  end.

Definition run (case : list Z) : list Z :=
  match case with
  | [] => []
  | i :: ops => run_ops (rtt_new 0 (zN i)) ops
  end.

(* ---- the property as an executable judgement on an implementation's output ----
   From the case alone: the clamped samples seen so far.
   - latest_rtt = the last sample (at least 1 us);
   - min_rtt = the minimum of the samples since the estimator last (re)started (RFC 9002 5.2 lets
     persistent congestion restart it; an implementation that does not restart is accepted too);
   - smoothed_rtt within [min sample - 49 ns, max sample] (49 ns = proved bound of the divide-first
     truncation, below the estimator's 1 us resolution); before any sample all three equal the initial RTT;
   - pto_period >= 1 ms and pto_period(2b) = 2 * pto_period(b) for b >= 1. *)
Record jst := { seen : bool; gmin : N; gmax : N; cmin : N; pend : bool; lastv : N }.

Definition jstep (j : jst) (c b : Z) : jst :=
  if (c =? 1)%Z then
    let s := N.max (zN b) 1000 in
    {| seen := true;
       gmin := if seen j then N.min (gmin j) s else s;
       gmax := if seen j then N.max (gmax j) s else s;
       cmin := if pend j then s else N.min (cmin j) s;
       pend := false; lastv := s |}
  else if (c =? 3)%Z then
    {| seen := seen j; gmin := gmin j; gmax := gmax j; cmin := cmin j; pend := true; lastv := lastv j |}
  else j.

Definition slack : N := 49.

Definition jcheck (j : jst) (init : N) (bo : Z) (o : list Z) : bool :=
  match o with
  | [l; m; s; _; _; _; _; p1; p2] =>
      (if seen j then
         (zN l =? lastv j) && ((zN m =? cmin j) || (zN m =? gmin j))
         && (gmin j <=? zN s + slack) && (zN s <=? gmax j)
       else (zN l =? init) && (zN m =? init) && (zN s =? init))
      && (0 <=? l)%Z && (0 <=? m)%Z && (0 <=? s)%Z
      && (1000000 <=? p1)%Z
      && (if (1 <=? bo)%Z then (p2 =? 2 * p1)%Z else true)
  | _ => false
  end.

Fixpoint judge_ops (j : jst) (init : N) (l out : list Z) : bool :=
  match l with
  | c :: a :: b :: d :: e :: bo :: sp :: _ :: t =>
      let j' := jstep j c b in
      jcheck j' init bo (firstn 9 out) && judge_ops j' init t (skipn 9 out)
  | _ => match out with [] => true | _ => false end
  end.

Definition judge (case out : list Z) : bool :=
  match case with
  | [] => match out with [] => true | _ => false end
  | i :: ops =>
      judge_ops {| seen := false; gmin := 0; gmax := 0; cmin := 0; pend := true; lastv := 0 |}
                (N.max (zN i) 1000) ops out
  end.
