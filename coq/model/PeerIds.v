(* Model of quic/s2n-quic-transport/src/connection/peer_id_registry.rs (PeerIdRegistry), the stateless reset
   map of connection_id_mapper.rs, the NEW_CONNECTION_ID decoder invariant of
   s2n-quic-core/src/frame/new_connection_id.rs and the reaction of path::Manager::on_new_connection_id,
   driven as harness/h_transport/src/bin/C13.rs (pcid) drives the real code.
   Executable definitions only; proofs are in proofs/PeerIdsProofs.v. *)
From SQ Require Import lib.Base gen.Gen_C13.
Local Open Scope N_scope.

Inductive pstatus := PNew | PInUse | PInUsePending | PPendRet | PPendRetx | PPAck (pn : N).
Record pinfo := mkP { pid : N; pseq : N; ptok : option N; pst : pstatus }.
Record preg := mkPR { pinfos : list pinfo; prpt : N }.

(* transport error codes *)
Definition PROTOCOL_VIOLATION : N := 10.
Definition CONNECTION_ID_LIMIT_ERROR : N := 9.
Definition FRAME_ENCODING_ERROR : N := 7.

Definition set_pst (i : pinfo) (s : pstatus) : pinfo := mkP (pid i) (pseq i) (ptok i) s.
Definition p_active (i : pinfo) : bool :=
  match pst i with PNew | PInUse | PInUsePending => true | _ => false end.
Definition p_retire_ready (i : pinfo) (rpt : N) : bool := p_active i && (pseq i <? rpt).
Definition opt_eqb (a : option N) (b : N) : bool := match a with Some x => x =? b | None => false end.

(* PeerIdInfo::validate_new_connection_id: None = InvalidNewConnectionId, Some dup *)
Definition validate (i : pinfo) (id tok sq : N) : option bool :=
  let tok_eq := opt_eqb (ptok i) tok in
  let seq_eq := pseq i =? sq in
  if pid i =? id then (if negb tok_eq || negb seq_eq then None else Some true)
  else if seq_eq || tok_eq then None else Some false.

(* the loop of on_new_connection_id over the registered ids:
   result = updated infos, active count, duplicate flag, position of the first id waiting for a new id *)
Fixpoint scan (l : list pinfo) (id tok sq rpt : N) (pos : nat)
  : option (list pinfo * N * bool * option nat) :=
  match l with
  | [] => Some ([], 0, false, None)
  | i :: t =>
      match validate i id tok sq with
      | None => None
      | Some dup =>
          let i' := if p_retire_ready i rpt then set_pst i PPendRet else i in
          match scan t id tok sq rpt (S pos) with
          | None => None
          | Some (t', cnt, dup', pend) =>
              Some (i' :: t', (if p_active i' then cnt + 1 else cnt), dup || dup',
                    match pst i' with PInUsePending => Some pos | _ => pend end)
          end
      end
  end.

(* on_new_connection_id: error code (0 = Ok) and new registry (meaningful when Ok) *)
Definition on_new_connection_id (r : preg) (id sq rpt tok : N) : N * preg :=
  let rp := N.max (prpt r) rpt in
  match scan (pinfos r) id tok sq rp 0 with
  | None => (PROTOCOL_VIOLATION, r)
  | Some (l, cnt, dup, pend) =>
      if dup then
        let retired := N.of_nat (length l) - cnt in
        if Gen_C13.peer_retired_connection_id_limit <? retired then (CONNECTION_ID_LIMIT_ERROR, r)
        else (0, mkPR l rp)
      else
        let fresh := mkP id sq (Some tok) (if sq <? rp then PPendRet else PNew) in
        let '(l, cnt) :=
          if p_active fresh then
            match pend with
            | Some k => (set_nth k l (set_pst (nth k l fresh) PPendRet), cnt + 1 - 1)
            | None => (l, cnt + 1)
            end
          else (l, cnt) in
        let l := l ++ [fresh] in
        if Gen_C13.peer_active_connection_id_limit <? cnt then (CONNECTION_ID_LIMIT_ERROR, r)
        else if Gen_C13.peer_retired_connection_id_limit <? N.of_nat (length l) - cnt then (CONNECTION_ID_LIMIT_ERROR, r)
        else (0, mkPR l rp)
  end.

(* a NEW_CONNECTION_ID frame as it arrives: decoder invariant, u32 conversions, registry *)
Definition u32_lim : N := 4294967296.
Definition on_frame (r : preg) (sq rpt id tok : N) : N * preg :=
  if sq <? rpt then (PROTOCOL_VIOLATION, r)           (* decoder_invariant -> transport::Error::from(DecoderError) *)
  else if u32_lim <=? sq then (PROTOCOL_VIOLATION, r)
  else if u32_lim <=? rpt then (PROTOCOL_VIOLATION, r)
  else on_new_connection_id r id sq rpt tok.

Definition is_active (r : preg) (id : N) : bool := existsb (fun i => (pid i =? id) && p_active i) (pinfos r).

(* stateless reset map: the set of tracked tokens *)
Definition tok_insert (m : list N) (t : N) : list N := if mem_N t m then m else t :: m.
Definition tok_remove (m : list N) (t : N) : list N := filter (fun x => negb (x =? t)) m.

Fixpoint consume_in (l : list pinfo) : option (N * option N * list pinfo) :=
  match l with
  | [] => None
  | i :: t => match pst i with
              | PNew => Some (pid i, ptok i, set_pst i PInUse :: t)
              | _ => match consume_in t with
                     | Some (id, tk, t') => Some (id, tk, i :: t')
                     | None => None
                     end
              end
  end.
Definition consume (r : preg) (m : list N) : option (N * preg * list N) :=
  match consume_in (pinfos r) with
  | Some (id, tk, l) => Some (id, mkPR l (prpt r), match tk with Some t => tok_insert m t | None => m end)
  | None => None
  end.

Definition ptx_int (i : pinfo) : N := match pst i with PPendRetx => 2 | PPendRet => 1 | _ => 0 end.
Definition can_tx (interest constraint : N) : bool :=
  match constraint with
  | 0 => negb (interest =? 0)
  | 1 => interest =? 2
  | _ => false
  end.
Definition ptx_interest (r : preg) : N := fold_left (fun a i => N.max a (ptx_int i)) (pinfos r) 0.

(* on_transmit: the RETIRE_CONNECTION_ID sequence numbers written *)
Fixpoint ptransmit_in (l : list pinfo) (constraint cap pn : N) : list pinfo * list N :=
  match l with
  | [] => ([], [])
  | i :: t =>
      if can_tx (ptx_int i) constraint && (0 <? cap) then
        let '(t', fs) := ptransmit_in t constraint (cap - 1) pn in (set_pst i (PPAck pn) :: t', pseq i :: fs)
      else let '(t', fs) := ptransmit_in t constraint cap pn in (i :: t', fs)
  end.
Definition p_on_transmit (r : preg) (constraint cap pn : N) : preg * list N :=
  if can_tx (ptx_interest r) constraint then
    let '(l, fs) := ptransmit_in (pinfos r) constraint cap pn in (mkPR l (prpt r), fs)
  else (r, []).

Definition in_range (lo hi p : N) : bool := (lo <=? p) && (p <=? hi).
Definition acked (lo hi : N) (i : pinfo) : bool := match pst i with PPAck p => in_range lo hi p | _ => false end.
Definition p_on_ack (r : preg) (m : list N) (lo hi : N) : preg * list N :=
  (mkPR (filter (fun i => negb (acked lo hi i)) (pinfos r)) (prpt r),
   fold_left (fun m i => match ptok i with Some t => tok_remove m t | None => m end)
             (filter (acked lo hi) (pinfos r)) m).
Definition p_on_loss (r : preg) (lo hi : N) : preg :=
  mkPR (map (fun i => if acked lo hi i then set_pst i PPendRetx else i) (pinfos r)) (prpt r).

(* ---------------------------------------------------------------------------------------------- *)
(* driver *)

Record pst_t := mkPS { preg_ : option preg; toks : list N; dcid : N; ppn : N }.

Definition PID_BASE : N := 2000.
Definition PTOK_BASE : N := 7000.
Definition zmod (a : Z) (m : Z) : N := zN (a mod m).
Definition varint_clamp (a : Z) : N := N.min (zN (Z.max a 0)) varint_max.

Definition an_op := (Z * Z * Z * Z * Z)%type.
Fixpoint ops_of (fuel : nat) (l : list Z) : list an_op :=
  match fuel with O => [] | S fuel =>
  match l with
  | [] => []
  | code :: t =>
      let a := hd 0%Z t in let t := tl t in
      let b := hd 0%Z t in let t := tl t in
      let c := hd 0%Z t in let t := tl t in
      let d := hd 0%Z t in let t := tl t in
      (code, a, b, c, d) :: ops_of fuel t
  end end.

Definition close (s : pst_t) (r : preg) : pst_t :=
  mkPS None (fold_left (fun m i => match ptok i with Some t => tok_remove m t | None => m end) (pinfos r) (toks s))
       (dcid s) (ppn s).

Definition step (s : pst_t) (o : an_op) : pst_t * list Z :=
  let '(code0, a, b, c, d) := o in
  let code := zmod code0 6 in
  let '(s', out) :=
    match preg_ s with
    | None => (s, [(-2)%Z])
    | Some r =>
      match code with
      | 1 => let '(rc, r1) := on_frame r (varint_clamp a) (varint_clamp b) (PID_BASE + zmod c 16) (PTOK_BASE + zmod d 16) in
             if negb (rc =? 0) then (close s r, [Nz rc])
             else if is_active r1 (dcid s) then (mkPS (Some r1) (toks s) (dcid s) (ppn s), [0%Z])
             else match consume r1 (toks s) with
                  | Some (id, r2, m) => (mkPS (Some r2) m id (ppn s), [0%Z])
                  | None => (close s r1, [Nz PROTOCOL_VIOLATION])
                  end
      | 2 => match consume r (toks s) with
             | Some (id, r2, m) => (mkPS (Some r2) m id (ppn s), [Nz id])
             | None => (s, [(-1)%Z])
             end
      | 3 => let '(r', fs) := p_on_transmit r (zmod a 4) (zmod b 5) (ppn s) in
             (mkPS (Some r') (toks s) (dcid s) (ppn s + 1),
              Nz (ppn s) :: Z.of_nat (length fs) :: flat_map (fun sq => [25%Z; Nz sq]) fs)
      | 4 => let lo := zmod a 64 in
             let '(r', m) := p_on_ack r (toks s) lo (lo + zmod b 4) in
             (mkPS (Some r') m (dcid s) (ppn s), [])
      | 5 => let lo := zmod a 64 in
             (mkPS (Some (p_on_loss r lo (lo + zmod b 4))) (toks s) (dcid s) (ppn s), [])
      | _ => (s, [])
      end
    end in
  (s', Nz code :: out ++ match preg_ s' with
                         | Some r => [Nz (ptx_interest r); Nz (dcid s')]
                         | None => [(-2)%Z; (-2)%Z]
                         end).

Fixpoint steps (s : pst_t) (ops : list an_op) : pst_t * list Z :=
  match ops with
  | [] => (s, [])
  | o :: t => let '(s', out) := step s o in let '(s'', out') := steps s' t in (s'', out ++ out')
  end.

Definition init (case : list Z) : pst_t * list Z :=
  let rotate := (hd 0 case mod 2 =? 1)%Z in
  let tok0 := (hd 0 (tl case) mod 2 =? 1)%Z in
  (mkPS (Some (mkPR [mkP PID_BASE 0 (if tok0 then Some PTOK_BASE else None) (if rotate then PInUsePending else PInUse)] 0))
        (if tok0 then [PTOK_BASE] else []) PID_BASE 0,
   tl (tl case)).

Definition run (case : list Z) : list Z :=
  let '(s, rest) := init case in
  let '(s', out) := steps s (ops_of (length rest) rest) in
  out ++ map (fun k => bz (mem_N (PTOK_BASE + N.of_nat k) (toks s'))) (seq 0 16).

(* ---------------------------------------------------------------------------------------------- *)
(* the property as a predicate on an implementation's output: every RETIRE_CONNECTION_ID names a sequence
   number the peer issued and is not carried by a packet addressed with the id of that sequence number *)

(* (seq, id) of every NEW_CONNECTION_ID received so far, and of the handshake id *)
Definition issued := list (N * N).

Fixpoint find_seq (iss : issued) (sq : N) : option N :=
  match iss with
  | [] => None
  | (s, id) :: t => if s =? sq then Some id else find_seq t sq
  end.

(* the id named by a sequence number is the one of the most recent accepted frame with that number *)
Definition retire_ok (iss : issued) (dc : Z) (sq : N) : bool :=
  match find_seq iss sq with Some id => negb (Nz id =? dc)%Z | None => false end.

Fixpoint retire_frames_ok (n : nat) (iss : issued) (dc : Z) (out : list Z) : option (list Z) :=
  match n with
  | O => Some out
  | S n => match out with
           | tag :: sq :: rest =>
               if (tag =? 25)%Z && (0 <=? sq)%Z && retire_ok iss dc (zN sq)
               then retire_frames_ok n iss dc rest else None
           | _ => None
           end
  end.

(* the DCID the frames of a transmit op travel with is the one reported after the op (it cannot change in it) *)
Fixpoint jsteps (open : bool) (iss : issued) (ops : list an_op) (out : list Z) : bool :=
  match ops with
  | [] => (length out =? 16)%nat
  | (code0, a, b, c, d) :: t =>
      let code := zmod code0 6 in
      match out with
      | oc :: out =>
        if negb (oc =? Nz code)%Z then false else
        if negb open then
          match out with _ :: _ :: _ :: rest => jsteps open iss t rest | _ => false end
        else
        match code with
        | 1 => match out with
               | rc :: _ :: _ :: rest =>
                   if (rc =? 0)%Z then jsteps true ((varint_clamp a, PID_BASE + zmod c 16) :: iss) t rest
                   else jsteps false iss t rest
               | _ => false end
        | 2 => match out with _ :: _ :: _ :: rest => jsteps open iss t rest | _ => false end
        | 3 => match out with
               | _ :: n :: rest =>
                   if (n <? 0)%Z then false else
                   (* frames, then tx_interest and the DCID in use *)
                   match retire_frames_ok (Z.to_nat n) iss (nth (2 * Z.to_nat n + 1) rest (-5)%Z) rest with
                   | Some (_ :: _ :: rest') => jsteps open iss t rest'
                   | _ => false
                   end
               | _ => false end
        | _ => match out with _ :: _ :: rest => jsteps open iss t rest | _ => false end
        end
      | [] => false
      end
  end.

Definition judge (case out : list Z) : bool :=
  let rest := tl (tl case) in
  jsteps true [(0, PID_BASE)] (ops_of (length rest) rest) out.
