(* C11 models: amplification ledger of a path (quic/s2n-quic-transport/src/path/mod.rs:
   on_bytes_received, on_bytes_transmitted, at_amplification_limit, on_validated,
   clamp_datagram_size), stateless reset sizing (s2n-quic-core/src/packet/stateless_reset.rs:
   encode_packet) and the version negotiation decision (endpoint/version.rs: Negotiator::on_packet).
   Executable definitions only. *)
From SQ Require Import lib.Base gen.Gen_C11.
Local Open Scope N_scope.

Definition two32 : N := 4294967296.
Definition sat_add32 (a b : N) : N := N.min (a + b) u32_max.
Definition sat_sub32 (a b : N) : N := a - b.          (* N subtraction truncates at 0 *)

(* ---------------- amplification ---------------- *)

(* [allow] is State::AmplificationLimited.tx_allowance (a saturating u32); [validated] is
   State::Validated.  The remaining fields are ghost bookkeeping used only by the theorems:
   bytes sent / received while unvalidated, and the overshoot absorbed by the saturating
   subtraction ("forgiven"). *)
Record astate := { validated : bool; allow : N; sent : N; recvd : N; forgiven : N }.

Definition ainit (server : bool) : astate :=
  {| validated := negb server; allow := 0; sent := 0; recvd := 0; forgiven := 0 |}.

Definition at_limit (s : astate) : bool := negb (validated s) && (allow s =? 0).

(* on_bytes_received: tx_allowance += (bytes.saturating_mul(multiplier) as u32) *)
Definition on_recv (s : astate) (n : N) : astate * Z :=
  let was := at_limit s in
  let s' := if validated s then s else
    {| validated := false;
       allow := sat_add32 (allow s) ((n * anti_amplification_multiplier) mod two32);
       sent := sent s; recvd := recvd s + n; forgiven := forgiven s |} in
  let unblocked := was && negb (at_limit s') in
  (s', if unblocked then 2%Z else 0%Z).   (* the driver's path is never the active one *)

(* the transmission path: blocked at the limit; otherwise the datagram is clamped to the
   path's datagram size and on_bytes_transmitted does tx_allowance -= (bytes as u32) *)
Definition on_send (s : astate) (n : N) : astate * Z :=
  if at_limit s || (n =? 0) then (s, 0%Z) else
  let b := N.min n minimum_max_datagram_size in
  let s' := if validated s then s else
    {| validated := false;
       allow := sat_sub32 (allow s) (b mod two32);
       sent := sent s + b; recvd := recvd s;
       forgiven := forgiven s + (b - allow s) |} in
  (s', Nz b).

Definition on_validate (s : astate) : astate :=
  {| validated := true; allow := allow s; sent := sent s; recvd := recvd s; forgiven := forgiven s |}.

(* ops: 0 n = datagram of n bytes received; 1 n = try to send n bytes; 2 = address validated;
   anything else = query.  Output per op: recv -> [outcome; at_limit], send -> [bytes sent; at_limit],
   other -> [at_limit]. *)
Fixpoint arun (fuel : nat) (s : astate) (ops : list Z) : list Z :=
  match fuel with O => [] | S fuel =>
  match ops with
  | [] => []
  | z :: t =>
      if (z =? 0)%Z then
        let '(s', o) := on_recv s (zN (hd 0%Z t)) in o :: bz (at_limit s') :: arun fuel s' (tl t)
      else if (z =? 1)%Z then
        let '(s', o) := on_send s (zN (hd 0%Z t)) in o :: bz (at_limit s') :: arun fuel s' (tl t)
      else if (z =? 2)%Z then
        let s' := on_validate s in bz (at_limit s') :: arun fuel s' t
      else bz (at_limit s) :: arun fuel s t
  end end.

Definition amp_run (case : list Z) : list Z :=
  match case with
  | [] => []
  | srv :: ops => arun (S (length ops)) (ainit (negb (srv =? 0)%Z)) ops
  end.

(* ---- the property as a judgement on an implementation's output ----
   "Until a client's address is validated, a server never starts sending a datagram to it once
   the bytes already sent there have reached three times the bytes received from it."
   The walk keeps, from the case and the implementation's own reported sends: S (bytes sent),
   R (bytes received), and the ledger of the allowance arithmetic with the literal factor 3
   (A = allowance, F = overshoot forgiven so far).
   [known = false]: the literal property.
   [known = true] : every breach of the literal property lies in the recorded known class
                    "a send permitted by a positive allowance not exceeding the forgiven overshoot". *)
Record jstate := { jv : bool; jS : N; jR : N; jA : N; jF : N }.

Definition j_recv (j : jstate) (n : N) : jstate :=
  if jv j then j else
  {| jv := false; jS := jS j; jR := jR j + n;
     jA := sat_add32 (jA j) ((n * 3) mod two32); jF := jF j |}.

Definition j_send (j : jstate) (b : N) : jstate :=
  {| jv := false; jS := jS j + b; jR := jR j;
     jA := sat_sub32 (jA j) (b mod two32); jF := jF j + (b - jA j) |}.

(* is a send of b > 0 bytes acceptable in judgement state j *)
Definition send_ok (known : bool) (j : jstate) : bool :=
  if 3 * jR j <=? jS j                                   (* breach of the literal bound *)
  then (if known then (0 <? jA j) && (jA j <=? jF j) else false)
  else true.

Fixpoint ajudge (known : bool) (fuel : nat) (j : jstate) (ops out : list Z) : bool :=
  match fuel with O => true | S fuel =>
  match ops with
  | [] => match out with [] => true | _ => false end
  | z :: t =>
      if (z =? 0)%Z then
        match out with
        | _ :: _ :: o => ajudge known fuel (j_recv j (zN (hd 0%Z t))) (tl t) o
        | _ => false
        end
      else if (z =? 1)%Z then
        match out with
        | b_ :: _ :: o =>
            if (b_ <? 0)%Z then false else
            if (zN b_ =? 0) || jv j then ajudge known fuel j (tl t) o else
            send_ok known j && ajudge known fuel (j_send j (zN b_)) (tl t) o
        | _ => false
        end
      else if (z =? 2)%Z then
        match out with
        | _ :: o => ajudge known fuel {| jv := true; jS := jS j; jR := jR j; jA := jA j; jF := jF j |} t o
        | _ => false
        end
      else
        match out with
        | _ :: o => ajudge known fuel j t o
        | _ => false
        end
  end end.

Definition jinit (server : bool) : jstate := {| jv := negb server; jS := 0; jR := 0; jA := 0; jF := 0 |}.

Definition amp_judge_with (known : bool) (case out : list Z) : bool :=
  match case with
  | [] => match out with [] => true | _ => false end
  | srv :: ops => ajudge known (S (length ops)) (jinit (negb (srv =? 0)%Z)) ops out
  end.
Definition amp_judge := amp_judge_with false.        (* the property as worded *)
Definition amp_known := amp_judge_with true.         (* breaches only inside the known class *)

(* ---------------- stateless reset sizing ---------------- *)

Definition reset_min_len (tag : N) : N := reset_min_len_without_tag + tag.

(* encode_packet with the random length choice as an oracle [pick lo hi] *)
Definition reset_len (pick : N -> N -> N) (tag trig buf : N) : option N :=
  let min_len := reset_min_len tag in
  let max_len := N.min (trig - reset_trigger_margin) buf in
  if max_len <? min_len then None else
  let ulen := pick (min_len - reset_token_len) (max_len - reset_token_len) in
  Some (ulen + reset_token_len).

(* input [max_tag_len; triggering_len; seed]; the model predicts [packets; min len] *)
Definition reset_run (case : list Z) : list Z :=
  let tag := N.min (zN (nth 0 case 0%Z)) 64 in
  let trig := zN (nth 1 case 0%Z) in
  let sent := match reset_len (fun lo _ => lo) tag trig minimum_max_datagram_size with
              | Some _ => 1%Z | None => 0%Z end in
  [sent; Nz (reset_min_len tag)].

(* property: a stateless reset is strictly smaller than the datagram that caused it *)
Definition reset_judge (case out : list Z) : bool :=
  let trig := nth 1 case 0%Z in
  match out with
  | [0%Z; _] => true
  | [1%Z; _; len; _] => (0 <? len)%Z && (len <? trig)%Z
  | _ => false
  end.

(* ---------------- version negotiation ---------------- *)

(* kinds: 0 short, 1 version negotiation, 2 initial, 3 0-RTT, 4 handshake, 5 retry *)
Definition supported (v : N) : bool := mem_N v supported_versions.

Definition vn_len (dlen slen : N) : N :=
  7 + dlen + slen + 4 * (N.of_nat (length supported_versions) + 1).

(* Negotiator::on_packet for a server: (accepted, version negotiation packets queued) *)
Definition vn_decide (server : bool) (kind version len : N) : bool * bool :=
  if negb server then (true, false) else
  if kind =? 2 then
    if supported version then (true, false)
    else (false, minimum_max_datagram_size <=? len)
  else if kind =? 3 then (supported version, false)
  else (true, false).

(* input [server; kind; version; len; salt; dcid len; scid len];
   output [len; decoded; kind; version seen; accepted; n sent; len sent] *)
Definition vn_run (case : list Z) : list Z :=
  let g i := zN (nth i case 0%Z) in
  let server := negb (g 0%nat =? 0) in
  let kind := g 1%nat in
  let version := g 2%nat mod two32 in
  let len := N.min (g 3%nat) 3000 in
  let dlen := N.min (g 5%nat) 20 in
  let slen := N.min (g 6%nat) 20 in
  let seen := if (kind =? 0) || (kind =? 1) then 0 else version in
  let '(acc, vn) := vn_decide server kind version len in
  [Nz len; 1%Z; Nz kind; Nz seen; bz acc] ++ (if vn then [1%Z; Nz (vn_len dlen slen)] else [0%Z]).

(* property: Version Negotiation is sent only for datagrams of at least 1200 bytes (whose first
   packet is an Initial of an unsupported version), never in reply to Version Negotiation, and
   the reply is not larger than its trigger *)
Definition vn_judge (case out : list Z) : bool :=
  let g i := zN (nth i case 0%Z) in
  let server := negb (g 0%nat =? 0) in
  let kind := g 1%nat in
  let version := g 2%nat mod two32 in
  match out with
  | len :: _ :: _ :: _ :: _ :: n :: sent =>
      if (n =? 0)%Z then match sent with [] => true | _ => false end else
      server && (kind =? 2) && negb (mem_N version [1]) && (1200 <=? len)%Z
      && (n =? 1)%Z && forallb (fun l => (0 <? l)%Z && (l <=? len)%Z) sent
  | _ => false
  end.
