(* C05 component "packets": reference parser for the unprotected part of QUIC packet headers,
   written from RFC 8999 (invariants) and RFC 9000 section 17 (17.2 long headers: Version
   Negotiation, Initial, 0-RTT, Handshake, Retry; 17.3 short header), and the byte codec of
   truncated packet numbers (17.1, A.2/A.3 are C08's).  A datagram may carry several coalesced
   packets (12.2): packets with a Length field are followed by the next packet.
   CHOICE marks deliberate decisions where the RFC leaves freedom. *)
From SQ Require Import lib.Base model.Varint model.Frame.
Import Varint Frame.
Local Open Scope N_scope.

Inductive header :=
| HShort (first : N) (dcid : list N)
| HVersionNeg (first : N) (dcid scid versions : list N)
| HInitial (first version : N) (dcid scid token : list N) (len : N)
| HZeroRtt (first version : N) (dcid scid : list N) (len : N)
| HHandshake (first version : N) (dcid scid : list N) (len : N)
| HRetry (first version : N) (dcid scid token tag : list N).

(* Connection ID Length (8), Connection ID (0..limit*8) *)
Definition p_cid (limit : N) (bs : list N) : option (list N * list N) :=
  let? '(l, bs) := p_byte bs in
  if limit <? l then None else p_take l bs.

Definition p_u32 (bs : list N) : option (N * list N) :=
  let? '(l, bs) := p_take 4 bs in Some (be_acc 0 l, bs).

(* Length (i), then that many bytes of packet number and payload, which are skipped here *)
Definition p_length_body (bs : list N) : option (N * list N) :=
  let? '(len, bs) := vdecode bs in
  let? '(_, bs) := p_take len bs in Some (len, bs).

(* [short_dcid_len]: the length of the connection IDs this endpoint issued (a short header does
   not carry it).  Result: the header and the bytes after this packet *)
Definition pdecode (short_dcid_len : N) (bs : list N) : option (header * list N) :=
  let? '(b, r1) := p_byte bs in
  if b <? 128 then
    (* 17.3.1: Header Form 0, Fixed Bit 1 or the packet is discarded; the packet extends to the
       end of the datagram; version 1 connection IDs are at most 20 bytes *)
    if b <? 64 then None
    else if 20 <? short_dcid_len then None
    else let? '(dcid, _) := p_take short_dcid_len r1 in Some (HShort b dcid, [])
  else
    let? '(ver, r2) := p_u32 r1 in
    if ver =? 0 then
      (* 17.2.1 Version Negotiation: the 7 bits after the form bit are unused.
         CHOICE: connection IDs longer than 20 bytes and an empty or ragged version list are
         rejected (a version 1 client never used such IDs; a list without versions is useless) *)
      let? '(dcid, r3) := p_cid 20 r2 in
      let? '(scid, r4) := p_cid 20 r3 in
      if (N.of_nat (length r4) <? 4) || negb (N.of_nat (length r4) mod 4 =? 0) then None
      else Some (HVersionNeg b dcid scid r4, [])
    else if b <? 192 then None                       (* 17.2: Fixed Bit 0 -> discard *)
    else
      let ty := (b / 16) mod 4 in
      if ty =? 0 then
        (* 17.2.2 Initial.  CHOICE (17.2: "servers SHOULD be able to read longer connection IDs
           from other QUIC versions" to answer with Version Negotiation): the 20 byte limit of
           version 1 is not applied while parsing an Initial; it is applied once the version is
           known to be supported *)
        let? '(dcid, r3) := p_cid 255 r2 in
        let? '(scid, r4) := p_cid 255 r3 in
        let? '(token, r5) := p_lenpref r4 in
        let? '(len, r6) := p_length_body r5 in
        Some (HInitial b ver dcid scid token len, r6)
      else if ty =? 1 then
        let? '(dcid, r3) := p_cid 20 r2 in
        let? '(scid, r4) := p_cid 20 r3 in
        let? '(len, r6) := p_length_body r4 in
        Some (HZeroRtt b ver dcid scid len, r6)
      else if ty =? 2 then
        let? '(dcid, r3) := p_cid 20 r2 in
        let? '(scid, r4) := p_cid 20 r3 in
        let? '(len, r6) := p_length_body r4 in
        Some (HHandshake b ver dcid scid len, r6)
      else
        (* 17.2.5 Retry: token up to the 128-bit integrity tag that ends the datagram;
           17.2.5.2: a zero-length token -> discard *)
        let? '(dcid, r3) := p_cid 20 r2 in
        let? '(scid, r4) := p_cid 20 r3 in
        if N.of_nat (length r4) <=? 16 then None
        else
          let tl := N.of_nat (length r4) - 16 in
          let? '(token, r5) := p_take tl r4 in
          Some (HRetry b ver dcid scid token r5, []).

(* ---------------------------------------------------------------- encode (long headers) *)
Definition cid_enc (c : list N) : list N := N.of_nat (length c) :: c.

(* [body]: packet number and payload bytes; their number is the Length field *)
Definition hencode (h : header) (body : list N) : list N :=
  match h with
  | HShort b dcid => b :: dcid ++ body
  | HVersionNeg b dcid scid vs => b :: be_bytes 4 0 ++ cid_enc dcid ++ cid_enc scid ++ vs
  | HInitial b ver dcid scid token _ =>
      b :: be_bytes 4 ver ++ cid_enc dcid ++ cid_enc scid ++ venc_len token ++ venc_len body
  | HZeroRtt b ver dcid scid _ | HHandshake b ver dcid scid _ =>
      b :: be_bytes 4 ver ++ cid_enc dcid ++ cid_enc scid ++ venc_len body
  | HRetry b ver dcid scid token tag =>
      b :: be_bytes 4 ver ++ cid_enc dcid ++ cid_enc scid ++ token ++ tag
  end.

Definition cid_ok (limit : nat) (c : list N) : bool := wf_bytes c && (length c <=? limit)%nat.

(* header values with a Length field, whose Length is the size of [body] *)
Definition wf_long (h : header) (body : list N) : bool :=
  lok body &&
  match h with
  | HInitial b ver dcid scid token len =>
      (192 <=? b) && (b <? 256) && ((b / 16) mod 4 =? 0) && (1 <=? ver) && (ver <? 4294967296)
      && cid_ok 255 dcid && cid_ok 255 scid && lok token && (len =? N.of_nat (length body))
  | HZeroRtt b ver dcid scid len =>
      (192 <=? b) && (b <? 256) && ((b / 16) mod 4 =? 1) && (1 <=? ver) && (ver <? 4294967296)
      && cid_ok 20 dcid && cid_ok 20 scid && (len =? N.of_nat (length body))
  | HHandshake b ver dcid scid len =>
      (192 <=? b) && (b <? 256) && ((b / 16) mod 4 =? 2) && (1 <=? ver) && (ver <? 4294967296)
      && cid_ok 20 dcid && cid_ok 20 scid && (len =? N.of_nat (length body))
  | _ => false
  end.

(* header values of the packets that end the datagram; [l] is the local connection id length *)
Definition wf_end (l : N) (h : header) : bool :=
  match h with
  | HShort b dcid => (64 <=? b) && (b <? 128) && wf_bytes dcid && (N.of_nat (length dcid) =? l) && (l <=? 20)
  | HVersionNeg b dcid scid vs =>
      (128 <=? b) && (b <? 256) && cid_ok 20 dcid && cid_ok 20 scid
      && (4 <=? N.of_nat (length vs)) && (N.of_nat (length vs) mod 4 =? 0)
  | HRetry b ver dcid scid token tag =>
      (192 <=? b) && (b <? 256) && ((b / 16) mod 4 =? 3) && (1 <=? ver) && (ver <? 4294967296)
      && cid_ok 20 dcid && cid_ok 20 scid && (1 <=? N.of_nat (length token)) && (N.of_nat (length tag) =? 16)
  | _ => false
  end.

(* ---------------------------------------------------------------- truncated packet numbers *)
(* 17.1: the packet number is carried in 1 to 4 bytes, the least significant ones, in network
   byte order; the two low bits of the first byte hold that length minus one *)
Definition pn_bytes (n : nat) (pn : N) : list N := be_bytes n pn.
Definition pn_len_bits (n : nat) : N := N.of_nat n - 1.
Definition pn_value (bs : list N) : N := be_acc 0 bs.

(* ---------------------------------------------------------------- harness protocol *)
Definition render_h (h : header) : list Z :=
  match h with
  | HShort b dcid => [0; Nz b; 0] ++ zdata dcid ++ [0; 0]
  | HVersionNeg b dcid scid vs => [1; Nz b; 0] ++ zdata dcid ++ zdata scid ++ zdata vs
  | HInitial b ver dcid scid token len => [2; Nz b; Nz ver] ++ zdata dcid ++ zdata scid ++ zdata token
  | HZeroRtt b ver dcid scid len => [3; Nz b; Nz ver] ++ zdata dcid ++ zdata scid ++ [0]
  | HHandshake b ver dcid scid len => [4; Nz b; Nz ver] ++ zdata dcid ++ zdata scid ++ [0]
  | HRetry b ver dcid scid token tag => [5; Nz b; Nz ver] ++ zdata dcid ++ zdata scid ++ zdata token ++ zs tag
  end%Z.

(* a datagram is split into packets until it is empty or a packet is malformed.
   None = out of fuel (unreachable: every packet consumes at least one byte) *)
Fixpoint pdecode_all (fuel : nat) (l : N) (bs : list N) : option (list (header * nat) * bool) :=
  match bs with
  | [] => Some ([], true)
  | _ =>
    match fuel with
    | O => None
    | S fuel' =>
        match pdecode l bs with
        | None => Some ([], false)
        | Some (h, rest) =>
            let? '(hs, ok) := pdecode_all fuel' l rest in
            Some ((h, (length bs - length rest)%nat) :: hs, ok)
        end
    end
  end.

Definition render_p (e : header * nat) : list Z :=
  let '(h, consumed) := e in [1%Z] ++ render_h h ++ [Z.of_nat consumed].

(* component "packets": case = short_dcid_len :: datagram bytes
   -> per packet 1, rendering, packet length; then 2 (exhausted) | 0 (malformed) *)
Definition run (case : list Z) : list Z :=
  match case with
  | l :: rest =>
      let bs := map byte_of_z rest in
      match pdecode_all (length bs) (zN l) bs with
      | None => [(-9)%Z]
      | Some (hs, ok) => flat_map render_p hs ++ [if ok then 2%Z else 0%Z]
      end
  | _ => [2%Z]
  end.

Definition judge (case out : list Z) : bool := zlist_eqb out (run case).

(* component "pn": case = [largest acknowledged; packet number].
   The implementation chooses the length (that choice is C08's subject: 2 * (pn - largest) must
   fit); output 1, length n, tag bits, the n bytes, 1 (bytes read back give the same truncated
   value), 1 (expanding against [largest] gives pn back); or 0 when no truncation exists.
   The judgement demands the layout of 17.1 for the announced length: n in 1..4, tag bits n - 1,
   exactly n bytes which are the n least significant bytes of pn in network byte order *)
Definition pn_choice (largest pn : N) : option nat :=
  if pn <? largest then None else
  let v := 2 * (pn - largest) in
  if v <=? 255 then Some 1%nat else if v <=? 65535 then Some 2%nat
  else if v <=? 16777215 then Some 3%nat else if v <=? 4294967295 then Some 4%nat else None.

Definition run_pn (case : list Z) : list Z :=
  let largest := zN (nth 0 case 0%Z) in
  let pn := zN (nth 1 case 0%Z) in
  match pn_choice largest pn with
  | None => [0%Z]
  | Some n => [1%Z; Z.of_nat n; Nz (pn_len_bits n)] ++ zs (pn_bytes n pn) ++ [1%Z; 1%Z]
  end.

Definition judge_pn (case out : list Z) : bool :=
  let pn := zN (nth 1 case 0%Z) in
  match out with
  | [0%Z] => true
  | 1%Z :: n :: tag :: rest =>
      let k := Z.to_nat n in
      (1 <=? n)%Z && (n <=? 4)%Z && (tag =? n - 1)%Z && zlist_eqb rest (zs (pn_bytes k pn) ++ [1%Z; 1%Z])
  | _ => false
  end.
