(* Model of quic/s2n-quic-crypto/src/iv.rs (Iv::nonce): the AEAD nonce is the 12 byte iv XOR the
   packet number, big-endian u64, left-padded with a zero u32.  Executable definitions only. *)
From SQ Require Import lib.Base gen.Gen_C06 model.HeaderProtection.
Local Open Scope N_scope.

(* EncoderBuffer::encode of an unsigned integer: big-endian, n bytes *)
Fixpoint be_bytes (n : nat) (v : N) : list N :=
  match n with
  | O => []
  | S k => be_bytes k (v / 256) ++ [v mod 256]
  end.

(* encoder.encode(&0u32); encoder.encode(&packet_number) *)
Definition padded_pn (pn : N) : list N :=
  be_bytes (N.to_nat nonce_pad_bytes) 0 ++ be_bytes (N.to_nat nonce_pn_bytes) pn.

(* for (a, b) in nonce.iter_mut().zip(self.0.iter()) { *a ^= b } *)
Definition nonce (iv : list N) (pn : N) : list N := xor_mask (padded_pn pn) iv.

Definition nonce_len : nat := N.to_nat (nonce_pad_bytes + nonce_pn_bytes).

(* ---- harness protocol ----
   case = suite :: p :: q :: iv (12) ++ candidate (12) ++ secret bytes
   suite 0 = TLS_AES_128_GCM_SHA256, 1 = TLS_AES_256_GCM_SHA384, 2 = TLS_CHACHA20_POLY1305_SHA256.
   The iv of the case is HKDF-Expand-Label(secret, "quic iv", "", 12), computed by the generator.
   output = iv the implementation derived (12)
            ++ (AES suites: 1 :: nonce used for p (12) ++ [block counter] ++ nonce used for q (12) ++ [block counter]
                -- recovered from the first keystream block -- ; ChaCha20: [0])
            ++ [candidate opens the packet sealed under p; packet sealed under p opens under q] *)
Definition case_iv (c : list Z) : list N := map zN (firstn 12 (skipn 3 c)).
Definition case_cand (c : list Z) : list N := map zN (firstn 12 (skipn 15 c)).

Definition run (c : list Z) : list Z :=
  let suite := nth 0 c 0%Z in
  let p := zN (nth 1 c 0%Z) in
  let q := zN (nth 2 c 0%Z) in
  let iv := case_iv c in
  map Nz iv
  ++ (if (suite <? 2)%Z then 1%Z :: map Nz (nonce iv p) ++ [2%Z] ++ map Nz (nonce iv q) ++ [2%Z] else [0%Z])
  ++ [bz (eqb_list (case_cand c) (nonce iv p)); bz (eqb_list (nonce iv p) (nonce iv q))].

(* the property: different packet numbers never share a nonce, a packet sealed under p opens
   under q exactly when p = q; the nonce is iv XOR padded packet number (RFC 9001 section 5.3) *)
Definition judge (c o : list Z) : bool :=
  let p := zN (nth 1 c 0%Z) in
  let q := zN (nth 2 c 0%Z) in
  let o1 := skipn 12 o in
  match o1 with
  | 1%Z :: t =>
      let np := map zN (firstn 12 t) in
      let nq := map zN (firstn 12 (skipn 13 t)) in
      let r := skipn 26 t in
      Nat.eqb (length t) 28
      && eqb_list np (nonce (case_iv c) p) && eqb_list nq (nonce (case_iv c) q)
      && (if p =? q then true else negb (eqb_list np nq))
      && (nth 1 r 0%Z =? bz (N.eqb p q))%Z
      && (nth 0 r 0%Z =? bz (eqb_list (case_cand c) (nonce (case_iv c) p)))%Z
  | 0%Z :: r =>
      Nat.eqb (length r) 2
      && (nth 1 r 0%Z =? bz (N.eqb p q))%Z
      && (nth 0 r 0%Z =? bz (eqb_list (case_cand c) (nonce (case_iv c) p)))%Z
  | _ => false
  end.

(* ---- consts component: lengths the real cipher suites report (case = suite) ----
   output = AEAD tag length, opening / sealing header protection sample length, NONCE_LEN, mask length *)
Definition aead_tag_len : N := 16.
Definition hp_sample_len : N := 16.
Definition consts_run (c : list Z) : list Z :=
  [Nz aead_tag_len; Nz hp_sample_len; Nz hp_sample_len; Z.of_nat nonce_len; Nz hp_mask_len].
(* the lengths are not part of the property text: the comparison with [consts_run] is the check *)
Definition consts_judge (c o : list Z) : bool := true.
