(* C05 component "varint".
   Part 1: the reference codec for QUIC variable-length integers, written from RFC 9000
           section 16 and the sample decoder of appendix A.1 (not from the Rust).
   Part 2: the implementation-shaped encoder of quic/s2n-quic-core/src/varint/table.rs
           (Entry::read_optimized, Formatted::new + encode) over the generated table rows.
   Part 3: the harness protocol (run / judge). *)
From SQ Require Import lib.Base gen.Gen_C05.
Local Open Scope N_scope.

(* ---------------------------------------------------------------- bytes *)
Definition wf_bytes (bs : list N) : bool := forallb (fun b => b <? 256) bs.

(* big-endian accumulation: v = (v << 8) + next, as in RFC 9000 A.1 *)
Fixpoint be_acc (a : N) (bs : list N) : N :=
  match bs with
  | [] => a
  | b :: t => be_acc (a * 256 + b) t
  end.

(* the n low-order bytes of x in network byte order *)
Fixpoint be_bytes (n : nat) (x : N) : list N :=
  match n with
  | O => []
  | S k => (x / 256 ^ N.of_nat k) mod 256 :: be_bytes k x
  end.

(* ---------------------------------------------------------------- RFC 9000 section 16 *)
(* Table 4: 2MSB 00/01/10/11 -> length 1/2/4/8 *)
Definition vlen (first : N) : nat :=
  match (first / 64)%N with
  | 0%N => 1%nat | 1%N => 2%nat | 2%N => 4%nat | _ => 8%nat
  end.

Definition vlen_of_first (bs : list N) : nat :=
  match bs with [] => 1%nat | b :: _ => vlen b end.

(* A.1 ReadVarint: the length comes from the two most significant bits of the first byte, they
   are masked off, and the remaining length-1 bytes are accumulated *)
Definition vdecode (bs : list N) : option (N * list N) :=
  match bs with
  | [] => None
  | b :: t =>
      let n := vlen b in
      if (length bs <? n)%nat then None
      else Some (be_acc (b mod 64) (firstn (n - 1) t), skipn (n - 1) t)
  end.

(* the smallest of the four lengths whose usable bits hold v (Table 4, column Range) *)
Definition vsize (v : N) : nat :=
  if (v <? 64)%N then 1%nat
  else if (v <? 16384)%N then 2%nat
  else if (v <? 1073741824)%N then 4%nat
  else 8%nat.

(* the two-bit prefix announcing a length *)
Definition vprefix (n : nat) : N :=
  match n with 1%nat => 0 | 2%nat => 1 | 4%nat => 2 | _ => 3 end.

(* encoding on exactly n bytes: prefix in the two most significant bits, value in the rest *)
Definition vencode_n (n : nat) (v : N) : list N :=
  be_bytes n (v + vprefix n * 2 ^ (8 * N.of_nat n - 2)).

Definition vencode (v : N) : list N := vencode_n (vsize v) v.

(* the usable bits of a length *)
Definition vbits (n : nat) : N := 8 * N.of_nat n - 2.
Definition shortest (v : N) (n : nat) : Prop :=
  v < 2 ^ vbits n /\ forall m, In m [1; 2; 4; 8]%nat -> v < 2 ^ vbits m -> (n <= m)%nat.

(* ---------------------------------------------------------------- table.rs, as written *)
Definition two64 : N := 18446744073709551616.
Definition wrap_sub64 (a b : N) : N := (a + two64 - b) mod two64.
Definition shl64 (a s : N) : N := (a * 2 ^ s) mod two64.

(* little-endian host (x86_64 / aarch64, where the check runs): u64::to_be is a byte swap and
   to_ne_bytes lists the least significant byte first *)
Fixpoint le_val (bs : list N) : N :=
  match bs with [] => 0 | b :: t => b + 256 * le_val t end.
Fixpoint le_bytes (n : nat) (x : N) : list N :=
  match n with O => [] | S k => x mod 256 :: le_bytes k (x / 256) end.
Definition to_be (x : N) : N := le_val (be_bytes 8 x).
Definition to_ne_bytes (x : N) : list N := le_bytes 8 x.

Record entry := { two_bit : N; two_bit_be : N; elen : N; usable_bits : N; eshift : N }.

(* Entry::read_optimized: start from the 8-byte row, every row whose max_value bounds x
   overrides, in source order *)
Definition impl_read_optimized (rows : list (N * N * N * N)) (x : N) : entry :=
  fold_left (fun e row =>
      let '(_, l, ub, mx) := row in
      if x <=? mx then
        {| two_bit := wrap_sub64 (two_bit e) 1;
           two_bit_be := wrap_sub64 (two_bit_be e) (to_be (shl64 1 62));
           elen := l; usable_bits := ub; eshift := 62 - ub |}
      else e)
    rows
    {| two_bit := 3; two_bit_be := to_be (shl64 3 62); elen := 8; usable_bits := 62; eshift := 0 |}.

(* Entry::read_rfc, i.e. Table 4 row by row (the Rust compares the two only in debug builds) *)
Definition rfc_entry (x : N) : entry :=
  if x <=? 63 then {| two_bit := 0; two_bit_be := 0; elen := 1; usable_bits := 6; eshift := 56 |}
  else if x <=? 16383 then
    {| two_bit := 1; two_bit_be := to_be (shl64 1 62); elen := 2; usable_bits := 14; eshift := 48 |}
  else if x <=? 1073741823 then
    {| two_bit := 2; two_bit_be := to_be (shl64 2 62); elen := 4; usable_bits := 30; eshift := 32 |}
  else {| two_bit := 3; two_bit_be := to_be (shl64 3 62); elen := 8; usable_bits := 62; eshift := 0 |}.

(* Formatted::new: (shift, two_bit, len) by the same override loop, then
   encoded_be = (x << shift).to_be() | two_bit *)
Definition impl_formatted (rows : list (N * N * N * N)) (x : N) : N * N :=
  let '(sh, tb, l) :=
    fold_left (fun acc row =>
        let '(sh, tb, l) := acc in
        let '(_, l', ub, mx) := row in
        if x <=? mx then (62 - ub, wrap_sub64 tb (to_be (shl64 1 62)), l') else acc)
      rows (0, to_be (shl64 3 62), 8) in
  (N.lor (to_be (shl64 x sh)) tb, l).

(* Formatted::encode: encode_oversized stores all 8 bytes and advances by len,
   encode_maybe_undersized copies the first len bytes: either way the first len bytes *)
Definition impl_formatted_bytes (x : N) : list N :=
  let '(enc, l) := impl_formatted Gen_C05.varint_rows x in
  firstn (N.to_nat l) (to_ne_bytes enc).

(* VarInt::encode_updated(self = placeholder, replacement): Entry::read(placeholder).format(replacement)
   written by encode_maybe_undersized - the replacement on the placeholder's length *)
Definition impl_encode_updated (p r : N) : list N :=
  let e := impl_read_optimized Gen_C05.varint_rows p in
  firstn (N.to_nat (elen e)) (to_ne_bytes (N.lor (to_be (shl64 r (eshift e))) (two_bit_be e))).

(* ---------------------------------------------------------------- harness protocol *)
(* case = kind :: rest
   kind 0: decode the bytes [rest]           -> [1; value; bytes consumed] | [0]
   kind 2: placeholder p, replacement r      -> [n] ++ bytes of encode_updated | [0] when r > p
   kind _: VarInt::new(v), v = head of rest  -> [1; encoding_size; n] ++ bytes (roomy buffer)
                                                ++ [n'] ++ bytes (exact-size buffer)   | [0] *)
Definition byte_of_z (z : Z) : N := zN z mod 256.

Definition run (case : list Z) : list Z :=
  match case with
  | [] => [0%Z]
  | 0%Z :: rest =>
      let bs := map byte_of_z rest in
      match vdecode bs with
      | Some (v, r) => [1%Z; Nz v; Z.of_nat (length bs - length r)]
      | None => [0%Z]
      end
  | 2%Z :: p :: r :: _ =>
      (* encode_updated: the reference is the encoding of r on the length of p's shortest form *)
      if (zN r <=? zN p) && (zN p <=? Gen_C05.max_varint_value) then
        let e := vencode_n (vsize (zN p)) (zN r) in Z.of_nat (length e) :: map Nz e
      else [0%Z]
  | _ :: rest =>
      let v := zN (hd 0%Z rest) in
      if v <=? Gen_C05.max_varint_value then
        let e := map Nz (vencode v) in
        let n := Z.of_nat (length e) in
        [1%Z; Z.of_nat (vsize v); n] ++ e ++ [n] ++ e
      else [0%Z]
  end.

Fixpoint zlist_eqb (a b : list Z) : bool :=
  match a, b with
  | [], [] => true
  | x :: a', y :: b' => Z.eqb x y && zlist_eqb a' b'
  | _, _ => false
  end.

(* the property is agreement with the reference codec: same value and same number of bytes
   consumed (or an error exactly when the reference fails); the unique shortest encoding,
   announced size = emitted size *)
Definition judge (case out : list Z) : bool := zlist_eqb out (run case).
