(* Model of quic/s2n-quic-transport/src/connection/local_id_registry.rs (LocalIdRegistry) together with
   the local id map of connection_id_mapper.rs, driven as harness/h_transport/src/bin/C13.rs (lcid) drives
   the real code.  Connection ids and stateless reset tokens are integers, times are microseconds.
   Executable definitions only; proofs are in proofs/LocalIdsProofs.v. *)
From SQ Require Import lib.Base gen.Gen_C13.
Local Open Scope N_scope.

(* ---------------------------------------------------------------------------------------------- *)
(* registry *)

Inductive status :=
| PIssue | PReissue | PAck (pn : N) | Act | PRetConf (t : option N) | PRemoval (t : N).

Record info := mkI { iid : N; iseq : N; iret : option N; itok : N; ist : status }.
Record reg := mkR { infos : list info; nseq : N; rpt : N; lim : N; rot : bool }.

Definition exp_buf : N := Gen_C13.expiration_buffer_s * 1000000.
Definition gran : N := Gen_C13.k_granularity_ms * 1000.

Definition set_st (i : info) (s : status) : info := mkI (iid i) (iseq i) (iret i) (itok i) s.

Definition is_retired (i : info) : bool :=
  match ist i with PRetConf _ | PRemoval _ => true | _ => false end.
Definition removal_time (i : info) : option N :=
  match ist i with PRetConf t => t | PRemoval t => Some t | _ => None end.
Definition next_change (i : info) : option N :=
  match removal_time i with Some t => Some t | None => iret i end.
(* Timestamp::has_elapsed: compares with the timer granularity added to `now` *)
Definition has_elapsed (t now : N) : bool := t <? now + gran.
Definition is_retire_ready (i : info) (ts : N) : bool :=
  negb (is_retired i) && match iret i with Some t => has_elapsed t ts | None => false end.
Definition is_expired (i : info) (ts : N) : bool :=
  match removal_time i with Some t => has_elapsed t ts | None => false end.
(* transmission interest: 0 none, 1 new data, 2 lost data *)
Definition tx_int (i : info) : N :=
  match ist i with PIssue => 1 | PReissue => 2 | _ => 0 end.
(* Interest::can_transmit under constraint 0 None, 1 RetransmissionOnly, 2 CongestionLimited, 3 AmplificationLimited *)
Definition can_tx (interest constraint : N) : bool :=
  match constraint with
  | 0 => negb (interest =? 0)
  | 1 => interest =? 2
  | _ => false
  end.

Definition active_count (r : reg) : N :=
  N.of_nat (length (filter (fun i => negb (is_retired i)) (infos r))).
(* connection_id_interest: limit - active count (u8 subtraction) *)
Definition interest (r : reg) : N := lim r - active_count r.

Fixpoint min_opt (l : list (option N)) : option N :=
  match l with
  | [] => None
  | None :: t => min_opt t
  | Some x :: t => match min_opt t with None => Some x | Some m => Some (N.min x m) end
  end.
Definition timer (r : reg) : option N := min_opt (map next_change (infos r)).
Definition tx_interest (r : reg) : N := fold_left (fun a i => N.max a (tx_int i)) (infos r) 0.

(* the mapper's local id map: id -> connection index *)
Definition idmap := list (N * nat).
Fixpoint map_get (m : idmap) (id : N) : option nat :=
  match m with
  | [] => None
  | (k, c) :: t => if k =? id then Some c else map_get t id
  end.
Definition map_remove (m : idmap) (id : N) : idmap := filter (fun kc => negb (fst kc =? id)) m.

(* register_connection_id: 0 Ok, 1 ConnectionIdInUse *)
Definition register (r : reg) (m : idmap) (c : nat) (id : N) (expiration : option N) (tok : N)
  : N * reg * idmap :=
  if existsb (fun i => iid i =? id) (infos r) then (1, r, m)
  else match map_get m id with
  | Some _ => (1, r, m)
  | None =>
      let i := mkI id (nseq r) (option_map (fun e => e - exp_buf) expiration) tok PIssue in
      (0, mkR (infos r ++ [i]) (nseq r + 1) (rpt r) (lim r) (rot r), (id, c) :: m)
  end.

(* on_retire_connection_id: 0 Ok, 2 InvalidSequenceNumber *)
Fixpoint retire_in (l : list info) (seq dcid removal : N) : N * list info :=
  match l with
  | [] => (0, [])
  | i :: t =>
      if (match ist i with PRemoval _ => false | _ => true end) && (iseq i =? seq) then
        if iid i =? dcid then (2, l) else (0, set_st i (PRemoval removal) :: t)
      else let '(code, t') := retire_in t seq dcid removal in (code, i :: t')
  end.
Definition on_retire (r : reg) (seq dcid rtt now : N) : N * reg :=
  if nseq r <=? seq then (2, r)
  else let '(code, l) := retire_in (infos r) seq dcid (now + rtt * Gen_C13.rtt_multiplier) in
       (code, mkR l (nseq r) (rpt r) (lim r) (rot r)).

(* on_timeout *)
Definition retire_ready_step (ts : N) (acc : list info * N) (i : info) : list info * N :=
  let '(done, p) := acc in
  if is_retire_ready i ts
  then (done ++ [set_st i (PRetConf (Some (ts + exp_buf)))], N.max p (iseq i + 1))
  else (done ++ [i], p).
Definition on_timeout (r : reg) (m : idmap) (ts : N) : reg * idmap :=
  if match timer r with Some t => has_elapsed t ts | None => false end then
    let '(l, p) := fold_left (retire_ready_step ts) (infos r) ([], rpt r) in
    let gone := filter (fun i => is_expired i ts) l in
    let keep := filter (fun i => negb (is_expired i ts)) l in
    (mkR keep (nseq r) p (lim r) (rot r), fold_left (fun m i => map_remove m (iid i)) gone m)
  else (r, m).

(* on_transmit: frames are (seq, retire_prior_to, id, token); `cap` frames fit into the packet *)
Definition frame := (N * N * N * N)%type.
Fixpoint transmit_in (l : list info) (p constraint cap pn : N) : list info * list frame :=
  match l with
  | [] => ([], [])
  | i :: t =>
      if can_tx (tx_int i) constraint then
        if 0 <? cap then
          let '(t', fs) := transmit_in t p constraint (cap - 1) pn in
          (set_st i (PAck pn) :: t', (iseq i, p, iid i, itok i) :: fs)
        else let '(t', fs) := transmit_in t p constraint cap pn in (i :: t', fs)
      else let '(t', fs) := transmit_in t p constraint cap pn in (i :: t', fs)
  end.
Definition on_transmit (r : reg) (constraint cap pn : N) : reg * list frame :=
  if can_tx (tx_interest r) constraint then
    let '(l, fs) := transmit_in (infos r) (rpt r) constraint cap pn in
    (mkR l (nseq r) (rpt r) (lim r) (rot r), fs)
  else (r, []).

Definition in_range (lo hi p : N) : bool := (lo <=? p) && (p <=? hi).
Definition on_ack (r : reg) (lo hi : N) : reg :=
  mkR (map (fun i => match ist i with
                     | PAck p => if in_range lo hi p then mkI (iid i) (iseq i) (iret i) 0 Act else i
                     | _ => i end) (infos r)) (nseq r) (rpt r) (lim r) (rot r).
Definition on_loss (r : reg) (lo hi : N) : reg :=
  mkR (map (fun i => match ist i with
                     | PAck p => if in_range lo hi p then set_st i PReissue else i
                     | _ => i end) (infos r)) (nseq r) (rpt r) (lim r) (rot r).

(* on_handshake_confirmed -> retire_handshake_connection_id *)
Fixpoint retire_hs (l : list info) : option (list info) :=
  match l with
  | [] => None
  | i :: t =>
      if (iseq i =? 0) && negb (is_retired i)
      then Some (set_st i (PRetConf (option_map (fun x => x + exp_buf) (iret i))) :: t)
      else option_map (cons i) (retire_hs t)
  end.
Definition on_handshake_confirmed (r : reg) : reg :=
  if rot r then
    match retire_hs (infos r) with
    | Some l => mkR l (nseq r) (N.max (rpt r) 1) (lim r) (rot r)
    | None => r
    end
  else r.

Definition set_limit (r : reg) (v : N) : reg :=
  mkR (infos r) (nseq r) (rpt r) (N.min Gen_C13.max_active_connection_id_limit v) (rot r).

(* ---------------------------------------------------------------------------------------------- *)
(* the driver: several connections sharing one mapper *)

Record conn := mkC { creg : option reg; regd : list N; cpn : N; lset : bool }.
Record st := mkS { conns : list conn; idm : idmap; now : N; nids : N }.

Definition T0 : N := 100000000.
Definition ID_BASE : N := 1000.
Definition TOK_BASE : N := 5000.
Definition MAX_STEP : N := 200000000.
Definition MAX_RTT : N := 10000000.
Definition MAX_IDS : N := 40.
Definition min_life : N := Gen_C13.min_lifetime_s * 1000000.
Definition max_life : N := Gen_C13.max_lifetime_s * 1000000.

Definition life (v : Z) : option N :=
  if (v <=? 0)%Z then None else Some (N.min (N.max (zN v) min_life) max_life).
Definition expiry (v : Z) (now : N) : option N := option_map (fun l => now + l) (life v).

Definition zmod (a : Z) (m : Z) : N := zN (a mod m).

Definition new_reg (id tok : N) (expiration : option N) (rotate : bool) : reg :=
  mkR [mkI id 0 (option_map (fun e => e - exp_buf) expiration) tok Act] 1 0
      Gen_C13.initial_active_connection_id_limit rotate.

Definition lookups (s : st) : list Z :=
  map (fun k => match map_get (idm s) (ID_BASE + N.of_nat k) with
                | Some c => Z.of_nat c + 1 | None => 0 end)%Z (seq 0 (N.to_nat (nids s))).

Definition an_op := (Z * Z * Z * Z * Z)%type.
Fixpoint ops_of (fuel : nat) (l : list Z) : list an_op :=
  match fuel with O => [] | S fuel =>
  match l with
  | [] => []
  | code :: t =>
      let c := hd 0%Z t in let t := tl t in
      let a := hd 0%Z t in let t := tl t in
      let b := hd 0%Z t in let t := tl t in
      let d := hd 0%Z t in let t := tl t in
      (code, c, a, b, d) :: ops_of fuel t
  end end.

(* header: nconn, then (rot, life) per connection *)
Fixpoint open_conns (n : nat) (l : list Z) (s : st) : st * list Z :=
  match n with
  | O => (s, l)
  | S n =>
      let rotate := (hd 0 l mod 2 =? 1)%Z in let l := tl l in
      let lf := hd 0%Z l in let l := tl l in
      let id := ID_BASE + nids s in
      let r := new_reg id (TOK_BASE + nids s) (expiry lf (now s)) rotate in
      open_conns n l (mkS (conns s ++ [mkC (Some r) [id] 0 false])
                          ((id, length (conns s)) :: idm s) (now s) (nids s + 1))
  end.

Definition set_conn (s : st) (c : nat) (k : conn) : st :=
  mkS (set_nth c (conns s) k) (idm s) (now s) (nids s).
Definition with_reg (k : conn) (r : reg) : conn := mkC (Some r) (regd k) (cpn k) (lset k).
Definition closed_conn (k : conn) : conn := mkC None (regd k) (cpn k) (lset k).
Definition dummy_conn : conn := mkC None [] 0 false.

Definition close_conn (s : st) (c : nat) (k : conn) (r : reg) : st :=
  mkS (set_nth c (conns s) (closed_conn k))
      (fold_left (fun m i => map_remove m (iid i)) (infos r) (idm s)) (now s) (nids s).

(* register op: n ids one after the other; output (code, id) per attempt *)
Fixpoint register_n (n : nat) (first : bool) (s : st) (c : nat) (k : conn) (r : reg) (a b : Z)
  : st * conn * reg * list Z :=
  match n with
  | O => (s, k, r, [])
  | S n =>
      let slot := nids s in
      let reuse :=
        if first && (0 <? b)%Z then
          let j := zN ((b - 1) mod Z.of_N slot) in
          match map_get (idm s) (ID_BASE + j) with Some _ => Some (ID_BASE + j) | None => None end
        else None in
      let id := match reuse with Some x => x | None => ID_BASE + slot end in
      let '(code, r', m') := register r (idm s) c id (expiry a (now s)) (TOK_BASE + slot) in
      let k' := if code =? 0 then mkC (creg k) (regd k ++ [id]) (cpn k) (lset k) else k in
      let s' := mkS (conns s) m' (now s) (nids s + 1) in
      let '(s'', k'', r'', o) := register_n n false s' c k' r' a b in
      (s'', k'', r'', Nz code :: Nz id :: o)
  end.

Definition frame_out (f : frame) : list Z :=
  let '(sq, p, id, tok) := f in [24%Z; Nz sq; Nz p; Nz id; Nz tok].

Definition obs (s : st) (c : nat) : list Z :=
  match creg (nth c (conns s) dummy_conn) with
  | Some r => [Nz (interest r); match timer r with Some t => Nz t | None => 0%Z end; Nz (tx_interest r)]
  | None => [(-2)%Z; (-2)%Z; (-2)%Z]
  end.

Definition step (s : st) (o : an_op) : st * list Z :=
  let '(code0, c0, a, b, d) := o in
  let code := zmod code0 10 in
  let c := N.to_nat (zmod c0 (Z.of_nat (length (conns s)))) in
  let k := nth c (conns s) dummy_conn in
  let '(s', out) :=
    match creg k with
    | None => (s, [(-2)%Z])
    | Some r =>
      match code with
      | 1 => if lset k then (s, [0%Z])
             else (set_conn s c (mkC (Some (set_limit r (2 + zmod a 7))) (regd k) (cpn k) true), [1%Z])
      | 2 => let want := interest r in
             let maxn := N.max (zmod d 4) 1 in
             let n := N.min (N.min want maxn) (MAX_IDS - nids s) in
             let '(s1, k1, r1, o) := register_n (N.to_nat n) true s c k r a b in
             (set_conn s1 c (with_reg k1 r1), Nz n :: o)
      | 3 => let sq := zmod a 16 in
             let mine := regd k in
             let dcid := if zmod b 4 =? 0
                         then nth (Nat.min (N.to_nat sq) (length mine - 1)) mine 0
                         else nth (N.to_nat ((zmod b 64 - 1) mod N.of_nat (length mine))) mine 0 in
             let rtt := N.min (zN (Z.max d 0)) MAX_RTT in
             let '(rc, r') := on_retire r sq dcid rtt (now s) in
             if rc =? 0 then (set_conn s c (with_reg k r'), [0%Z; Nz dcid])
             else (close_conn s c k r', [Nz rc; Nz dcid])
      | 4 => let '(r', fs) := on_transmit r (zmod a 4) (zmod b 5) (cpn k) in
             (set_conn s c (mkC (Some r') (regd k) (cpn k + 1) (lset k)),
              Nz (cpn k) :: Z.of_nat (length fs) :: flat_map frame_out fs)
      | 5 => let lo := zmod a 64 in
             (set_conn s c (with_reg k (on_ack r lo (lo + zmod b 4))), [])
      | 6 => let lo := zmod a 64 in
             (set_conn s c (with_reg k (on_loss r lo (lo + zmod b 4))), [])
      | 7 => let now' := now s + N.min (zN (Z.max a 0)) MAX_STEP in
             let '(r', m') := on_timeout r (idm s) now' in
             (mkS (set_nth c (conns s) (with_reg k r')) m' now' (nids s), [Nz now'])
      | 8 => (set_conn s c (with_reg k (on_handshake_confirmed r)), [])
      | 9 => (close_conn s c k r, [])
      | _ => (s, [])
      end
    end in
  (s', Nz code :: out ++ obs s' c ++ lookups s').

Fixpoint steps (s : st) (ops : list an_op) : list Z :=
  match ops with
  | [] => []
  | o :: t => let '(s', out) := step s o in out ++ steps s' t
  end.

Definition init (case : list Z) : st * list Z :=
  let nconn := N.to_nat (zmod (hd 0%Z case) 3 + 1) in
  open_conns nconn (tl case) (mkS [] [] T0 0).

Definition run (case : list Z) : list Z :=
  let '(s, rest) := init case in
  lookups s ++ steps s (ops_of (length rest) rest).

(* ---------------------------------------------------------------------------------------------- *)
(* the property as a predicate on an implementation's output, recomputed from the ops alone *)

(* per connection: ids registered in order (index = sequence number) with token and expiry;
   sequence numbers the peer retired; sequence numbers seen in NEW_CONNECTION_ID frames; the peer's limit *)
Record jc := mkJC { jopen : bool; jregd : list (N * N * option N); jret : list N; jem : list N;
                    jlim : N; jlset : bool; jrpt : N; jpn : N }.
(* per id slot: owner connection, sequence number *)
Record js := mkJS { jcs : list jc; jnow : N; jslots : list (option (nat * N)) }.

Definition dummy_jc : jc := mkJC false [] [] [] 2 false 0 0.
Definition set_jc (j : js) (c : nat) (k : jc) : js := mkJS (set_nth c (jcs j) k) (jnow j) (jslots j).

Fixpoint take (n : nat) (l : list Z) : option (list Z * list Z) :=
  match n with
  | O => Some ([], l)
  | S n => match l with
           | [] => None
           | x :: t => match take n t with Some (a, r) => Some (x :: a, r) | None => None end
           end
  end.

(* an id still has to be routed: connection open, not retired by the peer, lifetime not over
   (to within twice the timer granularity) *)
Definition must_route (j : js) (c : nat) (sq : N) : bool :=
  let k := nth c (jcs j) dummy_jc in
  jopen k && negb (mem_N sq (jret k)) &&
  match nth (N.to_nat sq) (jregd k) (0, 0, None) with
  | (_, _, Some e) => jnow j + 2 * gran <=? e
  | (_, _, None) => true
  end.

Fixpoint routed_ok (j : js) (slots : list (option (nat * N))) (look : list Z) : bool :=
  match slots, look with
  | [], [] => true
  | sl :: st, v :: lt =>
      match sl with
      | Some (c, sq) => if must_route j c sq then (v =? Z.of_nat c + 1)%Z else true
      | None => true
      end && routed_ok j st lt
  | _, _ => false
  end.

Definition check_lookups (j : js) (out : list Z) : option (list Z) :=
  match take (length (jslots j)) out with
  | Some (look, rest) => if routed_ok j (jslots j) look then Some rest else None
  | None => None
  end.

(* number of ids issued to the peer (handshake id and every sequence number seen in a frame) that are
   neither below the largest retire_prior_to sent nor retired by the peer *)
Definition unretired_issued (k : jc) : N :=
  N.of_nat (length (filter (fun s => (jrpt k <=? s) && negb (mem_N s (jret k))) (0 :: jem k))).

(* one NEW_CONNECTION_ID frame *)
Definition frame_ok (k : jc) (tag sq p id tok : Z) : option jc :=
  let sqn := zN sq in
  if (tag =? 24)%Z && (1 <=? sq)%Z && (0 <=? p)%Z && (p <=? sq)%Z
     && (N.to_nat sqn <? length (jregd k))%nat
     && match nth (N.to_nat sqn) (jregd k) (0, 0, None) with
        | (i, t, _) => (Nz i =? id)%Z && (Nz t =? tok)%Z end
  then
    let k' := mkJC (jopen k) (jregd k) (jret k) (if mem_N sqn (jem k) then jem k else sqn :: jem k)
                   (jlim k) (jlset k) (N.max (jrpt k) (zN p)) (jpn k) in
    if unretired_issued k' <=? jlim k' then Some k' else None
  else None.

Fixpoint frames_ok (n : nat) (k : jc) (out : list Z) : option (jc * list Z) :=
  match n with
  | O => Some (k, out)
  | S n => match out with
           | tag :: sq :: p :: id :: tok :: rest =>
               match frame_ok k tag sq p id tok with
               | Some k' => frames_ok n k' rest
               | None => None
               end
           | _ => None
           end
  end.

(* ids and tokens registered on one connection are pairwise distinct *)
Fixpoint nodup_N (l : list N) : bool :=
  match l with [] => true | x :: t => negb (mem_N x t) && nodup_N t end.

Fixpoint jregister (n : nat) (j : js) (c : nat) (k : jc) (a : Z) (out : list Z) : option (js * jc * list Z) :=
  match n with
  | O => Some (j, k, out)
  | S n =>
      match out with
      | rc :: id :: rest =>
          let slot := N.of_nat (length (jslots j)) in
          if (rc =? 0)%Z then
            (* an accepted id must be a new value for the endpoint *)
            if (id =? Nz (ID_BASE + slot))%Z then
              let k' := mkJC (jopen k) (jregd k ++ [(ID_BASE + slot, TOK_BASE + slot, expiry a (jnow j))])
                             (jret k) (jem k) (jlim k) (jlset k) (jrpt k) (jpn k) in
              jregister n (mkJS (jcs j) (jnow j) (jslots j ++ [Some (c, N.of_nat (length (jregd k)))])) c k' a rest
            else None
          else jregister n (mkJS (jcs j) (jnow j) (jslots j ++ [None])) c k a rest
      | _ => None
      end
  end.

Definition jstep (j : js) (o : an_op) (out : list Z) : option (js * list Z) :=
  let '(code0, c0, a, b, d) := o in
  let code := zmod code0 10 in
  let c := N.to_nat (zmod c0 (Z.of_nat (length (jcs j)))) in
  let k := nth c (jcs j) dummy_jc in
  match out with
  | oc :: out =>
    if negb (oc =? Nz code)%Z then None else
    let res :=
      if negb (jopen k) then
        match out with (-2)%Z :: rest => Some (j, rest) | _ => None end
      else
      match code with
      | 1 => match out with
             | _ :: rest =>
                 if jlset k then Some (j, rest)
                 else Some (set_jc j c (mkJC (jopen k) (jregd k) (jret k) (jem k) (2 + zmod a 7) true (jrpt k) (jpn k)), rest)
             | _ => None end
      | 2 => match out with
             | n :: rest =>
                 if (n <? 0)%Z then None else
                 match jregister (Z.to_nat n) j c k a rest with
                 | Some (j', k', rest') => Some (set_jc j' c k', rest')
                 | None => None
                 end
             | _ => None end
      | 3 => match out with
             | rc :: _ :: rest =>
                 if (rc =? 0)%Z
                 then Some (set_jc j c (mkJC (jopen k) (jregd k) (zmod a 16 :: jret k) (jem k) (jlim k) (jlset k) (jrpt k) (jpn k)), rest)
                 else Some (set_jc j c (mkJC false (jregd k) (jret k) (jem k) (jlim k) (jlset k) (jrpt k) (jpn k)), rest)
             | _ => None end
      | 4 => match out with
             | _ :: n :: rest =>
                 if (n <? 0)%Z then None else
                 match frames_ok (Z.to_nat n) k rest with
                 | Some (k', rest') => Some (set_jc j c k', rest')
                 | None => None
                 end
             | _ => None end
      | 7 => match out with
             | _ :: rest => Some (mkJS (jcs j) (jnow j + N.min (zN (Z.max a 0)) MAX_STEP) (jslots j), rest)
             | _ => None end
      | 9 => Some (set_jc j c (mkJC false (jregd k) (jret k) (jem k) (jlim k) (jlset k) (jrpt k) (jpn k)), out)
      | _ => Some (j, out)
      end in
    match res with
    | Some (j', rest) =>
        match take 3 rest with
        | Some (_, rest') =>
            match check_lookups j' rest' with Some rest'' => Some (j', rest'') | None => None end
        | None => None
        end
    | None => None
    end
  | [] => None
  end.

Fixpoint jsteps (j : js) (ops : list an_op) (out : list Z) : bool :=
  match ops with
  | [] => match out with [] => true | _ => false end
  | o :: t => match jstep j o out with Some (j', rest) => jsteps j' t rest | None => false end
  end.

Fixpoint jopen_conns (n : nat) (l : list Z) (j : js) : js * list Z :=
  match n with
  | O => (j, l)
  | S n =>
      let l := tl l in
      let lf := hd 0%Z l in let l := tl l in
      let slot := N.of_nat (length (jslots j)) in
      jopen_conns n l (mkJS (jcs j ++ [mkJC true [(ID_BASE + slot, TOK_BASE + slot, expiry lf (jnow j))] [] [] 2 false 0 0])
                            (jnow j) (jslots j ++ [Some (length (jcs j), 0)]))
  end.

Definition judge (case out : list Z) : bool :=
  let nconn := N.to_nat (zmod (hd 0%Z case) 3 + 1) in
  let '(j, rest) := jopen_conns nconn (tl case) (mkJS [] T0 []) in
  match check_lookups j out with
  | Some out' => jsteps j (ops_of (length rest) rest) out'
  | None => false
  end.
