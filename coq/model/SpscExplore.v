(* Executable statement of "no lost wake-up" on states of model/Spsc.v, and a bounded explorer of
   all interleavings of small scenarios that returns a witness schedule when the statement fails.
   The explorer follows the close step order of the source (Spsc.cfg_*, Spsc.code_fixed); it is run by
   the check (component spsc_explore, model only) so that a change of `close` that loses a wake-up is
   reported with a concrete schedule.  Executable definitions only. *)
From SQ Require Import lib.Base gen.Gen_C17.
From SQ Require Import model.Spsc.
Local Open Scope N_scope.

Definition is_idle (p : pc) : bool := match p with Idle => true | _ => false end.

(* the producer is inside a wake() on the receiver's waker that is going to invoke it *)
Definition wake_pending_r (s : st) : bool :=
  match ppc s with
  | Wk k w => wk_targets_r_p k && negb (wk_is_drop k) &&
      match w with
      | W1 => negb (w_reg (rw s)) && negb (w_waking (rw s)) && w_slot (rw s)
      | W2 => w_slot (rw s)
      | W3 tk => tk
      | W4 => true
      end
  | _ => false
  end.
Definition wake_pending_s (s : st) : bool :=
  match cpc s with
  | Wk k w => negb (wk_targets_r_c k) && negb (wk_is_drop k) &&
      match w with
      | W1 => negb (w_reg (sw s)) && negb (w_waking (sw s)) && w_slot (sw s)
      | W2 => w_slot (sw s)
      | W3 tk => tk
      | W4 => true
      end
  | _ => false
  end.

(* parked: the last poll returned Pending, nothing has been started since, no wake-up delivered *)
Definition parked_r (s : st) : bool := is_idle (cpc s) && cparked s && negb (rnotif s).
Definition parked_s (s : st) : bool := is_idle (ppc s) && pparked s && negb (snotif s).

(* on the real shared words: published tail differs from the receiver's head / channel closed *)
Definition nonempty_or_closed (s : st) : bool := negb (is_empty (ch s) (tail s)) || negb (open s).
Definition space_or_closed (cap : N) (s : st) : bool := negb (is_full (head s) (pt s) cap) || negb (open s).

Definition no_lost_wakeup_at (cap : N) (s : st) : bool :=
  implb (parked_r s && nonempty_or_closed s) (wake_pending_r s)
  && implb (parked_s s && space_or_closed cap s) (wake_pending_s s).

(* a pending wake-up is delivered by the waking thread's own next (at most four) steps *)
Definition delivered_r (cap : N) (s : st) : bool :=
  implb (wake_pending_r s) (rnotif (pstep false cap (pstep false cap (pstep false cap (pstep false cap s))))).
Definition delivered_s (cap : N) (s : st) : bool :=
  implb (wake_pending_s s) (snotif (cstep false cap (cstep false cap (cstep false cap (cstep false cap s))))).

Definition p_enabled (y : sys) : bool :=
  match ppc (y_st y) with Idle => match y_pp y with [] => false | _ => true end | Done => false | _ => true end.
Definition c_enabled (y : sys) : bool :=
  match cpc (y_st y) with Idle => match y_cp y with [] => false | _ => true end | Done => false | _ => true end.

(* every interleaving from y (depth-first, no pruning): the predicate holds in every state; also no
   unwritten slot is read, and what was received is what was pushed, in order *)
Fixpoint explore (fuel : nat) (cap : N) (y : sys) : bool :=
  match fuel with
  | O => false
  | S f =>
    let s := y_st y in
    no_lost_wakeup_at cap s && delivered_r cap s && delivered_s cap s && negb (bad s)
    && (if p_enabled y then explore f cap (sys_step false cap y true) else true)
    && (if c_enabled y then explore f cap (sys_step false cap y false) else true)
  end.

(* run a prefix sequentially (producer ops, then consumer ops), then explore *)
Definition after (cap : N) (pp0 : list pop_t) (cp0 : list cop_t) : st :=
  let y1 := fold_left (sys_step false cap) (repeat true 200) (mkSys (init cap) pp0 []) in
  let y2 := fold_left (sys_step false cap) (repeat false 200) (mkSys (y_st y1) [] cp0) in
  y_st y2.

Definition scenario (cap : N) (pp0 : list pop_t) (cp0 : list cop_t) (pp : list pop_t) (cp : list cop_t) : bool :=
  explore 80 cap (mkSys (after cap pp0 cp0) pp cp).


(* the same exploration, returning the first schedule (true = producer step) that reaches a state in
   which a wake-up is lost *)
Fixpoint explore_w (fuel : nat) (cap : N) (y : sys) (acc : list bool) : option (list bool) :=
  match fuel with
  | O => None
  | S f =>
    if negb (no_lost_wakeup_at cap (y_st y)) then Some (rev acc) else
    match (if p_enabled y then explore_w f cap (sys_step code_fixed cap y true) (true :: acc) else None) with
    | Some w => Some w
    | None => if c_enabled y then explore_w f cap (sys_step code_fixed cap y false) (false :: acc) else None
    end
  end.

Definition after_code (cap : N) (pp0 : list pop_t) (cp0 : list cop_t) : st :=
  let y1 := fold_left (sys_step code_fixed cap) (repeat true 200) (mkSys (init cap) pp0 []) in
  let y2 := fold_left (sys_step code_fixed cap) (repeat false 200) (mkSys (y_st y1) [] cp0) in
  y_st y2.

(* component spsc_explore: case = [scenario]; output = [] when every interleaving is fine, otherwise
   1 followed by the witness schedule (1 = producer step, 0 = consumer step).  Scenarios at internal
   capacity 2: 0 drop-sender || receiver-poll (empty), 1 the same with one item queued,
   2 sender-poll on a full queue || drop-receiver, 3 sender-poll on a full queue || pop *)
Definition explore_run (case : list Z) : list Z :=
  let sc := hd 0%Z case in
  let '(pp0, pp, cp) :=
    match sc with
    | 0%Z => ([], [ODropS], [ORPoll 1])
    | 1%Z => ([OPush [1]], [ODropS], [ORPoll 1])
    | 2%Z => ([OPush [1]], [OSPoll [2]], [ODropR])
    | _ => ([OPush [1]], [OSPoll []], [OPop 1])
    end in
  match explore_w 80 2 (mkSys (after_code 2 pp0 []) pp cp) [] with
  | None => []
  | Some w => 1%Z :: map (fun b : bool => if b then 1%Z else 0%Z) w
  end.
Definition explore_judge (case out : list Z) : bool := match out with [] => true | _ => false end.
