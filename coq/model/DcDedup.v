(* C19 component "dedup": the Map-level path
     open::Once / Dedup::check -> map::State::check_dedup -> receiver::State::post_authentication
   (dc/s2n-quic-dc/src/path/secret/{key.rs, map/status.rs, map/state.rs, receiver.rs}).
   A case is a delivery schedule: key ids (indices into the sequentially issued one-shot keys) in
   the order their packets reach the receiving Map.  The Map must answer exactly like the receiver
   state machine of model/DcReceiver.v, so the model and the judgement are DcReceiver's, restricted
   to the one observable the Map-level API offers: the result code of each delivery
   (0 opened, 1 ReplayDefinitelyDetected, 2 ReplayPotentiallyDetected/unknown).
   Executable definitions only. *)
From SQ Require Import lib.Base.
From SQ Require model.DcReceiver.

(* the post-authentication code of each [pre; post; minimum_unseen] triple *)
Fixpoint codes (l : list Z) : list Z :=
  match l with
  | _ :: c :: _ :: t => c :: codes t
  | _ => []
  end.

(* back to the triple layout DcReceiver.judge reads (it only looks at the post code) *)
Fixpoint expand (l : list Z) : list Z :=
  match l with
  | [] => []
  | c :: t => 0%Z :: c :: 0%Z :: expand t
  end.

Definition run (ids : list Z) : list Z := codes (DcReceiver.run ids).

(* the property (each key id opens at most once; every not-yet-seen id inside the window opens)
   on the Map's answers *)
Definition judge (ids out : list Z) : bool := DcReceiver.judge ids (expand out).
