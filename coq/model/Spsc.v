(* Model of quic/s2n-quic-core/src/sync/spsc/{state,send,recv,slice}.rs and of the AtomicWaker
   (atomic-waker 1.1.2, re-exported by sync/primitive.rs) the channel parks its two tasks on.

   Every access to shared memory is one program-counter step of a producer thread or of a
   consumer thread: the Acquire loads of `open`/`head`/`tail`, the Release stores of `head`/`tail`,
   the SeqCst swap in `close`, each compare_exchange / fetch_or / fetch_and / swap of
   AtomicWaker::{register, take}, each access to the waker cell and to a ring slot, and the final
   dealloc.  The system is the interleaving product of the two threads under an arbitrary list of
   thread choices: *sequentially consistent* executions only (DESIGN.md 5.17 "Lim."); the
   `Ordering::*` arguments are tied to the source by gen/Gen_C17.v and props/C17.v (C17_orderings),
   syntactically.

   Executable definitions only; proofs are in proofs/SpscProofs.v. *)
From SQ Require Import lib.Base gen.Gen_C17.
Local Open Scope N_scope.

(* ---------------------------------------------------------------------------------------- *)
(* Cursor arithmetic (state.rs: count, wrap_index, Cursor::{is_full,is_empty,increment_*}).   *)
(* `size` is a power of two, indices are below it, so `x & (size-1)` is `x mod size` and       *)
(* `tail.wrapping_sub(head) & (size-1)` is `(tail + size - head) mod size`.                    *)
(* ---------------------------------------------------------------------------------------- *)
Definition count (h t cap : N) : N := (t + cap - h) mod cap.
Definition is_full (h t cap : N) : bool := count t h cap =? 1.
Definition is_empty (h t : N) : bool := t =? h.
Definition wrap_add (i n cap : N) : N := (i + n) mod cap.

(* State::new: max(capacity + 1, MINIMUM_CAPACITY).next_power_of_two() *)
Fixpoint npow2 (fuel : nat) (p n : N) : N :=
  match fuel with O => p | S f => if n <=? p then p else npow2 f (2 * p) n end.
Definition alloc_cap (c : N) : N := npow2 64 1 (N.max (c + 1) Gen_C17.minimum_capacity).

(* ---------------------------------------------------------------------------------------- *)
(* AtomicWaker: state word = REGISTERING (bit 0) | WAKING (bit 1), plus the waker cell.       *)
(* Each task owns one waker, so the cell is modelled by "occupied or not".                    *)
(* ---------------------------------------------------------------------------------------- *)
Record waker := mkW { w_reg : bool; w_waking : bool; w_slot : bool }.
Definition w_init : waker := mkW false false false.

(* wake() = take() then Waker::wake *)
Inductive wsub := W1 | W2 | W3 (taken : bool) | W4.
(* register() *)
Inductive rsub := R1 | R2 | R3 | R4 | R5 | R6 | R7.

(* one atomic step of take()/wake(); result: new waker, next sub-pc (None = return), whether the
   task's Waker is invoked by this step *)
Definition wake_step (w : waker) (p : wsub) : waker * option wsub * bool :=
  match p with
  | W1 => (* state.fetch_or(WAKING, AcqRel) *)
      if negb (w_reg w) && negb (w_waking w)
      then (mkW (w_reg w) true (w_slot w), Some W2, false)          (* was WAITING: lock acquired *)
      else (mkW (w_reg w) true (w_slot w), None, false)             (* somebody else holds it *)
  | W2 => (* waker cell .take() *)
      (mkW (w_reg w) (w_waking w) false, Some (W3 (w_slot w)), false)
  | W3 tk => (* state.fetch_and(!WAKING, Release) *)
      (mkW (w_reg w) false (w_slot w), if tk then Some W4 else None, false)
  | W4 => (* waker.wake() *)
      (w, None, true)
  end.

Definition reg_step (w : waker) (p : rsub) : waker * option rsub * bool :=
  match p with
  | R1 => (* compare_exchange(WAITING, REGISTERING, Acquire, Acquire) *)
      if negb (w_reg w) && negb (w_waking w) then (mkW true false (w_slot w), Some R2, false)
      else if negb (w_reg w) && w_waking w then (w, Some R7, false)  (* WAKING: wake_by_ref *)
      else (w, None, false)                                           (* concurrent register *)
  | R2 => (* waker cell := Some(waker.clone()) unless it already will_wake *)
      (mkW (w_reg w) (w_waking w) true, Some R3, false)
  | R3 => (* compare_exchange(REGISTERING, WAITING, AcqRel, Acquire) *)
      if w_reg w && negb (w_waking w) then (mkW false false (w_slot w), None, false)
      else (w, Some R4, false)                                        (* REGISTERING | WAKING *)
  | R4 => (* waker cell .take().unwrap() *)
      (mkW (w_reg w) (w_waking w) false, Some R5, false)
  | R5 => (* state.swap(WAITING, AcqRel) *)
      (mkW false false (w_slot w), Some R6, false)
  | R6 => (* waker.wake() *)
      (w, None, true)
  | R7 => (* waker.wake_by_ref() *)
      (w, None, true)
  end.

(* ---------------------------------------------------------------------------------------- *)
(* Program counters (one type for both threads)                                              *)
(* ---------------------------------------------------------------------------------------- *)
(* which call of acquire_capacity / acquire_filled *)
Inductive qk := QTry | QPoll1 | QPoll2 | QItem.
(* its loads: producer Q1 = open, Q2 = head; consumer Q1 = tail, Q2 = open, Q3 = tail again *)
Inductive qsub := Q1 | Q2 | Q3.
(* which call of wake()/take(): persist_{tail,head}; close before / after the swap;
   drop_contents' receiver.take() and sender.take() *)
Inductive wkk := KPersist | KClose1 | KClose2 | KDropR | KDropS.

Inductive pc :=
  | Idle
  | Acq (q : qk) (a : qsub)
  | Reg (r : rsub)
  | Check                     (* loop head of the push / pop loop (local) *)
  | Work                      (* write / take one slot, advance the cached cursor *)
  | Persist                   (* persist_tail / persist_head: compare, Release store *)
  | Wk (k : wkk) (w : wsub)
  | Swap                      (* open.swap(false, SeqCst) *)
  | Drop1 | Drop2 | Drop3     (* drop_contents: load head, load tail, take the filled cells *)
  | Free                      (* dealloc *)
  | Done
  | Rel.                      (* repaired close only: released.swap(true) - last one out frees *)

Record st := mkSt {
  head : N;
  tail : N;
  open : bool;
  slots : list (option N);
  rw : waker;
  sw : waker;
  freed : bool;
  released : bool;
  rnotif : bool;
  snotif : bool;
  rwakes : N;
  swakes : N;
  ppc : pc;
  ph : N;
  pt : N;
  pprev : N;
  pitems : list N;
  pcode : N;
  pout : list N;
  pwas : bool;
  pparked : bool;
  cpc : pc;
  ch : N;
  ct : N;
  cprev : N;
  cwant : N;
  ccode : N;
  cgot : list N;
  cwas : bool;
  cparked : bool;
  pushed : list N;
  received : list N;
  discarded : list N;
  bad : bool;
  uaf : bool;
  npub : N;
  hpub : N;
  phc : N;
  ctc : N
}.
Definition set_head (v : N) (s : st) : st := mkSt v (tail s) (open s) (slots s) (rw s) (sw s) (freed s) (released s) (rnotif s) (snotif s) (rwakes s) (swakes s) (ppc s) (ph s) (pt s) (pprev s) (pitems s) (pcode s) (pout s) (pwas s) (pparked s) (cpc s) (ch s) (ct s) (cprev s) (cwant s) (ccode s) (cgot s) (cwas s) (cparked s) (pushed s) (received s) (discarded s) (bad s) (uaf s) (npub s) (hpub s) (phc s) (ctc s).
Definition set_tail (v : N) (s : st) : st := mkSt (head s) v (open s) (slots s) (rw s) (sw s) (freed s) (released s) (rnotif s) (snotif s) (rwakes s) (swakes s) (ppc s) (ph s) (pt s) (pprev s) (pitems s) (pcode s) (pout s) (pwas s) (pparked s) (cpc s) (ch s) (ct s) (cprev s) (cwant s) (ccode s) (cgot s) (cwas s) (cparked s) (pushed s) (received s) (discarded s) (bad s) (uaf s) (npub s) (hpub s) (phc s) (ctc s).
Definition set_open (v : bool) (s : st) : st := mkSt (head s) (tail s) v (slots s) (rw s) (sw s) (freed s) (released s) (rnotif s) (snotif s) (rwakes s) (swakes s) (ppc s) (ph s) (pt s) (pprev s) (pitems s) (pcode s) (pout s) (pwas s) (pparked s) (cpc s) (ch s) (ct s) (cprev s) (cwant s) (ccode s) (cgot s) (cwas s) (cparked s) (pushed s) (received s) (discarded s) (bad s) (uaf s) (npub s) (hpub s) (phc s) (ctc s).
Definition set_slots (v : list (option N)) (s : st) : st := mkSt (head s) (tail s) (open s) v (rw s) (sw s) (freed s) (released s) (rnotif s) (snotif s) (rwakes s) (swakes s) (ppc s) (ph s) (pt s) (pprev s) (pitems s) (pcode s) (pout s) (pwas s) (pparked s) (cpc s) (ch s) (ct s) (cprev s) (cwant s) (ccode s) (cgot s) (cwas s) (cparked s) (pushed s) (received s) (discarded s) (bad s) (uaf s) (npub s) (hpub s) (phc s) (ctc s).
Definition set_rw (v : waker) (s : st) : st := mkSt (head s) (tail s) (open s) (slots s) v (sw s) (freed s) (released s) (rnotif s) (snotif s) (rwakes s) (swakes s) (ppc s) (ph s) (pt s) (pprev s) (pitems s) (pcode s) (pout s) (pwas s) (pparked s) (cpc s) (ch s) (ct s) (cprev s) (cwant s) (ccode s) (cgot s) (cwas s) (cparked s) (pushed s) (received s) (discarded s) (bad s) (uaf s) (npub s) (hpub s) (phc s) (ctc s).
Definition set_sw (v : waker) (s : st) : st := mkSt (head s) (tail s) (open s) (slots s) (rw s) v (freed s) (released s) (rnotif s) (snotif s) (rwakes s) (swakes s) (ppc s) (ph s) (pt s) (pprev s) (pitems s) (pcode s) (pout s) (pwas s) (pparked s) (cpc s) (ch s) (ct s) (cprev s) (cwant s) (ccode s) (cgot s) (cwas s) (cparked s) (pushed s) (received s) (discarded s) (bad s) (uaf s) (npub s) (hpub s) (phc s) (ctc s).
Definition set_freed (v : bool) (s : st) : st := mkSt (head s) (tail s) (open s) (slots s) (rw s) (sw s) v (released s) (rnotif s) (snotif s) (rwakes s) (swakes s) (ppc s) (ph s) (pt s) (pprev s) (pitems s) (pcode s) (pout s) (pwas s) (pparked s) (cpc s) (ch s) (ct s) (cprev s) (cwant s) (ccode s) (cgot s) (cwas s) (cparked s) (pushed s) (received s) (discarded s) (bad s) (uaf s) (npub s) (hpub s) (phc s) (ctc s).
Definition set_released (v : bool) (s : st) : st := mkSt (head s) (tail s) (open s) (slots s) (rw s) (sw s) (freed s) v (rnotif s) (snotif s) (rwakes s) (swakes s) (ppc s) (ph s) (pt s) (pprev s) (pitems s) (pcode s) (pout s) (pwas s) (pparked s) (cpc s) (ch s) (ct s) (cprev s) (cwant s) (ccode s) (cgot s) (cwas s) (cparked s) (pushed s) (received s) (discarded s) (bad s) (uaf s) (npub s) (hpub s) (phc s) (ctc s).
Definition set_rnotif (v : bool) (s : st) : st := mkSt (head s) (tail s) (open s) (slots s) (rw s) (sw s) (freed s) (released s) v (snotif s) (rwakes s) (swakes s) (ppc s) (ph s) (pt s) (pprev s) (pitems s) (pcode s) (pout s) (pwas s) (pparked s) (cpc s) (ch s) (ct s) (cprev s) (cwant s) (ccode s) (cgot s) (cwas s) (cparked s) (pushed s) (received s) (discarded s) (bad s) (uaf s) (npub s) (hpub s) (phc s) (ctc s).
Definition set_snotif (v : bool) (s : st) : st := mkSt (head s) (tail s) (open s) (slots s) (rw s) (sw s) (freed s) (released s) (rnotif s) v (rwakes s) (swakes s) (ppc s) (ph s) (pt s) (pprev s) (pitems s) (pcode s) (pout s) (pwas s) (pparked s) (cpc s) (ch s) (ct s) (cprev s) (cwant s) (ccode s) (cgot s) (cwas s) (cparked s) (pushed s) (received s) (discarded s) (bad s) (uaf s) (npub s) (hpub s) (phc s) (ctc s).
Definition set_rwakes (v : N) (s : st) : st := mkSt (head s) (tail s) (open s) (slots s) (rw s) (sw s) (freed s) (released s) (rnotif s) (snotif s) v (swakes s) (ppc s) (ph s) (pt s) (pprev s) (pitems s) (pcode s) (pout s) (pwas s) (pparked s) (cpc s) (ch s) (ct s) (cprev s) (cwant s) (ccode s) (cgot s) (cwas s) (cparked s) (pushed s) (received s) (discarded s) (bad s) (uaf s) (npub s) (hpub s) (phc s) (ctc s).
Definition set_swakes (v : N) (s : st) : st := mkSt (head s) (tail s) (open s) (slots s) (rw s) (sw s) (freed s) (released s) (rnotif s) (snotif s) (rwakes s) v (ppc s) (ph s) (pt s) (pprev s) (pitems s) (pcode s) (pout s) (pwas s) (pparked s) (cpc s) (ch s) (ct s) (cprev s) (cwant s) (ccode s) (cgot s) (cwas s) (cparked s) (pushed s) (received s) (discarded s) (bad s) (uaf s) (npub s) (hpub s) (phc s) (ctc s).
Definition set_ppc (v : pc) (s : st) : st := mkSt (head s) (tail s) (open s) (slots s) (rw s) (sw s) (freed s) (released s) (rnotif s) (snotif s) (rwakes s) (swakes s) v (ph s) (pt s) (pprev s) (pitems s) (pcode s) (pout s) (pwas s) (pparked s) (cpc s) (ch s) (ct s) (cprev s) (cwant s) (ccode s) (cgot s) (cwas s) (cparked s) (pushed s) (received s) (discarded s) (bad s) (uaf s) (npub s) (hpub s) (phc s) (ctc s).
Definition set_ph (v : N) (s : st) : st := mkSt (head s) (tail s) (open s) (slots s) (rw s) (sw s) (freed s) (released s) (rnotif s) (snotif s) (rwakes s) (swakes s) (ppc s) v (pt s) (pprev s) (pitems s) (pcode s) (pout s) (pwas s) (pparked s) (cpc s) (ch s) (ct s) (cprev s) (cwant s) (ccode s) (cgot s) (cwas s) (cparked s) (pushed s) (received s) (discarded s) (bad s) (uaf s) (npub s) (hpub s) (phc s) (ctc s).
Definition set_pt (v : N) (s : st) : st := mkSt (head s) (tail s) (open s) (slots s) (rw s) (sw s) (freed s) (released s) (rnotif s) (snotif s) (rwakes s) (swakes s) (ppc s) (ph s) v (pprev s) (pitems s) (pcode s) (pout s) (pwas s) (pparked s) (cpc s) (ch s) (ct s) (cprev s) (cwant s) (ccode s) (cgot s) (cwas s) (cparked s) (pushed s) (received s) (discarded s) (bad s) (uaf s) (npub s) (hpub s) (phc s) (ctc s).
Definition set_pprev (v : N) (s : st) : st := mkSt (head s) (tail s) (open s) (slots s) (rw s) (sw s) (freed s) (released s) (rnotif s) (snotif s) (rwakes s) (swakes s) (ppc s) (ph s) (pt s) v (pitems s) (pcode s) (pout s) (pwas s) (pparked s) (cpc s) (ch s) (ct s) (cprev s) (cwant s) (ccode s) (cgot s) (cwas s) (cparked s) (pushed s) (received s) (discarded s) (bad s) (uaf s) (npub s) (hpub s) (phc s) (ctc s).
Definition set_pitems (v : list N) (s : st) : st := mkSt (head s) (tail s) (open s) (slots s) (rw s) (sw s) (freed s) (released s) (rnotif s) (snotif s) (rwakes s) (swakes s) (ppc s) (ph s) (pt s) (pprev s) v (pcode s) (pout s) (pwas s) (pparked s) (cpc s) (ch s) (ct s) (cprev s) (cwant s) (ccode s) (cgot s) (cwas s) (cparked s) (pushed s) (received s) (discarded s) (bad s) (uaf s) (npub s) (hpub s) (phc s) (ctc s).
Definition set_pcode (v : N) (s : st) : st := mkSt (head s) (tail s) (open s) (slots s) (rw s) (sw s) (freed s) (released s) (rnotif s) (snotif s) (rwakes s) (swakes s) (ppc s) (ph s) (pt s) (pprev s) (pitems s) v (pout s) (pwas s) (pparked s) (cpc s) (ch s) (ct s) (cprev s) (cwant s) (ccode s) (cgot s) (cwas s) (cparked s) (pushed s) (received s) (discarded s) (bad s) (uaf s) (npub s) (hpub s) (phc s) (ctc s).
Definition set_pout (v : list N) (s : st) : st := mkSt (head s) (tail s) (open s) (slots s) (rw s) (sw s) (freed s) (released s) (rnotif s) (snotif s) (rwakes s) (swakes s) (ppc s) (ph s) (pt s) (pprev s) (pitems s) (pcode s) v (pwas s) (pparked s) (cpc s) (ch s) (ct s) (cprev s) (cwant s) (ccode s) (cgot s) (cwas s) (cparked s) (pushed s) (received s) (discarded s) (bad s) (uaf s) (npub s) (hpub s) (phc s) (ctc s).
Definition set_pwas (v : bool) (s : st) : st := mkSt (head s) (tail s) (open s) (slots s) (rw s) (sw s) (freed s) (released s) (rnotif s) (snotif s) (rwakes s) (swakes s) (ppc s) (ph s) (pt s) (pprev s) (pitems s) (pcode s) (pout s) v (pparked s) (cpc s) (ch s) (ct s) (cprev s) (cwant s) (ccode s) (cgot s) (cwas s) (cparked s) (pushed s) (received s) (discarded s) (bad s) (uaf s) (npub s) (hpub s) (phc s) (ctc s).
Definition set_pparked (v : bool) (s : st) : st := mkSt (head s) (tail s) (open s) (slots s) (rw s) (sw s) (freed s) (released s) (rnotif s) (snotif s) (rwakes s) (swakes s) (ppc s) (ph s) (pt s) (pprev s) (pitems s) (pcode s) (pout s) (pwas s) v (cpc s) (ch s) (ct s) (cprev s) (cwant s) (ccode s) (cgot s) (cwas s) (cparked s) (pushed s) (received s) (discarded s) (bad s) (uaf s) (npub s) (hpub s) (phc s) (ctc s).
Definition set_cpc (v : pc) (s : st) : st := mkSt (head s) (tail s) (open s) (slots s) (rw s) (sw s) (freed s) (released s) (rnotif s) (snotif s) (rwakes s) (swakes s) (ppc s) (ph s) (pt s) (pprev s) (pitems s) (pcode s) (pout s) (pwas s) (pparked s) v (ch s) (ct s) (cprev s) (cwant s) (ccode s) (cgot s) (cwas s) (cparked s) (pushed s) (received s) (discarded s) (bad s) (uaf s) (npub s) (hpub s) (phc s) (ctc s).
Definition set_ch (v : N) (s : st) : st := mkSt (head s) (tail s) (open s) (slots s) (rw s) (sw s) (freed s) (released s) (rnotif s) (snotif s) (rwakes s) (swakes s) (ppc s) (ph s) (pt s) (pprev s) (pitems s) (pcode s) (pout s) (pwas s) (pparked s) (cpc s) v (ct s) (cprev s) (cwant s) (ccode s) (cgot s) (cwas s) (cparked s) (pushed s) (received s) (discarded s) (bad s) (uaf s) (npub s) (hpub s) (phc s) (ctc s).
Definition set_ct (v : N) (s : st) : st := mkSt (head s) (tail s) (open s) (slots s) (rw s) (sw s) (freed s) (released s) (rnotif s) (snotif s) (rwakes s) (swakes s) (ppc s) (ph s) (pt s) (pprev s) (pitems s) (pcode s) (pout s) (pwas s) (pparked s) (cpc s) (ch s) v (cprev s) (cwant s) (ccode s) (cgot s) (cwas s) (cparked s) (pushed s) (received s) (discarded s) (bad s) (uaf s) (npub s) (hpub s) (phc s) (ctc s).
Definition set_cprev (v : N) (s : st) : st := mkSt (head s) (tail s) (open s) (slots s) (rw s) (sw s) (freed s) (released s) (rnotif s) (snotif s) (rwakes s) (swakes s) (ppc s) (ph s) (pt s) (pprev s) (pitems s) (pcode s) (pout s) (pwas s) (pparked s) (cpc s) (ch s) (ct s) v (cwant s) (ccode s) (cgot s) (cwas s) (cparked s) (pushed s) (received s) (discarded s) (bad s) (uaf s) (npub s) (hpub s) (phc s) (ctc s).
Definition set_cwant (v : N) (s : st) : st := mkSt (head s) (tail s) (open s) (slots s) (rw s) (sw s) (freed s) (released s) (rnotif s) (snotif s) (rwakes s) (swakes s) (ppc s) (ph s) (pt s) (pprev s) (pitems s) (pcode s) (pout s) (pwas s) (pparked s) (cpc s) (ch s) (ct s) (cprev s) v (ccode s) (cgot s) (cwas s) (cparked s) (pushed s) (received s) (discarded s) (bad s) (uaf s) (npub s) (hpub s) (phc s) (ctc s).
Definition set_ccode (v : N) (s : st) : st := mkSt (head s) (tail s) (open s) (slots s) (rw s) (sw s) (freed s) (released s) (rnotif s) (snotif s) (rwakes s) (swakes s) (ppc s) (ph s) (pt s) (pprev s) (pitems s) (pcode s) (pout s) (pwas s) (pparked s) (cpc s) (ch s) (ct s) (cprev s) (cwant s) v (cgot s) (cwas s) (cparked s) (pushed s) (received s) (discarded s) (bad s) (uaf s) (npub s) (hpub s) (phc s) (ctc s).
Definition set_cgot (v : list N) (s : st) : st := mkSt (head s) (tail s) (open s) (slots s) (rw s) (sw s) (freed s) (released s) (rnotif s) (snotif s) (rwakes s) (swakes s) (ppc s) (ph s) (pt s) (pprev s) (pitems s) (pcode s) (pout s) (pwas s) (pparked s) (cpc s) (ch s) (ct s) (cprev s) (cwant s) (ccode s) v (cwas s) (cparked s) (pushed s) (received s) (discarded s) (bad s) (uaf s) (npub s) (hpub s) (phc s) (ctc s).
Definition set_cwas (v : bool) (s : st) : st := mkSt (head s) (tail s) (open s) (slots s) (rw s) (sw s) (freed s) (released s) (rnotif s) (snotif s) (rwakes s) (swakes s) (ppc s) (ph s) (pt s) (pprev s) (pitems s) (pcode s) (pout s) (pwas s) (pparked s) (cpc s) (ch s) (ct s) (cprev s) (cwant s) (ccode s) (cgot s) v (cparked s) (pushed s) (received s) (discarded s) (bad s) (uaf s) (npub s) (hpub s) (phc s) (ctc s).
Definition set_cparked (v : bool) (s : st) : st := mkSt (head s) (tail s) (open s) (slots s) (rw s) (sw s) (freed s) (released s) (rnotif s) (snotif s) (rwakes s) (swakes s) (ppc s) (ph s) (pt s) (pprev s) (pitems s) (pcode s) (pout s) (pwas s) (pparked s) (cpc s) (ch s) (ct s) (cprev s) (cwant s) (ccode s) (cgot s) (cwas s) v (pushed s) (received s) (discarded s) (bad s) (uaf s) (npub s) (hpub s) (phc s) (ctc s).
Definition set_pushed (v : list N) (s : st) : st := mkSt (head s) (tail s) (open s) (slots s) (rw s) (sw s) (freed s) (released s) (rnotif s) (snotif s) (rwakes s) (swakes s) (ppc s) (ph s) (pt s) (pprev s) (pitems s) (pcode s) (pout s) (pwas s) (pparked s) (cpc s) (ch s) (ct s) (cprev s) (cwant s) (ccode s) (cgot s) (cwas s) (cparked s) v (received s) (discarded s) (bad s) (uaf s) (npub s) (hpub s) (phc s) (ctc s).
Definition set_received (v : list N) (s : st) : st := mkSt (head s) (tail s) (open s) (slots s) (rw s) (sw s) (freed s) (released s) (rnotif s) (snotif s) (rwakes s) (swakes s) (ppc s) (ph s) (pt s) (pprev s) (pitems s) (pcode s) (pout s) (pwas s) (pparked s) (cpc s) (ch s) (ct s) (cprev s) (cwant s) (ccode s) (cgot s) (cwas s) (cparked s) (pushed s) v (discarded s) (bad s) (uaf s) (npub s) (hpub s) (phc s) (ctc s).
Definition set_discarded (v : list N) (s : st) : st := mkSt (head s) (tail s) (open s) (slots s) (rw s) (sw s) (freed s) (released s) (rnotif s) (snotif s) (rwakes s) (swakes s) (ppc s) (ph s) (pt s) (pprev s) (pitems s) (pcode s) (pout s) (pwas s) (pparked s) (cpc s) (ch s) (ct s) (cprev s) (cwant s) (ccode s) (cgot s) (cwas s) (cparked s) (pushed s) (received s) v (bad s) (uaf s) (npub s) (hpub s) (phc s) (ctc s).
Definition set_bad (v : bool) (s : st) : st := mkSt (head s) (tail s) (open s) (slots s) (rw s) (sw s) (freed s) (released s) (rnotif s) (snotif s) (rwakes s) (swakes s) (ppc s) (ph s) (pt s) (pprev s) (pitems s) (pcode s) (pout s) (pwas s) (pparked s) (cpc s) (ch s) (ct s) (cprev s) (cwant s) (ccode s) (cgot s) (cwas s) (cparked s) (pushed s) (received s) (discarded s) v (uaf s) (npub s) (hpub s) (phc s) (ctc s).
Definition set_uaf (v : bool) (s : st) : st := mkSt (head s) (tail s) (open s) (slots s) (rw s) (sw s) (freed s) (released s) (rnotif s) (snotif s) (rwakes s) (swakes s) (ppc s) (ph s) (pt s) (pprev s) (pitems s) (pcode s) (pout s) (pwas s) (pparked s) (cpc s) (ch s) (ct s) (cprev s) (cwant s) (ccode s) (cgot s) (cwas s) (cparked s) (pushed s) (received s) (discarded s) (bad s) v (npub s) (hpub s) (phc s) (ctc s).
Definition set_npub (v : N) (s : st) : st := mkSt (head s) (tail s) (open s) (slots s) (rw s) (sw s) (freed s) (released s) (rnotif s) (snotif s) (rwakes s) (swakes s) (ppc s) (ph s) (pt s) (pprev s) (pitems s) (pcode s) (pout s) (pwas s) (pparked s) (cpc s) (ch s) (ct s) (cprev s) (cwant s) (ccode s) (cgot s) (cwas s) (cparked s) (pushed s) (received s) (discarded s) (bad s) (uaf s) v (hpub s) (phc s) (ctc s).
Definition set_hpub (v : N) (s : st) : st := mkSt (head s) (tail s) (open s) (slots s) (rw s) (sw s) (freed s) (released s) (rnotif s) (snotif s) (rwakes s) (swakes s) (ppc s) (ph s) (pt s) (pprev s) (pitems s) (pcode s) (pout s) (pwas s) (pparked s) (cpc s) (ch s) (ct s) (cprev s) (cwant s) (ccode s) (cgot s) (cwas s) (cparked s) (pushed s) (received s) (discarded s) (bad s) (uaf s) (npub s) v (phc s) (ctc s).
Definition set_phc (v : N) (s : st) : st := mkSt (head s) (tail s) (open s) (slots s) (rw s) (sw s) (freed s) (released s) (rnotif s) (snotif s) (rwakes s) (swakes s) (ppc s) (ph s) (pt s) (pprev s) (pitems s) (pcode s) (pout s) (pwas s) (pparked s) (cpc s) (ch s) (ct s) (cprev s) (cwant s) (ccode s) (cgot s) (cwas s) (cparked s) (pushed s) (received s) (discarded s) (bad s) (uaf s) (npub s) (hpub s) v (ctc s).
Definition set_ctc (v : N) (s : st) : st := mkSt (head s) (tail s) (open s) (slots s) (rw s) (sw s) (freed s) (released s) (rnotif s) (snotif s) (rwakes s) (swakes s) (ppc s) (ph s) (pt s) (pprev s) (pitems s) (pcode s) (pout s) (pwas s) (pparked s) (cpc s) (ch s) (ct s) (cprev s) (cwant s) (ccode s) (cgot s) (cwas s) (cparked s) (pushed s) (received s) (discarded s) (bad s) (uaf s) (npub s) (hpub s) (phc s) v.
Ltac unfold_setters := cbn [set_head set_tail set_open set_slots set_rw set_sw set_freed set_released set_rnotif set_snotif set_rwakes set_swakes set_ppc set_ph set_pt set_pprev set_pitems set_pcode set_pout set_pwas set_pparked set_cpc set_ch set_ct set_cprev set_cwant set_ccode set_cgot set_cwas set_cparked set_pushed set_received set_discarded set_bad set_uaf set_npub set_hpub set_phc set_ctc head tail open slots rw sw freed released rnotif snotif rwakes swakes ppc ph pt pprev pitems pcode pout pwas pparked cpc ch ct cprev cwant ccode cgot cwas cparked pushed received discarded bad uaf npub hpub phc ctc] in *.

Notation "s .> f" := (f s) (at level 45, left associativity, only parsing).

Definition is_some {A} (o : option A) : bool := match o with Some _ => true | None => false end.

(* Waker::wake on the receiver's / sender's task: the executor's "notified" bit and the
   counting waker of the harness *)
Definition notify_r (s : st) : st := s .> set_rnotif true .> set_rwakes (rwakes s + 1).
Definition notify_s (s : st) : st := s .> set_snotif true .> set_swakes (swakes s + 1).

(* steps that dereference the shared header / slots (a store in Persist is handled there) *)
Definition touches (p : pc) : bool :=
  match p with
  | Idle | Check | Done | Persist => false
  | Wk _ W4 => false
  | Reg R6 | Reg R7 => false
  | _ => true
  end.

Inductive ares := AOk | ANo | AClosed.   (* Ok(true) | Ok(false) | Err(ClosedError) *)

(* drop_contents: `for cell in filled.iter() { drop(cell.take()) }` from index i, n cells *)
Fixpoint take_cells (n : nat) (i cap : N) (sl : list (option N)) (acc : list N) (bd : bool)
  : list (option N) * list N * bool :=
  match n with
  | O => (sl, acc, bd)
  | S n' =>
    match nth (N.to_nat i) sl None with
    | Some v => take_cells n' (wrap_add i 1 cap) cap (set_nth (N.to_nat i) sl None) (acc ++ [v]) bd
    | None => take_cells n' (wrap_add i 1 cap) cap sl acc true
    end
  end.

(* take()/wake() on one of the two wakers; KDropR/KDropS drop the taken waker instead of waking *)
Definition wk_targets_r_p (k : wkk) : bool := match k with KDropS => false | _ => true end.
Definition wk_targets_r_c (k : wkk) : bool := match k with KDropR => true | _ => false end.
Definition wk_is_drop (k : wkk) : bool := match k with KDropR | KDropS => true | _ => false end.

Definition do_wk (target_r : bool) (k : wkk) (w : wsub) (s : st) : st * option wsub :=
  let '(wk, nxt, nt) := wake_step (if target_r then rw s else sw s) w in
  let s1 := if target_r then set_rw wk s else set_sw wk s in
  let s2 := if nt then (if target_r then notify_r s1 else notify_s s1) else s1 in
  let nxt' := if wk_is_drop k then match nxt with Some W4 => None | x => x end else nxt in
  (s2, nxt').

(* The step order of `State::close`, read from the source (gen/Gen_C17.v): does the closing side wake
   its peer before `open.swap(false)` / after it.  The current source does all four; the theorems of
   proofs/ are proved for that configuration (they stop compiling otherwise), while `run` and the
   bounded explorer follow whatever the source says. *)
Definition is1 (n : N) : bool := match n with 1 => true | _ => false end.
Definition cfg_pre_s : bool := is1 Gen_C17.close_pre_wake_sender.
Definition cfg_post_s : bool := is1 Gen_C17.close_post_wake_sender.
Definition cfg_pre_r : bool := is1 Gen_C17.close_pre_wake_receiver.
Definition cfg_post_r : bool := is1 Gen_C17.close_post_wake_receiver.

(* ---------------------------------------------------------------------------------------- *)
(* Producer (send.rs)                                                                        *)
(* ---------------------------------------------------------------------------------------- *)
Inductive pop_t := OPush (items : list N) | OSPoll (items : list N) | ODropS.

Definition pbegin (op : pop_t) (s : st) : st :=
  let s := s .> set_pparked false .> set_pcode 0 .> set_pout [] in
  match op with
  | OPush items => s .> set_pitems items .> set_ppc (Acq QTry Q1)                          (* try_slice *)
  | OSPoll items => s .> set_pitems items .> set_snotif false .> set_ppc (Acq QPoll1 Q1)   (* poll_slice *)
  | ODropS => s .> set_pitems [] .> set_ppc (if cfg_pre_s then Wk KClose1 W1 else Swap)                                (* Drop for Sender *)
  end.

Definition p_acq_ret (q : qk) (r : ares) (s : st) : st :=
  match q, r with
  | QItem, AOk => s .> set_ppc Work
  | QItem, ANo => s .> set_pcode 1 .> set_ppc Persist                  (* PushError::Full *)
  | QItem, AClosed => s .> set_pcode 2 .> set_ppc Persist              (* PushError::Closed *)
  | _, AOk => s .> set_pprev (pt s) .> set_ppc Check                   (* SendSlice(&mut self.0, cursor) *)
  | QPoll1, ANo => s .> set_ppc (Reg R1)
  | QPoll2, ANo => s .> set_pcode 3 .> set_pparked true .> set_ppc Idle   (* Poll::Pending *)
  | QTry, ANo => s .> set_pcode 3 .> set_ppc Idle                      (* Ok(None) *)
  | _, AClosed => s .> set_pcode 4 .> set_ppc Idle                     (* Err(ClosedError) *)
  end.

Definition pstep (fx : bool) (cap : N) (s0 : st) : st :=
  let s := s0 .> set_uaf (uaf s0 || (freed s0 && touches (ppc s0))) in
  match ppc s with
  | Idle | Done => s
  (* acquire_capacity *)
  | Acq q Q1 => if open s then s .> set_ppc (Acq q Q2) else p_acq_ret q AClosed s     (* open.load(Acquire) *)
  | Acq q _ =>
      let s1 := s .> set_ph (head s) .> set_phc (hpub s) in                           (* head.load(Acquire) *)
      if is_full (ph s1) (pt s1) cap then p_acq_ret q ANo s1 else p_acq_ret q AOk s1
  (* self.0.sender.register(cx.waker()) *)
  | Reg r =>
      let '(w, nxt, nt) := reg_step (sw s) r in
      let s1 := s .> set_sw w in
      let s2 := if nt then notify_s s1 else s1 in
      match nxt with
      | Some r' => s2 .> set_ppc (Reg r')
      | None => s2 .> set_ppc (Acq QPoll2 Q1)
      end
  (* SendSlice::push, once per item *)
  | Check =>
      match pitems s with
      | [] => s .> set_ppc Persist
      | _ :: _ => if is_full (ph s) (pt s) cap then s .> set_ppc (Acq QItem Q1) else s .> set_ppc Work
      end
  | Work =>
      match pitems s with
      | [] => s .> set_ppc Persist
      | v :: r =>
          s .> set_slots (set_nth (N.to_nat (pt s)) (slots s) (Some v))               (* pair.write(0, value) *)
            .> set_pt (wrap_add (pt s) 1 cap)                                         (* increment_tail(1) *)
            .> set_pitems r .> set_pout (pout s ++ [v]) .> set_pushed (pushed s ++ [v])
            .> set_ppc Check
      end
  (* Drop for SendSlice: persist_tail(prev) *)
  | Persist =>
      if pprev s =? pt s then s .> set_ppc Idle
      else s .> set_uaf (uaf s || freed s)
             .> set_tail (pt s) .> set_npub (N.of_nat (length (pushed s)))            (* tail.store(Release) *)
             .> set_ppc (Wk KPersist W1)
  | Wk k w =>
      let '(s2, nxt) := do_wk (wk_targets_r_p k) k w s in
      match nxt with
      | Some w' => s2 .> set_ppc (Wk k w')
      | None =>
          match k with
          | KPersist => s2 .> set_ppc Idle
          | KClose1 => s2 .> set_ppc Swap
          | KClose2 => if fx then s2 .> set_ppc Rel else if pwas s then s2 .> set_ppc Done else s2 .> set_ppc Drop1
          | KDropR => s2 .> set_ppc (Wk KDropS W1)
          | KDropS => s2 .> set_ppc Free
          end
      end
  | Swap =>                                                                     (* open.swap(false, SeqCst) *)
      let w := if fx then pwas s else open s in
      s .> set_pwas w .> set_open false
        .> set_ppc (if cfg_post_s then Wk KClose2 W1 else if fx then Rel else if w then Done else Drop1)
  | Drop1 => s .> set_ph (head s) .> set_phc (hpub s) .> set_ppc Drop2
  | Drop2 => s .> set_pt (tail s) .> set_ppc Drop3
  | Drop3 =>
      let '(sl, acc, bd) := take_cells (N.to_nat (count (ph s) (pt s) cap)) (ph s) cap (slots s) (discarded s) (bad s) in
      s .> set_slots sl .> set_discarded acc .> set_bad bd .> set_ppc (Wk KDropR W1)
  | Free => s .> set_freed true .> set_ppc Done
  (* repaired close: `let is_last = released.swap(true, SeqCst)`; was := not is_last *)
  | Rel => s .> set_pwas (negb (released s)) .> set_released true .> set_ppc (if released s then Drop1 else Done)
  end.

(* ---------------------------------------------------------------------------------------- *)
(* Consumer (recv.rs)                                                                        *)
(* ---------------------------------------------------------------------------------------- *)
Inductive cop_t := OPop (k : N) | ORPoll (k : N) | ODropR.

Definition cbegin (op : cop_t) (s : st) : st :=
  let s := s .> set_cparked false .> set_ccode 0 .> set_cgot [] in
  match op with
  | OPop k => s .> set_cwant k .> set_cpc (Acq QTry Q1)
  | ORPoll k => s .> set_cwant k .> set_rnotif false .> set_cpc (Acq QPoll1 Q1)
  | ODropR => s .> set_cwant 0 .> set_cpc (if cfg_pre_r then Wk KClose1 W1 else Swap)
  end.

Definition c_acq_ret (q : qk) (r : ares) (s : st) : st :=
  match q, r with
  | QItem, AOk => s .> set_cpc Work
  | QItem, _ => s .> set_ccode 1 .> set_cpc Persist                    (* pop() = None *)
  | _, AOk => s .> set_cprev (ch s) .> set_cpc Check                   (* RecvSlice(&mut self.0, cursor) *)
  | QPoll1, ANo => s .> set_cpc (Reg R1)
  | QPoll2, ANo => s .> set_ccode 3 .> set_cparked true .> set_cpc Idle   (* Poll::Pending *)
  | QTry, ANo => s .> set_ccode 3 .> set_cpc Idle                      (* Ok(None) *)
  | _, AClosed => s .> set_ccode 4 .> set_cpc Idle                     (* Err(ClosedError) *)
  end.

Definition cstep (fx : bool) (cap : N) (s0 : st) : st :=
  let s := s0 .> set_uaf (uaf s0 || (freed s0 && touches (cpc s0))) in
  match cpc s with
  | Idle | Done => s
  (* acquire_filled *)
  | Acq q Q1 =>
      let s1 := s .> set_ct (tail s) .> set_ctc (npub s) in                           (* tail.load(Acquire) *)
      if is_empty (ch s1) (ct s1) then s1 .> set_cpc (Acq q Q2) else c_acq_ret q AOk s1
  | Acq q Q2 => if open s then c_acq_ret q ANo s else s .> set_cpc (Acq q Q3)         (* open.load(Acquire) *)
  | Acq q Q3 =>
      let s1 := s .> set_ct (tail s) .> set_ctc (npub s) in                           (* tail.load(Acquire) *)
      if is_empty (ch s1) (ct s1) then c_acq_ret q AClosed s1 else c_acq_ret q AOk s1
  (* self.0.receiver.register(cx.waker()) *)
  | Reg r =>
      let '(w, nxt, nt) := reg_step (rw s) r in
      let s1 := s .> set_rw w in
      let s2 := if nt then notify_r s1 else s1 in
      match nxt with
      | Some r' => s2 .> set_cpc (Reg r')
      | None => s2 .> set_cpc (Acq QPoll2 Q1)
      end
  (* RecvSlice::pop, once per requested item *)
  | Check =>
      if cwant s =? 0 then s .> set_cpc Persist
      else if is_empty (ch s) (ct s) then s .> set_cpc (Acq QItem Q1) else s .> set_cpc Work
  | Work =>
      let o := nth (N.to_nat (ch s)) (slots s) None in
      let v := match o with Some v => v | None => 0 end in
      s .> set_bad (bad s || negb (is_some o))
        .> set_slots (set_nth (N.to_nat (ch s)) (slots s) None)                       (* pair.take(0) *)
        .> set_ch (wrap_add (ch s) 1 cap)                                             (* increment_head(1) *)
        .> set_cwant (cwant s - 1) .> set_cgot (cgot s ++ [v]) .> set_received (received s ++ [v])
        .> set_cpc Check
  (* Drop for RecvSlice: persist_head(prev) *)
  | Persist =>
      if cprev s =? ch s then s .> set_cpc Idle
      else s .> set_uaf (uaf s || freed s)
             .> set_head (ch s) .> set_hpub (N.of_nat (length (received s)))          (* head.store(Release) *)
             .> set_cpc (Wk KPersist W1)
  | Wk k w =>
      let '(s2, nxt) := do_wk (wk_targets_r_c k) k w s in
      match nxt with
      | Some w' => s2 .> set_cpc (Wk k w')
      | None =>
          match k with
          | KPersist => s2 .> set_cpc Idle
          | KClose1 => s2 .> set_cpc Swap
          | KClose2 => if fx then s2 .> set_cpc Rel else if cwas s then s2 .> set_cpc Done else s2 .> set_cpc Drop1
          | KDropR => s2 .> set_cpc (Wk KDropS W1)
          | KDropS => s2 .> set_cpc Free
          end
      end
  | Swap =>
      let w := if fx then cwas s else open s in
      s .> set_cwas w .> set_open false
        .> set_cpc (if cfg_post_r then Wk KClose2 W1 else if fx then Rel else if w then Done else Drop1)
  | Drop1 => s .> set_ch (head s) .> set_cpc Drop2
  | Drop2 => s .> set_ct (tail s) .> set_ctc (npub s) .> set_cpc Drop3
  | Drop3 =>
      let '(sl, acc, bd) := take_cells (N.to_nat (count (ch s) (ct s) cap)) (ch s) cap (slots s) (discarded s) (bad s) in
      s .> set_slots sl .> set_discarded acc .> set_bad bd .> set_cpc (Wk KDropR W1)
  | Free => s .> set_freed true .> set_cpc Done
  | Rel => s .> set_cwas (negb (released s)) .> set_released true .> set_cpc (if released s then Drop1 else Done)
  end.

(* ---------------------------------------------------------------------------------------- *)
(* The system: interleaving product under an arbitrary schedule                              *)
(* ---------------------------------------------------------------------------------------- *)
Definition init (cap : N) : st :=
  mkSt 0 0 true (repeat None (N.to_nat cap)) w_init w_init false false
       false false 0 0
       Idle 0 0 0 [] 0 [] true false
       Idle 0 0 0 0 0 [] true false
       [] [] [] false false
       0 0 0 0.

Record sys := mkSys { y_st : st; y_pp : list pop_t; y_cp : list cop_t }.

(* thread choice: true = producer, false = consumer.  An idle thread starts its next operation
   (a local step); a thread that has dropped its side stays Done. *)
Definition sys_step (fx : bool) (cap : N) (y : sys) (t : bool) : sys :=
  let s := y_st y in
  if t then
    match ppc s with
    | Idle => match y_pp y with
              | [] => y
              | op :: r => mkSys (pbegin op s) r (y_cp y)
              end
    | _ => mkSys (pstep fx cap s) (y_pp y) (y_cp y)
    end
  else
    match cpc s with
    | Idle => match y_cp y with
              | [] => y
              | op :: r => mkSys (cbegin op s) (y_pp y) r
              end
    | _ => mkSys (cstep fx cap s) (y_pp y) (y_cp y)
    end.

Definition exec (fx : bool) (cap : N) (sched : list bool) (pp : list pop_t) (cp : list cop_t) : sys :=
  fold_left (sys_step fx cap) sched (mkSys (init cap) pp cp).

(* ---------------------------------------------------------------------------------------- *)
(* Operation-granularity run for the correspondence harness                                  *)
(* ---------------------------------------------------------------------------------------- *)
(* which close the source has: 0 = the first side to swap `open` decides (current code),
   1 = `released.swap(true)` at the end of close, last one out frees (candidate repair) *)
Definition code_fixed : bool := Gen_C17.close_last_out_frees =? 1.

Definition quiet (p : pc) : bool := match p with Idle | Done => true | _ => false end.

Fixpoint p_run (fx : bool) (fuel : nat) (cap : N) (s : st) : st :=
  match fuel with O => s | S f => if quiet (ppc s) then s else p_run fx f cap (pstep fx cap s) end.
Fixpoint c_run (fx : bool) (fuel : nat) (cap : N) (s : st) : st :=
  match fuel with O => s | S f => if quiet (cpc s) then s else c_run fx f cap (cstep fx cap s) end.

Fixpoint seqN (start : N) (n : nat) : list N :=
  match n with O => [] | S k => start :: seqN (start + 1) k end.

Definition is_done (p : pc) : bool := match p with Done => true | _ => false end.
Definition is_idle_pc (p : pc) : bool := match p with Idle => true | _ => false end.

Definition out_p (s : st) : list Z :=
  if quiet (ppc s)
  then Nz (pcode s) :: Z.of_nat (length (pout s)) :: map Nz (pout s) ++ [Nz (rwakes s); Nz (swakes s)]
  else [(-2)%Z].
Definition out_c (s : st) : list Z :=
  if quiet (cpc s)
  then Nz (ccode s) :: Z.of_nat (length (cgot s)) :: map Nz (cgot s) ++ [Nz (rwakes s); Nz (swakes s)]
  else [(-2)%Z].
Definition out_skip (s : st) : list Z := [9%Z; 0%Z; Nz (rwakes s); Nz (swakes s)].

(* case = [capacity; op; arg; op; arg; ...]
   op 0 = try_slice + push arg items     1 = poll_slice + push arg items      4 = drop the sender
      2 = try_slice + pop arg items      3 = poll_slice + pop arg items       5 = drop the receiver
   items are the sequence numbers 1, 2, ... ; output per op: code, n, the n values transferred,
   cumulative wake counts of the receiver's and of the sender's waker.
   code: 0 all transferred; 1 stopped early (Full / None); 2 push hit Closed; 3 Ok(None) / Pending;
         4 Err(Closed); 9 side already dropped.
   trailer: -1, then the values freed by the channel when both sides are gone, then the wake counts *)
Definition max_k : N := 200.

(* Inline mode (op 6): the sender task's waker polls the sender (poll_slice, nothing pushed) from
   inside wake().  This is a legitimate single-threaded schedule at finer-than-operation granularity:
   the sender's poll runs between two atomic steps of the consumer's operation, exactly where the
   waker is invoked.  The model does the same: after a consumer step that invoked the sender's waker,
   the producer runs one whole poll.  Returned: number of inline polls, the last one's code and the
   sender wake count at that moment. *)
Fixpoint c_run_inl (fuel : nat) (cap : N) (s : st) (n code swk : N) : st * (N * N * N) :=
  match fuel with
  | O => (s, (n, code, swk))
  | S f =>
    if quiet (cpc s) then (s, (n, code, swk)) else
    let s1 := cstep code_fixed cap s in
    if (swakes s <? swakes s1) && is_idle_pc (ppc s1)
    then let s2 := p_run code_fixed 64 cap (pbegin (OSPoll []) s1) in
         c_run_inl f cap s2 (n + 1) (pcode s2) (swakes s2)
    else c_run_inl f cap s1 n code swk
  end.

Definition do_op (cap : N) (inl : bool) (op arg : Z) (s : st) : st * list Z :=
  let k := N.min (zN arg) max_k in
  let fuel := (6 * N.to_nat k + 64)%nat in
  match op with
  | 0%Z | 1%Z | 4%Z =>
      if is_done (ppc s) then (s, out_skip s) else
      let o := match op with
               | 0%Z => OPush (seqN (1 + N.of_nat (length (pushed s))) (N.to_nat k))
               | 1%Z => OSPoll (seqN (1 + N.of_nat (length (pushed s))) (N.to_nat k))
               | _ => ODropS
               end in
      let s' := p_run code_fixed fuel cap (pbegin o s) in (s', out_p s')
  | _ =>
      if is_done (cpc s) then (s, out_skip s ++ (if inl then [0%Z; 0%Z; 0%Z] else [])) else
      let o := match op with
               | 2%Z => OPop k
               | 3%Z => ORPoll k
               | _ => ODropR
               end in
      if inl then
        let '(s', (n, code, swk)) := c_run_inl fuel cap (cbegin o s) 0 0 0 in
        (s', out_c s' ++ [Nz n; Nz code; Nz swk])
      else
        let s' := c_run code_fixed fuel cap (cbegin o s) in (s', out_c s')
  end.

Fixpoint run_ops (fuel : nat) (cap : N) (ops : list Z) (inl : bool) (s : st) : st * list Z :=
  match fuel with O => (s, []) | S f =>
  match ops with
  | [] => (s, [])
  | op :: r =>
      let arg := hd 0%Z r in
      if (6 <=? op)%Z then
        (* op 6: switch the sender's waker to inline polling (arg <> 0) or back to counting *)
        let '(s2, o2) := run_ops f cap (tl r) (negb (arg =? 0)%Z) s in
        (s2, 0%Z :: 0%Z :: Nz (rwakes s) :: Nz (swakes s) :: o2)
      else
      let '(s1, o1) := do_op cap inl op arg s in
      let '(s2, o2) := run_ops f cap (tl r) inl s1 in (s2, o1 ++ o2)
  end end.

Definition norm_cap (c : Z) : N := N.min (zN c) 128.

Definition run (case : list Z) : list Z :=
  let c := norm_cap (hd 0%Z case) in
  let cap := alloc_cap c in
  let '(s1, o1) := run_ops (S (length case)) cap (tl case) false (init cap) in
  (* the harness finally drops the sender, then the receiver *)
  let s2 := if is_done (ppc s1) then s1 else p_run code_fixed 64 cap (pbegin ODropS s1) in
  let s3 := if is_done (cpc s2) then s2 else c_run code_fixed 64 cap (cbegin ODropR s2) in
  o1 ++ (-1)%Z :: Z.of_nat (length (discarded s3)) :: map Nz (discarded s3) ++ [Nz (rwakes s3); Nz (swakes s3)].

(* ---------------------------------------------------------------------------------------- *)
(* The property as an executable predicate on an implementation's output for a case          *)
(* ---------------------------------------------------------------------------------------- *)
Fixpoint is_prefix (a b : list Z) : bool :=
  match a, b with
  | [], _ => true
  | x :: a', y :: b' => (x =? y)%Z && is_prefix a' b'
  | _ :: _, [] => false
  end.

Fixpoint insert_z (x : Z) (l : list Z) : list Z :=
  match l with [] => [x] | y :: t => if (x <=? y)%Z then x :: l else y :: insert_z x t end.
Definition sort_z (l : list Z) : list Z := fold_right insert_z [] l.

Fixpoint eq_zs (a b : list Z) : bool :=
  match a, b with
  | [], [] => true
  | x :: a', y :: b' => (x =? y)%Z && eq_zs a' b'
  | _, _ => false
  end.

Record jst := mkJ {
  j_pushed : list Z;          (* values the sender side reported as pushed, in order *)
  j_popped : list Z;          (* values the receiver side reported as popped, in order *)
  j_wait_r : option Z;        (* receiver's last poll was Pending: its wake count then *)
  j_wait_s : option Z;
  j_sdone : bool; j_rdone : bool
}.

(* split n values off the output *)
Definition take_vals (n : Z) (out : list Z) : option (list Z * list Z) :=
  if (n <? 0)%Z then None else
  let k := Z.to_nat n in
  if (length out <? k)%nat then None else Some (firstn k out, skipn k out).

Definition woken (w : option Z) (now : Z) : bool :=
  match w with None => true | Some w0 => (w0 <? now)%Z end.

(* one operation's output [code; n; vals; rwakes; swakes] judged against the history *)
Definition judge_op (c : Z) (inl : bool) (op : Z) (j : jst) (out : list Z) : option (jst * list Z) :=
  match out with
  | code :: n :: rest =>
    match take_vals n rest with
    | Some (vals, rwk :: swk :: rest0) =>
      (* in inline mode every consumer-side operation also reports: number of inline sender polls,
         the last one's code, and the sender wake count at that moment *)
      let consumer_side := negb ((op =? 0) || (op =? 1) || (op =? 4))%Z in
      let '(n_inl, l_code, l_swk, rest', wf) :=
        if inl && consumer_side then
          match rest0 with
          | a :: b :: d :: r' => (a, b, d, r', true)
          | _ => (0%Z, 0%Z, 0%Z, rest0, false)
          end
        else (0%Z, 0%Z, 0%Z, rest0, true) in
      if negb wf then None else
      if (code =? 9)%Z then Some (j, rest') else
      (* a sender that polled Pending inline, before the event of this operation (space appeared / the
         channel was closed) was published, must have been woken after that poll *)
      let inl_pending := (0 <? n_inl)%Z && (l_code =? 3)%Z in
      let inl_wait (w : option Z) : option Z :=
        if (0 <? n_inl)%Z then (if (l_code =? 3)%Z then Some l_swk else None) else w in
      match op with
      | 0%Z | 1%Z =>
          let pushed' := j_pushed j ++ vals in
          (* a sender that was told to wait is not waiting any more; a waiting receiver must have been
             woken by the end of an operation that made the queue non-empty *)
          let ok_wake := match vals with [] => true | _ => woken (j_wait_r j) rwk end in
          let wait_r' := match vals with [] => j_wait_r j | _ => None end in
          (* Pending is only legitimate while at least `c` items are in flight and the peer is there *)
          let pending := (op =? 1)%Z && (code =? 3)%Z in
          let ok_pending := negb pending ||
               ((c <=? Z.of_nat (length (j_pushed j)) - Z.of_nat (length (j_popped j)))%Z && negb (j_rdone j)) in
          if ok_wake && ok_pending
          then Some (mkJ pushed' (j_popped j) wait_r' (if pending then Some swk else None) (j_sdone j) (j_rdone j), rest')
          else None
      | 4%Z =>
          if woken (j_wait_r j) rwk
          then Some (mkJ (j_pushed j) (j_popped j) None None true (j_rdone j), rest')
          else None
      | 2%Z | 3%Z =>
          let popped' := j_popped j ++ vals in
          let ok_fifo := is_prefix popped' (j_pushed j) in
          let ok_wake := match vals with [] => true | _ => woken (j_wait_s j) swk end in
          let wait_s' := match vals with [] => j_wait_s j | _ => None end in
          let pending := (op =? 3)%Z && (code =? 3)%Z in
          let ok_pending := negb pending ||
               ((length (j_pushed j) =? length popped')%nat && negb (j_sdone j)) in
          let ok_inl := match vals with [] => true | _ => negb inl_pending || (l_swk <? swk)%Z end in
          if ok_fifo && ok_wake && ok_pending && ok_inl
          then Some (mkJ (j_pushed j) popped' (if pending then Some rwk else None) (inl_wait wait_s') (j_sdone j) (j_rdone j), rest')
          else None
      | _ =>
          if woken (j_wait_s j) swk && (negb inl_pending || (l_swk <? swk)%Z)
          then Some (mkJ (j_pushed j) (j_popped j) None None (j_sdone j) true, rest')
          else None
      end
    | _ => None
    end
  | _ => None
  end.

Fixpoint judge_ops (fuel : nat) (c : Z) (ops : list Z) (inl : bool) (j : jst) (out : list Z) : bool :=
  match fuel with O => false | S f =>
  match ops with
  | [] =>
      (* trailer: -1; n; the values freed by the channel; wake counts.  Every pushed value is either
         popped (in order) or freed, exactly once; a receiver still waiting when the harness drops
         the sender has been woken *)
      match out with
      | (-1)%Z :: n :: rest =>
        match take_vals n rest with
        | Some (vals, [rwk; swk]) =>
            is_prefix (j_popped j) (j_pushed j)
            && eq_zs (sort_z vals) (skipn (length (j_popped j)) (j_pushed j))
            && (j_sdone j || j_rdone j || woken (j_wait_r j) rwk)
        | _ => false
        end
      | _ => false
      end
  | op :: r =>
      if (6 <=? op)%Z then
        match out with
        | _ :: _ :: _ :: _ :: out' => judge_ops f c (tl r) (negb (hd 0 r =? 0)%Z) j out'
        | _ => false
        end
      else
      match judge_op c inl op j out with
      | Some (j', out') => judge_ops f c (tl r) inl j' out'
      | None => false
      end
  end end.

Definition judge (case out : list Z) : bool :=
  judge_ops (S (length case)) (Nz (norm_cap (hd 0%Z case))) (tl case) false (mkJ [] [] None None false false) out.
