(* The properties C12 / C03 as executable judgements of an implementation's output of the `ss`
   driver (format: model/DataSender.v, harness/h_transport/src/send_driver.rs).
   The judgement is recomputed from the operations of the case and the frames the implementation
   emitted; it never looks at the implementation's (or the model's) internal state: the state columns
   of the output are skipped.  What is taken from the output besides the frames is only what the
   application itself observes: how many bytes of a write were accepted.
   Executable definitions only. *)
From SQ Require Import lib.Base gen.Gen_C12.
From SQ Require Import model.DataSender.
Local Open Scope N_scope.

(* monitor state per stream *)
Record mstream := mk_ms {
  m_w : N;             (* bytes the application has written (accepted) so far *)
  m_hi : N;            (* highest end offset of any STREAM frame sent *)
  m_fin : option N;    (* final size announced by a FIN or a RESET_STREAM *)
  m_rst : bool;        (* a RESET_STREAM was sent *)
  m_lim : N            (* largest MAX_STREAM_DATA received so far, incl. the initial limit *)
}.
Record mon := mk_mon { m_streams : list mstream; m_limd : N }.

Definition m_used (s : mstream) : N :=
  match m_fin s with Some z => N.max z (m_hi s) | None => m_hi s end.
Definition sum_used (m : mon) : N := fold_right (fun s acc => m_used s + acc) 0 (m_streams m).

Fixpoint upd_ms (i : nat) (l : list mstream) (f : mstream -> mstream) : list mstream :=
  match l, i with
  | [], _ => []
  | x :: t, O => f x :: t
  | x :: t, S j => x :: upd_ms j t f
  end.
Definition ms_default : mstream := mk_ms 0 0 None false 0.
Definition get_ms (m : mon) (i : N) : mstream := nth (N.to_nat i) (m_streams m) ms_default.
Definition with_ms (m : mon) (i : N) (f : mstream -> mstream) : mon :=
  mk_mon (upd_ms (N.to_nat i) (m_streams m) f) (m_limd m).

Definition eqb_list (a b : list N) : bool :=
  (length a =? length b)%nat && forallb (fun xy => fst xy =? snd xy) (combine a b).

(* stream index of a frame: the driver's streams have ids 0, 4, 8, .. *)
Definition frame_stream (n : N) (f : frame) : option N :=
  if (fr_sid f mod Gen_C12.stream_id_step =? Gen_C12.sid_initial_bidi_client)
     && (fr_sid f / Gen_C12.stream_id_step <? n)
  then Some (fr_sid f / Gen_C12.stream_id_step) else None.

(* bookkeeping common to all judgements *)
Definition mon_upd (n : N) (m : mon) (f : frame) : mon :=
  match frame_stream n f with
  | None => m
  | Some i =>
      let e := fr_val f + N.of_nat (length (fr_data f)) in
      if fr_kind f =? 1 then
        with_ms m i (fun s => mk_ms (m_w s) (N.max (m_hi s) e)
                                    (if fr_fin f then Some e else m_fin s) (m_rst s) (m_lim s))
      else if fr_kind f =? 2 then
        with_ms m i (fun s => mk_ms (m_w s) (m_hi s) (Some (fr_val f)) true (m_lim s))
      else m
  end.

(* C12: slices of what was written, nothing beyond a final size, final size stable and not below
   what was sent, no STREAM / STREAM_DATA_BLOCKED after RESET_STREAM *)
Definition chk12 (salt n : N) (m : mon) (f : frame) : bool :=
  if (fr_kind f =? 1) || (fr_kind f =? 2) || (fr_kind f =? 3) then
    match frame_stream n f with
    | None => false        (* a frame for a stream that was never opened *)
    | Some i =>
        let s := get_ms m i in
        let e := fr_val f + N.of_nat (length (fr_data f)) in
        if fr_kind f =? 1 then
          negb (m_rst s)
          && (e <=? m_w s)
          && eqb_list (fr_data f) (slice salt i (fr_val f) (N.of_nat (length (fr_data f))))
          && match m_fin s with Some z => e <=? z | None => true end
          && (if fr_fin f then (m_hi s <=? e) && match m_fin s with Some z => z =? e | None => true end
              else true)
        else if fr_kind f =? 2 then
          (m_hi s <=? fr_val f) && match m_fin s with Some z => z =? fr_val f | None => true end
        else negb (m_rst s)
    end
  else true.

(* C03 (without the stream-limit clause for RESET_STREAM): every STREAM frame ends within the largest
   MAX_STREAM_DATA received, the connection-wide sum of stream lengths (highest offsets sent and
   announced final sizes) stays within the largest MAX_DATA received *)
Definition chk03 (salt n : N) (m : mon) (f : frame) : bool :=
  if (fr_kind f =? 1) || (fr_kind f =? 2) then
    match frame_stream n f with
    | None => false
    | Some i =>
        let s := get_ms m i in
        let e := fr_val f + N.of_nat (length (fr_data f)) in
        (if fr_kind f =? 1 then e <=? m_lim s else true)
        && (sum_used (mon_upd n m f) <=? m_limd m)
    end
  else true.

(* C03, the remaining clause: the final size of a RESET_STREAM is within the largest MAX_STREAM_DATA *)
Definition chk03r (salt n : N) (m : mon) (f : frame) : bool :=
  if fr_kind f =? 2 then
    match frame_stream n f with
    | None => false
    | Some i => fr_val f <=? m_lim (get_ms m i)
    end
  else true.

Fixpoint chk_frames (chk : mon -> frame -> bool) (n : N) (m : mon) (fs : list frame) : option mon :=
  match fs with
  | [] => Some m
  | f :: t => if chk m f then chk_frames chk n (mon_upd n m f) t else None
  end.

(* parsing of the frame list of a transmit record *)
Fixpoint take_frames (cnt : nat) (l : list Z) : option (list frame * list Z) :=
  match cnt with
  | O => Some ([], l)
  | S cnt' =>
      match l with
      | k :: sid :: v :: c :: fin :: len :: r =>
          if ((0 <=? len) && (len <=? Z.of_nat (length r)))%Z then
            match take_frames cnt' (skipn (Z.to_nat len) r) with
            | Some (fs, r') =>
                Some (mk_frame (zN k) (zN sid) (zN v) (zN c) (negb (fin =? 0)%Z)
                               (map zN (firstn (Z.to_nat len) r)) :: fs, r')
            | None => None
            end
          else None
      | _ => None
      end
  end.

(* skip the state columns: 2 + 5 per stream *)
Definition skip_state (n : N) (l : list Z) : option (list Z) :=
  let c := (2 + 5 * N.to_nat n)%nat in
  if (c <=? length l)%nat then Some (skipn c l) else None.

(* one operation of the case (decoded exactly as the drivers do) against the output:
   None = reject, Some None = end of the case, Some (Some (m', ops', out')) = continue *)
Definition wskip (n : N) (m : mon) (r o : list Z) : option (option (mon * list Z * list Z)) :=
  match skip_state n o with Some o' => Some (Some (m, r, o')) | None => None end.

Definition wstep (chk : mon -> frame -> bool) (n : N) (m : mon) (op : Z) (r out : list Z)
  : option (option (mon * list Z * list Z)) :=
  match op with
  | 1%Z =>
      let '(a, r) := nx r in let '(b, r) := nx r in
      let i := zN a mod n in let len := zN b mod 4096 in
      match out with
      | 1%Z :: _ :: res :: o =>
          if ((-1 <=? res) && (res <=? Nz len))%Z then
            wskip n (with_ms m i (fun s => mk_ms (m_w s + zN res) (m_hi s) (m_fin s) (m_rst s) (m_lim s))) r o
          else None
      | _ => None
      end
  | 2%Z => let '(_, r) := nx r in
      match out with 2%Z :: _ :: _ :: o => wskip n m r o | _ => None end
  | 3%Z => let '(_, r) := nx r in let '(_, r) := nx r in
      match out with 3%Z :: _ :: _ :: o => wskip n m r o | _ => None end
  | 4%Z => let '(_, r) := nx r in let '(_, r) := nx r in
      match out with 4%Z :: _ :: o => wskip n m r o | _ => None end
  | 5%Z =>
      let '(_, r) := nx r in let '(_, r) := nx r in let '(_, r) := nx r in let '(_, r) := nx r in
      match out with
      | 5%Z :: _ :: cnt :: o =>
          if ((0 <=? cnt) && (cnt <=? Z.of_nat (length o)))%Z then
            match take_frames (Z.to_nat cnt) o with
            | Some (fs, o1) =>
                match chk_frames chk n m fs with
                | Some m' => wskip n m' r o1
                | None => None
                end
            | None => None
            end
          else None
      | _ => None
      end
  | 6%Z => let '(_, r) := nx r in let '(_, r) := nx r in
      match out with 6%Z :: o => wskip n m r o | _ => None end
  | 7%Z => let '(_, r) := nx r in let '(_, r) := nx r in
      match out with 7%Z :: o => wskip n m r o | _ => None end
  | 8%Z =>
      let '(a, r) := nx r in let '(b, r) := nx r in
      let i := zN a mod n in let v := N.min (zN b) varint_max in
      match out with
      | 8%Z :: _ :: o =>
          wskip n (with_ms m i (fun s => mk_ms (m_w s) (m_hi s) (m_fin s) (m_rst s) (N.max (m_lim s) v))) r o
      | _ => None
      end
  | 9%Z =>
      let '(a, r) := nx r in
      let v := N.min (zN a) varint_max in
      match out with
      | 9%Z :: o => wskip n (mk_mon (m_streams m) (N.max (m_limd m) v)) r o
      | _ => None
      end
  | _ => Some None
  end.

Fixpoint walk (chk : mon -> frame -> bool) (fuel : nat) (n : N) (m : mon) (ops out : list Z) : bool :=
  match fuel with
  | O => true
  | S fuel =>
      match ops with
      | [] => true
      | op :: r =>
          match wstep chk n m op r out with
          | None => false
          | Some None => true
          | Some (Some (m', r', o')) => walk chk fuel n m' r' o'
          end
      end
  end.

Fixpoint mk_mstreams (n : nat) (r : list Z) : list mstream * list Z :=
  match n with
  | O => ([], r)
  | S n' =>
      let '(w, r1) := nx r in
      let '(l, r2) := mk_mstreams n' r1 in
      (mk_ms 0 0 None false (N.min (zN w) varint_max) :: l, r2)
  end.

Definition judge_with (chk : N -> N -> mon -> frame -> bool) (case out : list Z) : bool :=
  let '(a, r) := nx case in let '(b, r) := nx r in let '(c, r) := nx r in let '(_, r) := nx r in
  let salt := zN a mod 65536 in
  let n := zN c mod 4 + 1 in
  let '(l, r) := mk_mstreams (N.to_nat n) r in
  walk (chk salt n) (length r) n (mk_mon l (N.min (zN b) varint_max)) r out.

Definition judge12 := judge_with chk12.
Definition judge03 := judge_with chk03.
Definition judge03r := judge_with chk03r.
