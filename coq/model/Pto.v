(* Model of s2n-quic-core/src/recovery/pto.rs (Pto, State) with time::Timer, and of the PTO backoff
   arithmetic of recovery::Manager::on_timeout / space::PacketSpaceManager::on_timeout.
   Executable definitions only. *)
From SQ Require Import lib.Base gen.Gen_C09 model.RecTime.
Local Open Scope N_scope.

(* State::Idle = 0 transmissions; RequiresTransmission(n) *)
Inductive pstate := Idle | Req (n : N).
Record pto := { timer : option N; st : pstate }.

Definition pto_init : pto := {| timer := None; st := Idle |}.

Definition is_expired (t : option N) (now : N) : bool :=
  match t with Some e => has_elapsed e now | None => false end.

(* on_timeout(packets_in_flight, timestamp) -> (state, Ready?) *)
Definition on_timeout (p : pto) (in_flight : bool) (now : N) : pto * bool :=
  if is_expired (timer p) now then
    ({| timer := None; st := Req (if in_flight then pto_tx_in_flight else pto_tx_idle) |}, true)
  else (p, false).

Definition update (p : pto) (base period : N) : pto := {| timer := Some (ts_add base period); st := st p |}.
Definition cancel (p : pto) : pto := {| timer := None; st := st p |}.
Definition transmissions (p : pto) : N := match st p with Idle => 0 | Req n => n end.

(* State::on_transmit; Idle / Req 0 trip a debug assertion: None *)
Definition on_transmit_once (p : pto) : option pto :=
  match st p with
  | Idle => None
  | Req n => if n =? 0 then None
             else if n =? 1 then Some {| timer := timer p; st := Idle |}
             else Some {| timer := timer p; st := Req (n - 1) |}
  end.

Definition force_transmit (p : pto) : pto :=
  match st p with Idle => {| timer := timer p; st := Req 1 |} | _ => p end.

(* PTO backoff: space::on_timeout computes max_backoff = pto_backoff.checked_mul(2) (None closes the
   connection), Manager::on_timeout sets pto_backoff = (pto_backoff * 2).min(max_backoff), in u32 *)
Definition backoff_cap (b : N) : option N :=
  let m := b * pto_backoff_cap_mult in if m <=? u32_max then Some m else None.
Definition backoff_next (b maxb : N) : N := N.min (b * pto_backoff_mult) maxb.

(* ---- harness protocol ----
   case = ops of 4 integers [code; a; b; _]
     1: on_timeout(in_flight = (a <> 0), now = b)     2: update(base = a, period_ns = b)
     3: cancel    4: on_transmit_once (only when transmissions() > 0, as the real caller ensures)
     5: force_transmit
   after each op: [ready?; transmissions; armed?; expiration_us] *)
Definition pstep (p : pto) (c a b : Z) : pto * bool :=
  if (c =? 1)%Z then on_timeout p (negb (a =? 0)%Z) (ts_norm (zN b))
  else if (c =? 2)%Z then (update p (ts_norm (zN a)) (zN b), false)
  else if (c =? 3)%Z then (cancel p, false)
  else if (c =? 4)%Z then
    (if 0 <? transmissions p then match on_transmit_once p with Some p' => p' | None => p end else p, false)
  else if (c =? 5)%Z then (force_transmit p, false)
  else (p, false).

Definition pobs (p : pto) (ready : bool) : list Z :=
  [bz ready; Nz (transmissions p);
   match timer p with Some _ => 1 | None => 0 end;
   match timer p with Some e => Nz e | None => 0 end]%Z.

Fixpoint run_from (p : pto) (l : list Z) : list Z :=
  match l with
  | c :: a :: b :: _ :: t => let '(p', rdy) := pstep p c a b in pobs p' rdy ++ run_from p' t
  | _ => []
  end.
Definition run (l : list Z) : list Z := run_from pto_init l.

(* ---- the property as an executable judgement on an implementation's output ----
   From the case alone the judge tracks the armed expiration (base + period, microseconds) and the
   number of owed probe transmissions.
   - an expiry is reported only when a timer is armed and due within the timer granularity
     (expiration < now + 1 ms), and it is reported whenever an armed timer is due (expiration <= now);
   - an expiry asks for at least one and at most two probes and disarms the timer;
   - each on_transmit_once pays exactly one owed probe; nothing else changes the count
     (force_transmit raises 0 to 1). *)
Record pj := { jexp : option N; jtx : N }.

Definition pjudge_step (j : pj) (c a b : Z) (o : list Z) : option pj :=
  match o with
  | [rdy; tx; armed; ex] =>
      let txn := zN tx in
      if negb ((0 <=? tx)%Z && ((rdy =? 0)%Z || (rdy =? 1)%Z)) then None else
      if (c =? 1)%Z then
        let now := ts_norm (zN b) in
        let may := match jexp j with Some e => e <? now + 1000 | None => false end in
        let must := match jexp j with Some e => e <=? now | None => false end in
        if (rdy =? 1)%Z then
          if may && (1 <=? txn) && (txn <=? 2) && (armed =? 0)%Z then Some {| jexp := None; jtx := txn |} else None
        else
          if negb must && (txn =? jtx j) && (bz (match jexp j with Some _ => true | None => false end) =? armed)%Z
          then Some j else None
      else if (rdy =? 1)%Z then None
      else if (c =? 2)%Z then
        let e := ts_norm ((ts_norm (zN a) * 1000 + zN b) / 1000) in
        if (armed =? 1)%Z && (zN ex =? e) && (txn =? jtx j) then Some {| jexp := Some e; jtx := jtx j |} else None
      else if (c =? 3)%Z then
        if (armed =? 0)%Z && (txn =? jtx j) then Some {| jexp := None; jtx := jtx j |} else None
      else
        let want := if (c =? 4)%Z then (if 0 <? jtx j then jtx j - 1 else 0)
                    else if (c =? 5)%Z then (if jtx j =? 0 then 1 else jtx j)
                    else jtx j in
        if (txn =? want) && (bz (match jexp j with Some _ => true | None => false end) =? armed)%Z
        then Some {| jexp := jexp j; jtx := want |} else None
  | _ => None
  end.

Fixpoint judge_from (j : pj) (l out : list Z) : bool :=
  match l with
  | c :: a :: b :: _ :: t =>
      match pjudge_step j c a b (firstn 4 out) with
      | Some j' => judge_from j' t (skipn 4 out)
      | None => false
      end
  | _ => match out with [] => true | _ => false end
  end.
Definition judge (l out : list Z) : bool := judge_from {| jexp := None; jtx := 0 |} l out.
