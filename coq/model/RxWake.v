(* Model of the reader wake-up logic of quic/s2n-quic-transport/src/stream/receive_stream.rs:
   ReceiveStream::{on_data (wake decision), on_reset, wake, poll_request (park decision, watermarks,
   end-of-stream handling)} and ReceiveStreamFlowController::watermark, for one stream that receives
   in-order data inside its flow-control window.  Executable definitions only.

   w = desired flow-control window (= the initial receive window), sent = end offset of the data the
   peer has sent (all of it received, in order), cons = bytes consumed by the application,
   ended: 0 open, 1 FIN received, 2 reset received;  rst: 0 Receiving, 1 DataRead, 2 Reset;
   waiter = Some low: a parked reader (waker stored with its remaining low watermark). *)
From SQ Require Import lib.Base.
Local Open Scope N_scope.

Record rx := mkRx {
  rw : N; sent : N; cons : N; ended : N; rst : N; waiter : option N; wakes : N }.

Inductive rop :=
| RData (n : N) (fin : bool)     (* STREAM frame with the next n bytes (clipped to the window room) *)
| RRead (l h : N)                (* rx request: low watermark l, high watermark max(h,1), with a waker *)
| RReset.                        (* RESET_STREAM with the right final size *)

Definition rx_init (w : N) : rx := mkRx w 0 0 0 0 None 0.
Definition blen (s : rx) : N := sent s - cons s.
(* ReceiveStreamFlowController::watermark: half the desired window *)
Definition fc_watermark (s : rx) : N := rw s / 2.

(* ReceiveStream::wake: hand the stored waker to the events (it is woken by the caller) *)
Definition wake (s : rx) : rx :=
  match waiter s with
  | Some _ => mkRx (rw s) (sent s) (cons s) (ended s) (rst s) None (wakes s + 1)
  | None => s
  end.

Definition room (s : rx) : N := cons s + rw s - sent s.

Definition rx_data (s : rx) (n : N) (fin : bool) : rx :=
  let n' := N.min n (room s) in
  if (ended s =? 0) && ((0 <? n') || fin) then
    let sent' := sent s + n' in
    let len := sent' - cons s in
    (* on_data: wake if the buffer has data and crossed min(application watermark, flow watermark) *)
    let crossed := match waiter s with
                   | Some l => (1 <=? len) && (N.min l (fc_watermark s) <=? len)
                   | None => false
                   end in
    (* ... or if the stream is complete (FIN known and everything received) *)
    let should_wake := crossed || fin in
    let rst' := if fin && (cons s =? sent') then 1 else rst s in
    let s1 := mkRx (rw s) sent' (cons s) (if fin then 1 else 0) rst' (waiter s) (wakes s) in
    if should_wake then wake s1 else s1
  else s.

Definition rx_reset (s : rx) : rx :=
  if ended s =? 0 then wake (mkRx (rw s) (sent s) (cons s) 2 2 (waiter s) (wakes s)) else s.

(* poll_request; returns the state, [consumed; will_wake; status; available] and whether the case ends
   (status 2 Finished / 9 error) *)
Definition rx_read (s : rx) (l h : N) : rx * (N * bool * N * N) * bool :=
  let high := N.max h 1 in
  let low := N.min l high in
  if rst s =? 2 then
    (mkRx (rw s) (sent s) (cons s) (ended s) (rst s) None (wakes s), (0, false, 9, 0), true)
  else if rst s =? 1 then
    (mkRx (rw s) (sent s) (cons s) (ended s) (rst s) None (wakes s), (0, false, 2, 0), true)
  else
    let len := blen s in
    let ok := N.min (fc_watermark s) low <=? len in
    let take := if ok then N.min high len else 0 in
    let park := negb ok || (take =? 0) in
    let low' := low - take in
    let cons' := cons s + take in
    let done := (ended s =? 1) && (cons' =? sent s) in
    let status := if done then 2 else if ended s =? 1 then 1 else 0 in
    let waiter1 := if done then None else waiter s in
    let waiter2 := if park then Some low' else waiter1 in
    (mkRx (rw s) (sent s) cons' (ended s) (if done then 1 else rst s) waiter2 (wakes s),
     (take, park, status, sent s - cons'), done).

Definition rx_step (s : rx) (o : rop) : rx :=
  match o with
  | RData n fin => rx_data s n fin
  | RReset => rx_reset s
  | RRead l h => fst (fst (rx_read s l h))
  end.

(* ---- harness protocol: case = [w; ops..]; ops (code mod 4): 0 n | 1 l h | 2 n (FIN) | 3 (reset);
   output per op [consumed; will_wake; status; wake() calls so far; available (reads only)] *)
Definition argN (cap : N) (z : Z) : N := N.min (zN z) cap.
Definition arg (cap : N) (i : nat) (l : list Z) : N := argN cap (nth i l 0%Z).
Definition wmax : N := 8192.
Definition amax : N := 1048576.

Fixpoint parse (fuel : nat) (l : list Z) : list rop :=
  match fuel with O => [] | S fuel =>
  match l with
  | [] => []
  | c :: t =>
      match (c mod 4)%Z with
      | 0%Z => RData (arg amax 0 t) false :: parse fuel (skipn 1 t)
      | 1%Z => RRead (arg amax 0 t) (arg amax 1 t) :: parse fuel (skipn 2 t)
      | 2%Z => RData (arg amax 0 t) true :: parse fuel (skipn 1 t)
      | _ => RReset :: parse fuel t
      end
  end end.

Fixpoint run_ops (s : rx) (ops : list rop) : list Z :=
  match ops with
  | [] => []
  | RRead l h :: t =>
      let '(s', (c, p, st, av), stop) := rx_read s l h in
      [Nz c; bz p; Nz st; Nz (wakes s'); Nz av] ++ (if stop then [] else run_ops s' t)
  | o :: t =>
      let s' := rx_step s o in
      [0%Z; 0%Z; 0%Z; Nz (wakes s'); 0%Z] ++ run_ops s' t
  end.

Definition w_of (l : list Z) : N := N.max (arg wmax 0 l) 1.
Definition ops_of (l : list Z) : list rop := parse (length l) (skipn 1 l).
Definition run (l : list Z) : list Z := run_ops (rx_init (w_of l)) (ops_of l).

(* ---- the property as an executable judgement on an implementation's output.
   Recomputed from the operations and the implementation's reported consumption: what the peer sent,
   what the application consumed, whether FIN / reset arrived; a reader counts as parked from a
   request that answered will_wake until the wake counter moves.  Demand: a parked reader has been
   woken as soon as the buffer holds its (remaining) low watermark (at least one byte), or the
   flow-control window can admit nothing more until it reads, or FIN / reset arrived; and a request
   is not parked in such a state. *)
Record rj := mkRj { jw : N; jsent : N; jcons : N; jended : N; jpark : option N; jlast : Z }.

Definition must_wake (j : rj) (l : N) : bool :=
  negb (jended j =? 0) || (N.max 1 l <=? jsent j - jcons j) || (jsent j =? jcons j + jw j).

Definition park_ok (j : rj) : bool :=
  match jpark j with Some l => negb (must_wake j l) | None => true end.

Definition jstep (j : rj) (o : rop) (c ww st wk av : Z) : option (rj * bool) :=
  let woken := (jlast j <? wk)%Z in
  let park0 := if woken then None else jpark j in
  match o with
  | RData n fin =>
      let n' := N.min n (jcons j + jw j - jsent j) in
      let eff := (jended j =? 0) && ((0 <? n') || fin) in
      let j' := if eff then mkRj (jw j) (jsent j + n') (jcons j) (if fin then 1 else 0) park0 wk
                else mkRj (jw j) (jsent j) (jcons j) (jended j) park0 wk in
      if (c =? 0)%Z && (ww =? 0)%Z && (jlast j <=? wk)%Z && park_ok j' then Some (j', false) else None
  | RReset =>
      let j' := mkRj (jw j) (jsent j) (jcons j) (if jended j =? 0 then 2 else jended j) park0 wk in
      if (c =? 0)%Z && (ww =? 0)%Z && (jlast j <=? wk)%Z && park_ok j' then Some (j', false) else None
  | RRead l h =>
      let high := N.max h 1 in
      let low := N.min l high in
      let cn := zN c in
      let plausible := (0 <=? c)%Z && (cn <=? high) && (cn <=? jsent j - jcons j) in
      let j' := mkRj (jw j) (jsent j) (jcons j + cn) (jended j)
                     (if (ww =? 1)%Z then Some (low - cn) else None) wk in
      if plausible && ((ww =? 0) || (ww =? 1))%Z && (jlast j <=? wk)%Z && park_ok j'
      then Some (j', (st =? 2)%Z || (st =? 9)%Z) else None
  end.

Fixpoint judge_ops (j : rj) (ops : list rop) (out : list Z) : bool :=
  match ops, out with
  | [], [] => true
  | o :: t, c :: ww :: st :: wk :: av :: out' =>
      match jstep j o c ww st wk av with
      | Some (j', stop) => if stop then (match out' with [] => true | _ => false end) else judge_ops j' t out'
      | None => false
      end
  | _, _ => false
  end.

Definition judge (l out : list Z) : bool :=
  judge_ops (mkRj (w_of l) 0 0 0 None 0%Z) (ops_of l) out.
