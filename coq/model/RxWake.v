(* Model of the reader wake-up logic of quic/s2n-quic-transport/src/stream/receive_stream.rs:
   ReceiveStream::{on_data (wake decision), on_reset, wake, poll_request (park decision, watermarks,
   end-of-stream handling)} and ReceiveStreamFlowController::watermark, for one stream that receives
   in-order data inside its flow-control window.  Executable definitions only.

   w = desired flow-control window (= the initial receive window), sent = end offset of the data the
   peer has sent (all of it received, in order), cons = bytes consumed by the application,
   ended: 0 open, 1 FIN received, 2 reset received;  rst: 0 Receiving, 1 DataRead, 2 Reset;
   waiter = Some low: a parked reader (waker stored with its remaining low watermark). *)
From SQ Require Import lib.Base.
Local Open Scope N_scope.

Record rx := mkRx {
  rw : N; sent : N; cons : N; ended : N; rst : N; waiter : option N; wakes : N;
  ooo : option (N * N);     (* one segment received beyond a gap: [start, end) *)
  final : N }.              (* the final size, meaningful when ended = 1 *)

Inductive rop :=
| RData (n : N) (fin : bool)     (* STREAM frame with the next n bytes at the contiguous end (clipped to the
                                    window room, or to the gap when a later segment is held); fills the gap *)
| RRead (l h : N)                (* rx request: low watermark l, high watermark max(h,1), with a waker *)
| RReset                         (* RESET_STREAM with the right final size *)
| ROoo (g n : N) (fin : bool).   (* STREAM frame of n bytes at offset contiguous end + g (g >= 1), maybe FIN *)

Definition rx_init (w : N) : rx := mkRx w 0 0 0 0 None 0 None 0.
Definition blen (s : rx) : N := sent s - cons s.
(* ReceiveStreamFlowController::watermark: half the desired window *)
Definition fc_watermark (s : rx) : N := rw s / 2.
(* receive_buffer.is_writing_complete(): final size known and everything up to it received *)
Definition complete (s : rx) : bool := (ended s =? 1) && (sent s =? final s).

(* ReceiveStream::wake: hand the stored waker to the events (it is woken by the caller) *)
Definition wake (s : rx) : rx :=
  match waiter s with
  | Some _ => mkRx (rw s) (sent s) (cons s) (ended s) (rst s) None (wakes s + 1) (ooo s) (final s)
  | None => s
  end.

Definition room (s : rx) : N := cons s + rw s - sent s.

(* on_data: wake if the buffer has data and crossed min(application watermark, flow watermark) *)
Definition crossed (s : rx) : bool :=
  match waiter s with
  | Some l => (1 <=? blen s) && (N.min l (fc_watermark s) <=? blen s)
  | None => false
  end.

Definition rx_data (s : rx) (n : N) (fin : bool) : rx :=
  let n' := match ooo s with Some (a, _) => N.min n (a - sent s) | None => N.min n (room s) end in
  let fin' := match ooo s with Some _ => false | None => fin end in
  let allowed := (ended s =? 0) || ((ended s =? 1) && match ooo s with Some _ => true | None => false end) in
  if allowed && ((0 <? n') || fin') then
    let sent1 := sent s + n' in
    let merged := match ooo s with Some (a, _) => sent1 =? a | None => false end in
    let sent' := match ooo s with Some (a, b) => if sent1 =? a then b else sent1 | None => sent1 end in
    let ooo' := if merged then None else ooo s in
    let final' := if fin' then sent' else final s in
    let ended' := if fin' then 1 else ended s in
    let rst' := if fin' && (cons s =? sent') then 1 else rst s in
    let s1 := mkRx (rw s) sent' (cons s) ended' rst' (waiter s) (wakes s) ooo' final' in
    (* ... or if the stream is now completely received, whichever frame completed it *)
    if crossed s1 || complete s1 then wake s1 else s1
  else s.

Definition rx_ooo (s : rx) (g n : N) (fin : bool) : rx :=
  let start := sent s + g in
  let n' := N.min n (cons s + rw s - start) in
  if (ended s =? 0) && (match ooo s with None => true | Some _ => false end)
     && (1 <=? g) && (start <=? cons s + rw s) && ((0 <? n') || fin) then
    let s1 := mkRx (rw s) (sent s) (cons s) (if fin then 1 else 0) (rst s) (waiter s) (wakes s)
                   (Some (start, start + n')) (if fin then start + n' else final s) in
    if crossed s1 || complete s1 then wake s1 else s1
  else s.

Definition rx_reset (s : rx) : rx :=
  if ended s =? 0
  then wake (mkRx (rw s) (sent s) (cons s) 2 2 (waiter s) (wakes s) (ooo s) (final s))
  else s.

(* poll_request; returns the state, [consumed; will_wake; status; available] and whether the case ends
   (status 2 Finished / 9 error) *)
Definition rx_read (s : rx) (l h : N) : rx * (N * bool * N * N) * bool :=
  let high := N.max h 1 in
  let low := N.min l high in
  if rst s =? 2 then
    (mkRx (rw s) (sent s) (cons s) (ended s) (rst s) None (wakes s) (ooo s) (final s), (0, false, 9, 0), true)
  else if rst s =? 1 then
    (mkRx (rw s) (sent s) (cons s) (ended s) (rst s) None (wakes s) (ooo s) (final s), (0, false, 2, 0), true)
  else
    let len := blen s in
    let ok := N.min (fc_watermark s) low <=? len in
    let take := if ok then N.min high len else 0 in
    let park := negb ok || (take =? 0) in
    let low' := low - take in
    let cons' := cons s + take in
    let done := (ended s =? 1) && (cons' =? final s) in
    let status := if done then 2 else if complete s then 1 else 0 in
    let waiter1 := if done then None else waiter s in
    let waiter2 := if park then Some low' else waiter1 in
    (mkRx (rw s) (sent s) cons' (ended s) (if done then 1 else rst s) waiter2 (wakes s) (ooo s) (final s),
     (take, park, status, sent s - cons'), done).

Definition rx_step (s : rx) (o : rop) : rx :=
  match o with
  | RData n fin => rx_data s n fin
  | ROoo g n fin => rx_ooo s g n fin
  | RReset => rx_reset s
  | RRead l h => fst (fst (rx_read s l h))
  end.

(* ---- harness protocol: case = [w; ops..]; ops (code mod 6): 0 n | 1 l h | 2 n (FIN) | 3 (reset)
   | 4 g n (later segment) | 5 g n (later segment with FIN);
   output per op [consumed; will_wake; status; wake() calls so far; available (reads only)] *)
Definition argN (cap : N) (z : Z) : N := N.min (zN z) cap.
Definition arg (cap : N) (i : nat) (l : list Z) : N := argN cap (nth i l 0%Z).
Definition wmax : N := 8192.
Definition amax : N := 1048576.

Fixpoint parse (fuel : nat) (l : list Z) : list rop :=
  match fuel with O => [] | S fuel =>
  match l with
  | [] => []
  | c :: t =>
      match (c mod 6)%Z with
      | 0%Z => RData (arg amax 0 t) false :: parse fuel (skipn 1 t)
      | 1%Z => RRead (arg amax 0 t) (arg amax 1 t) :: parse fuel (skipn 2 t)
      | 2%Z => RData (arg amax 0 t) true :: parse fuel (skipn 1 t)
      | 3%Z => RReset :: parse fuel t
      | 4%Z => ROoo (arg amax 0 t) (arg amax 1 t) false :: parse fuel (skipn 2 t)
      | _ => ROoo (arg amax 0 t) (arg amax 1 t) true :: parse fuel (skipn 2 t)
      end
  end end.

Fixpoint run_ops (s : rx) (ops : list rop) : list Z :=
  match ops with
  | [] => []
  | RRead l h :: t =>
      let '(s', (c, p, st, av), stop) := rx_read s l h in
      [Nz c; bz p; Nz st; Nz (wakes s'); Nz av] ++ (if stop then [] else run_ops s' t)
  | o :: t =>
      let s' := rx_step s o in
      [0%Z; 0%Z; 0%Z; Nz (wakes s'); 0%Z] ++ run_ops s' t
  end.

Definition w_of (l : list Z) : N := N.max (arg wmax 0 l) 1.
Definition ops_of (l : list Z) : list rop := parse (length l) (skipn 1 l).
Definition run (l : list Z) : list Z := run_ops (rx_init (w_of l)) (ops_of l).

(* ---- the property as an executable judgement on an implementation's output.
   Recomputed from the operations and the implementation's reported consumption: the contiguous
   prefix the peer has delivered, the one segment held beyond a gap, the final size once a FIN was
   seen, what the application consumed; a reader counts as parked from a request that answered
   will_wake until the wake counter moves.  Demand: a parked reader has been woken as soon as the
   buffer holds its (remaining) low watermark (at least one byte), or the stream is completely
   received (whichever frame completed it) or reset, or -- with no gap outstanding -- the
   flow-control window can admit nothing more until it reads; and a request is not parked in such a
   state. *)
Record rj := mkRj { jw : N; jsent : N; jcons : N; jended : N; jpark : option N; jlast : Z;
                    jooo : option (N * N); jfinal : N }.

Definition must_wake (j : rj) (l : N) : bool :=
  (jended j =? 2) || ((jended j =? 1) && (jsent j =? jfinal j))
  || (N.max 1 l <=? jsent j - jcons j)
  || (match jooo j with None => jsent j =? jcons j + jw j | Some _ => false end).

Definition park_ok (j : rj) : bool :=
  match jpark j with Some l => negb (must_wake j l) | None => true end.

Definition jstep (j : rj) (o : rop) (c ww st wk av : Z) : option (rj * bool) :=
  let woken := (jlast j <? wk)%Z in
  let park0 := if woken then None else jpark j in
  let frame_ok := (c =? 0)%Z && (ww =? 0)%Z && (jlast j <=? wk)%Z in
  match o with
  | RData n fin =>
      let n' := match jooo j with Some (a, _) => N.min n (a - jsent j) | None => N.min n (jcons j + jw j - jsent j) end in
      let fin' := match jooo j with Some _ => false | None => fin end in
      let allowed := (jended j =? 0) || ((jended j =? 1) && match jooo j with Some _ => true | None => false end) in
      let j' :=
        if allowed && ((0 <? n') || fin') then
          let sent1 := jsent j + n' in
          let sent' := match jooo j with Some (a, b) => if sent1 =? a then b else sent1 | None => sent1 end in
          let ooo' := match jooo j with Some (a, _) => if sent1 =? a then None else jooo j | None => None end in
          mkRj (jw j) sent' (jcons j) (if fin' then 1 else jended j) park0 wk ooo' (if fin' then sent' else jfinal j)
        else mkRj (jw j) (jsent j) (jcons j) (jended j) park0 wk (jooo j) (jfinal j) in
      if frame_ok && park_ok j' then Some (j', false) else None
  | ROoo g n fin =>
      let start := jsent j + g in
      let n' := N.min n (jcons j + jw j - start) in
      let j' :=
        if (jended j =? 0) && (match jooo j with None => true | Some _ => false end)
           && (1 <=? g) && (start <=? jcons j + jw j) && ((0 <? n') || fin)
        then mkRj (jw j) (jsent j) (jcons j) (if fin then 1 else 0) park0 wk (Some (start, start + n'))
                  (if fin then start + n' else jfinal j)
        else mkRj (jw j) (jsent j) (jcons j) (jended j) park0 wk (jooo j) (jfinal j) in
      if frame_ok && park_ok j' then Some (j', false) else None
  | RReset =>
      let j' := mkRj (jw j) (jsent j) (jcons j) (if jended j =? 0 then 2 else jended j) park0 wk (jooo j) (jfinal j) in
      if frame_ok && park_ok j' then Some (j', false) else None
  | RRead l h =>
      let high := N.max h 1 in
      let low := N.min l high in
      let cn := zN c in
      let plausible := (0 <=? c)%Z && (cn <=? high) && (cn <=? jsent j - jcons j) in
      let j' := mkRj (jw j) (jsent j) (jcons j + cn) (jended j)
                     (if (ww =? 1)%Z then Some (low - cn) else None) wk (jooo j) (jfinal j) in
      if plausible && ((ww =? 0) || (ww =? 1))%Z && (jlast j <=? wk)%Z && park_ok j'
      then Some (j', (st =? 2)%Z || (st =? 9)%Z) else None
  end.

Fixpoint judge_ops (j : rj) (ops : list rop) (out : list Z) : bool :=
  match ops, out with
  | [], [] => true
  | o :: t, c :: ww :: st :: wk :: av :: out' =>
      match jstep j o c ww st wk av with
      | Some (j', stop) => if stop then (match out' with [] => true | _ => false end) else judge_ops j' t out'
      | None => false
      end
  | _, _ => false
  end.

Definition judge (l out : list Z) : bool :=
  judge_ops (mkRj (w_of l) 0 0 0 None 0%Z None 0) (ops_of l) out.
