(* Model of the receive side of s2n-quic-transport's stream handling, as driven through
   stream::Manager (hook verif_hooks/recv.rs):

     sync/incremental_value_sync.rs      IncrementalValueSync (+ sync/mod.rs DeliveryState)
     stream/incoming_connection_flow_controller.rs
     stream/receive_stream.rs            ReceiveStreamFlowController, ReceiveStream::{on_data,
                                         on_reset, init_reset, on_internal_reset, poll_request,
                                         on_transmit, on_packet_ack, on_packet_loss}
     s2n-quic-core buffer/reassembler.rs cursors (start_offset, max_recv_offset, final_offset),
                                         handle_reader_fin, first-write-wins byte store
     stream/manager.rs                   on_data / on_reset_stream / on_stream_data_blocked ->
                                         handle_stream_frame -> reset_streams_on_error -> close

   Four bidirectional streams share one connection flow controller: indices 0, 1 are initiated by
   the peer (created by the first frame that names them or a higher one; receive window =
   initial_max_stream_data_bidi_remote), indices 2, 3 are opened by the local application before
   the first operation (receive window = initial_max_stream_data_bidi_local).  The manager creates
   each stream with desired window = initial window (manager.rs insert_stream).
   Executable definitions only. *)
From SQ Require Import lib.Base gen.Gen_C04.
Local Open Scope N_scope.

Definition sat_add (a b : N) : N := N.min (a + b) varint_max.

(* ---------------- IncrementalValueSync ---------------- *)

Inductive dstate := DNot | DReq | DLost | DInFlight (v pn : N) | DCancelled.
Record ivs := { latest : N; ackd : N; thr : N; dst : dstate }.

Definition ivs_set_dst (s : ivs) (d : dstate) : ivs :=
  {| latest := latest s; ackd := ackd s; thr := thr s; dst := d |}.

Definition should_send (s : ivs) : bool :=
  match dst s with
  | DCancelled => false
  | DInFlight v _ => negb (latest s =? ackd s) && (thr s <=? latest s - v)
  | _ => negb (latest s =? ackd s) && (thr s <=? latest s - ackd s)
  end.

Definition ivs_request (s : ivs) : ivs := if should_send s then ivs_set_dst s DReq else s.

Definition ivs_new (l a t : N) : ivs := ivs_request {| latest := l; ackd := a; thr := t; dst := DNot |}.

Definition ivs_update (s : ivs) (v : N) : ivs :=
  ivs_request {| latest := v; ackd := ackd s; thr := thr s; dst := dst s |}.

Definition ivs_cancel (s : ivs) : ivs := ivs_set_dst s DCancelled.

Definition in_range (lo hi pn : N) : bool := (lo <=? pn) && (pn <=? N.max hi lo).

Definition ivs_ack (s : ivs) (lo hi : N) : ivs :=
  match dst s with
  | DInFlight v pn => if in_range lo hi pn
                      then {| latest := latest s; ackd := v; thr := thr s; dst := DNot |} else s
  | _ => s
  end.

Definition ivs_loss (s : ivs) (lo hi : N) : ivs :=
  match dst s with
  | DInFlight v pn => if in_range lo hi pn then ivs_set_dst s DLost else s
  | _ => s
  end.

(* on_transmit with Constraint::None: Requested and Lost are both sent; the latest value is written *)
Definition ivs_transmit (s : ivs) (pn : N) : option N * ivs :=
  match dst s with
  | DReq | DLost => (Some (latest s), ivs_set_dst s (DInFlight (latest s) pn))
  | _ => (None, s)
  end.

(* ---------------- connection flow controller ---------------- *)

Record cfc := { csync : ivs; cacq : N; ccons : N; cwin : N }.

Definition cfc_new (w : N) : cfc :=
  {| csync := ivs_new w w (w / 10); cacq := 0; ccons := 0; cwin := w |}.

Definition cfc_acquire (c : cfc) (d : N) : option cfc :=
  if latest (csync c) - cacq c <? d then None
  else Some {| csync := csync c; cacq := cacq c + d; ccons := ccons c; cwin := cwin c |}.

Definition cfc_release (c : cfc) (amt : N) : cfc :=
  let cons' := ccons c + amt in
  {| csync := ivs_update (csync c) (sat_add cons' (cwin c)); cacq := cacq c; ccons := cons'; cwin := cwin c |}.

(* ---------------- byte store: disjoint sorted segments (start, end, tag), first write wins ---- *)

Definition seg := (N * N * N)%type.

Definition mk_seg (lo hi tag : N) : list seg := if lo <? hi then [(lo, hi, tag)] else [].

Fixpoint ins (lo hi tag : N) (l : list seg) : list seg :=
  match l with
  | [] => mk_seg lo hi tag
  | (a, b, t) :: r =>
      if hi <=? a then mk_seg lo hi tag ++ l
      else if b <=? lo then (a, b, t) :: ins lo hi tag r
      else mk_seg lo (N.min a hi) tag ++ (a, b, t) :: ins (N.max lo b) hi tag r
  end.

(* end of the contiguous data starting at [pos] *)
Fixpoint contig (pos : N) (l : list seg) : N :=
  match l with
  | (a, b, _) :: r => if a =? pos then contig b r else pos
  | [] => pos
  end.

(* pop at most [n] contiguous bytes at [pos]: (runs (tag, len), new position, remaining segments) *)
Fixpoint take (pos n : N) (l : list seg) : list (N * N) * N * list seg :=
  match l with
  | (a, b, t) :: r =>
      if (a =? pos) && (0 <? n) then
        let k := N.min n (b - a) in
        if k =? b - a then
          let '(runs, p, s) := take b (n - k) r in ((t, k) :: runs, p, s)
        else ([(t, k)], pos + k, (a + k, b, t) :: r)
      else ([], pos, l)
  | [] => ([], pos, [])
  end.

(* ---------------- ReceiveStream ---------------- *)

(* Stopping carries MissingData {start, end} and whether everything missing has arrived
   (final_state_observed: the stream then no longer asks to transmit) *)
Inductive rstate := Receiving | DataRead | Stopping (ms me : N) (done : bool) | ResetSt.

Record rs := {
  rst : rstate;
  cons : N;            (* Reassembler start_offset = bytes handed to the application *)
  maxrecv : N;         (* Reassembler max_recv_offset *)
  fin_ : option N;     (* Reassembler final_offset *)
  segs : list seg;
  acq : N;             (* acquired_connection_window *)
  rel : N;             (* released_connection_window *)
  rsync : ivs;         (* read_window_sync (MAX_STREAM_DATA) *)
  swin : N             (* desired_flow_control_window *)
}.

Definition rs_new (w : N) : rs :=
  {| rst := Receiving; cons := 0; maxrecv := 0; fin_ := None; segs := []; acq := 0; rel := 0;
     rsync := ivs_new w w (w / 10); swin := w |}.

Definition rs_buf_reset (s : rs) (st : rstate) : rs :=
  {| rst := st; cons := 0; maxrecv := 0; fin_ := None; segs := []; acq := acq s; rel := rel s;
     rsync := rsync s; swin := swin s |}.

Definition rs_set_sync (s : rs) (y : ivs) : rs :=
  {| rst := rst s; cons := cons s; maxrecv := maxrecv s; fin_ := fin_ s; segs := segs s; acq := acq s;
     rel := rel s; rsync := y; swin := swin s |}.

Definition rs_set_state (s : rs) (st : rstate) : rs :=
  {| rst := st; cons := cons s; maxrecv := maxrecv s; fin_ := fin_ s; segs := segs s; acq := acq s;
     rel := rel s; rsync := rsync s; swin := swin s |}.

(* error codes *)
Definition E_FLOW : N := code_flow_control_error.
Definition E_FINAL : N := code_final_size_error.

(* ReceiveStreamFlowController::acquire_window_up_to *)
Definition acquire_up_to (s : rs) (c : cfc) (off : N) : rs * cfc + N :=
  if latest (rsync s) <? off then inr E_FLOW
  else
    let add := off - acq s in
    if 0 <? add then
      match cfc_acquire c add with
      | None => inr E_FLOW
      | Some c' => inl ({| rst := rst s; cons := cons s; maxrecv := maxrecv s; fin_ := fin_ s; segs := segs s;
                           acq := acq s + add; rel := rel s; rsync := rsync s; swin := swin s |}, c')
      end
    else inl (s, c).

(* ReceiveStreamFlowController::release_window *)
Definition release (s : rs) (c : cfc) (amt : N) : rs * cfc :=
  let rel' := rel s + amt in
  ({| rst := rst s; cons := cons s; maxrecv := maxrecv s; fin_ := fin_ s; segs := segs s; acq := acq s;
      rel := rel'; rsync := ivs_update (rsync s) (sat_add rel' (swin s)); swin := swin s |},
   cfc_release c amt).

(* Reassembler::write_reader up to and including Cursors::handle_reader_fin, then the write *)
Definition buf_write (s : rs) (off e : N) (fin : bool) (tag : N) : rs + N :=
  let chk :=
    match fin, fin_ s with
    | true, Some f => if e =? f then Some (fin_ s) else None
    | true, None => if maxrecv s <=? e then Some (Some e) else None
    | false, Some f => if e <=? f then Some (fin_ s) else None
    | false, None => Some None
    end in
  match chk with
  | None => inr E_FINAL
  | Some f' =>
      inl {| rst := rst s; cons := cons s; maxrecv := N.max (maxrecv s) e; fin_ := f';
             segs := ins (N.max off (cons s)) e tag (segs s); acq := acq s; rel := rel s;
             rsync := rsync s; swin := swin s |}
  end.

(* ReceiveStream::on_data; [None] in the last component = the debug-build overflow panic of
   MissingData::on_data (offset + len above 2^62-1 while Stopping) *)
Inductive res := ROk (s : rs) (c : cfc) | RErr (code : N) | RPanic.

Definition on_data (s : rs) (c : cfc) (off len : N) (fin : bool) (tag : N) : res :=
  match rst s with
  | ResetSt | DataRead => ROk s c
  | Stopping ms me done =>
      if varint_max <? off + len then RPanic else
      (* MissingData::on_data *)
      let fe := off + len in
      let ms' := if (off <=? ms) && (ms <? fe) then fe else ms in
      let me' := if fin || ((off <=? me) && (me <? fe)) then N.min me off else me in
      ROk (rs_set_state s (Stopping ms' me' (done || (me' <=? ms')))) c
  | Receiving =>
      let e := off + len in
      if varint_max <? e then RErr E_FLOW else
      let acquired := match fin_ s with
                      | None => acquire_up_to s c e
                      | Some _ => inl (s, c)
                      end in
      match acquired with
      | inr code => RErr code
      | inl (s1, c1) =>
          match buf_write s1 off e fin tag with
          | inr code => RErr code
          | inl s2 =>
              let s3 := if fin then rs_set_sync s2 (ivs_cancel (rsync s2)) else s2 in
              match fin_ s3 with
              | Some total => if fin && (cons s3 =? total) then ROk (rs_buf_reset s3 DataRead) c1 else ROk s3 c1
              | None => ROk s3 c1
              end
          end
      end
  end.

(* the tail of init_reset: stop_sync, buffer reset, release_outstanding_window, state := Reset *)
Definition do_reset (s : rs) (c : cfc) : rs * cfc :=
  let s1 := rs_buf_reset (rs_set_sync s (ivs_cancel (rsync s))) ResetSt in
  release s1 c (acq s1 - rel s1).

(* ReceiveStream::init_reset; [size] = Some final_size for a RESET_STREAM frame, None for an
   internal reset *)
Definition init_reset (s : rs) (c : cfc) (size : option N) : rs * cfc + N :=
  match rst s with
  | ResetSt | DataRead => inl (s, c)
  | Receiving =>
      match fin_ s with
      | Some total =>
          let mismatch := match size with Some a => negb (a =? total) | None => false end in
          if mismatch then inr E_FINAL
          else if contig (cons s) (segs s) =? total then inl (s, c)
          else inl (do_reset s c)
      | None =>
          match size with
          | Some a => match acquire_up_to s c a with
                      | inr code => inr code
                      | inl (s1, c1) => inl (do_reset s1 c1)
                      end
          | None => inl (do_reset s c)
          end
      end
  | Stopping _ _ _ =>
      match size with
      | Some a => match acquire_up_to s c a with
                  | inr code => inr code
                  | inl (s1, c1) => inl (do_reset s1 c1)
                  end
      | None => inl (do_reset s c)
      end
  end.

(* application: poll_request with stop_sending *)
Definition app_stop (s : rs) : rs :=
  match rst s with
  | ResetSt | Stopping _ _ _ | DataRead => s
  | Receiving =>
      let stopping := Stopping (contig (cons s) (segs s)) u64_max false in
      match fin_ s with
      | Some total => if contig (cons s) (segs s) =? total then rs_set_state s DataRead
                      else rs_buf_reset s stopping
      | None => rs_buf_reset s stopping
      end
  end.

(* application: read at most n bytes. None = the request fails with a stream error *)
Definition app_read (s : rs) (c : cfc) (n : N) : option (list (N * N) * bool * rs * cfc) :=
  match rst s with
  | ResetSt | Stopping _ _ _ => None
  | DataRead => Some ([], true, s, c)
  | Receiving =>
      let '(runs, pos, segs') := take (cons s) n (segs s) in
      let k := pos - cons s in
      let s1 := {| rst := rst s; cons := pos; maxrecv := maxrecv s; fin_ := fin_ s; segs := segs';
                   acq := acq s; rel := rel s; rsync := rsync s; swin := swin s |} in
      let '(s2, c2) := if 0 <? k then release s1 c k else (s1, c) in
      match fin_ s2 with
      | Some total => if total =? pos then Some (runs, true, rs_buf_reset s2 DataRead, c2)
                      else Some (runs, false, s2, c2)
      | None => Some (runs, false, s2, c2)
      end
  end.

(* ---------------- manager: 4 streams, one connection controller ---------------- *)

Record mstate := { conn : cfc; strs : list rs; npn : N; ntag : N; opened : nat }.

Definition nstreams : nat := 4.

Definition minit (ws wl wc : N) : mstate :=
  {| conn := cfc_new wc; strs := [rs_new ws; rs_new ws; rs_new wl; rs_new wl]; npn := 0; ntag := 1; opened := O |}.

(* does stream i exist?  the locally opened ones (2, 3) always do *)
Definition is_open (m : mstate) (i : nat) : bool := (2 <=? i)%nat || (i <? opened m)%nat.

Definition get (m : mstate) (i : nat) : rs := nth i (strs m) (rs_new 0).
Definition put (m : mstate) (i : nat) (s : rs) (c : cfc) : mstate :=
  {| conn := c; strs := set_nth i (strs m) s; npn := npn m; ntag := ntag m; opened := opened m |}.

(* open_stream_if_necessary: a frame for stream i creates all streams of the type up to i *)
Definition open_count (n i : nat) : nat := if (i <? 2)%nat then Nat.max n (S i) else n.
Definition open_upto (m : mstate) (i : nat) : mstate :=
  {| conn := conn m; strs := strs m; npn := npn m; ntag := ntag m; opened := open_count (opened m) i |}.

Inductive op :=
| OStream (i : nat) (off len : N) (fin : bool)
| OReset (i : nat) (size : N)
| ORead (i : nat) (n : N)
| OStop (i : nat)
| OTransmit
| OAck (k : N)
| OLoss (k : N)
| OBlocked (i : nat).

Definition max_len : N := 65536.

Definition sidx (z : Z) : nat := N.to_nat (zN z mod 4).

Fixpoint parse (fuel : nat) (l : list Z) : list op :=
  match fuel with
  | O => []
  | S f =>
    match l with
    | [] => []
    | k :: r =>
      let a := hd 0%Z r in let r1 := tl r in
      let b := hd 0%Z r1 in let r2 := tl r1 in
      let c := hd 0%Z r2 in let r3 := tl r2 in
      let d := hd 0%Z r3 in let r4 := tl r3 in
      if (k =? 1)%Z then OStream (sidx a) (N.min (zN b) varint_max) (N.min (zN c) max_len) (negb (d =? 0)%Z) :: parse f r4
      else if (k =? 2)%Z then OReset (sidx a) (N.min (zN b) varint_max) :: parse f r2
      else if (k =? 3)%Z then ORead (sidx a) (zN b) :: parse f r2
      else if (k =? 4)%Z then OStop (sidx a) :: parse f r1
      else if (k =? 5)%Z then OTransmit :: parse f r
      else if (k =? 6)%Z then OAck (zN a) :: parse f r1
      else if (k =? 7)%Z then OLoss (zN a) :: parse f r1
      else if (k =? 8)%Z then OBlocked (sidx a) :: parse f r1
      else []
    end
  end.

Definition enc_runs (runs : list (N * N)) : list Z :=
  flat_map (fun r => [Nz (fst r); Nz (snd r)]) runs.

Definition sum_runs (runs : list (N * N)) : N := fold_right (fun r a => snd r + a) 0 runs.

Definition enc_read (r : option (list (N * N) * bool)) : list Z :=
  match r with
  | None => [(-1)%Z]
  | Some (runs, f) => Nz (sum_runs runs) :: bz f :: Z.of_nat (length runs) :: enc_runs runs
  end.

Definition oz (o : option N) : Z := match o with Some v => Nz v | None => (-1)%Z end.

(* manager.close(): every stream gets on_internal_reset; then what the application can still read *)
Fixpoint close_all (l : list rs) (c : cfc) : list rs * cfc :=
  match l with
  | [] => ([], c)
  | s :: r =>
      let '(s', c') := match init_reset s c None with inl x => x | inr _ => (s, c) end in
      let '(r', c'') := close_all r c' in (s' :: r', c'')
  end.

Fixpoint post_mortem (l : list rs) (c : cfc) : list Z :=
  match l with
  | [] => []
  | s :: r =>
      match app_read s c varint_max with
      | None => enc_read None ++ post_mortem r c
      | Some (runs, f, _, c') => enc_read (Some (runs, f)) ++ post_mortem r c'
      end
  end.

Definition closed_out (m : mstate) : list Z :=
  let '(l, c) := close_all (strs m) (conn m) in post_mortem l c.

Definition transmit_strs (pn : N) (l : list rs) : list Z * list rs :=
  fold_right (fun s acc =>
                match rst s with
                | Stopping _ _ true => ((-1)%Z :: fst acc, s :: snd acc)
                | _ => let '(v, y) := ivs_transmit (rsync s) pn in
                       (oz v :: fst acc, rs_set_sync s y :: snd acc)
                end) ([], []) l.

(* one operation: new state, output, and whether the connection was closed by it *)
Definition step (m : mstate) (o : op) : mstate * list Z * bool :=
  match o with
  | OStream i off len fin =>
      let m1 := {| conn := conn m; strs := strs m; npn := npn m; ntag := ntag m + 1; opened := open_count (opened m) i |} in
      match on_data (get m i) (conn m) off len fin (ntag m) with
      | ROk s c => (put m1 i s c, [0%Z], false)
      | RErr code => (m1, Nz code :: closed_out m1, true)
      | RPanic => (m1, [(-99)%Z], true)
      end
  | OReset i size =>
      let m1 := open_upto m i in
      match init_reset (get m i) (conn m) (Some size) with
      | inl (s, c) => (put m1 i s c, [0%Z], false)
      | inr code => (m1, Nz code :: closed_out m1, true)
      end
  | OBlocked i => (open_upto m i, [0%Z], false)
  | ORead i n =>
      if negb (is_open m i) then (m, enc_read None, false) else
      match app_read (get m i) (conn m) n with
      | None => (m, enc_read None, false)
      | Some (runs, f, s, c) => (put m i s c, enc_read (Some (runs, f)), false)
      end
  | OStop i =>
      if negb (is_open m i) then (m, [], false) else
      (put m i (app_stop (get m i)) (conn m), [], false)
  | OTransmit =>
      let pn := npn m in
      let '(v, y) := ivs_transmit (csync (conn m)) pn in
      let c' := {| csync := y; cacq := cacq (conn m); ccons := ccons (conn m); cwin := cwin (conn m) |} in
      let '(outs, l') := transmit_strs pn (strs m) in
      ({| conn := c'; strs := l'; npn := pn + 1; ntag := ntag m; opened := opened m |}, oz v :: outs, false)
  | OAck k =>
      let c := conn m in
      ({| conn := {| csync := ivs_ack (csync c) k k; cacq := cacq c; ccons := ccons c; cwin := cwin c |};
          strs := map (fun s => rs_set_sync s (ivs_ack (rsync s) k k)) (strs m);
          npn := npn m; ntag := ntag m; opened := opened m |}, [], false)
  | OLoss k =>
      let c := conn m in
      ({| conn := {| csync := ivs_loss (csync c) k k; cacq := cacq c; ccons := ccons c; cwin := cwin c |};
          strs := map (fun s => rs_set_sync s (ivs_loss (rsync s) k k)) (strs m);
          npn := npn m; ntag := ntag m; opened := opened m |}, [], false)
  end.

Fixpoint steps (m : mstate) (ops : list op) : list Z :=
  match ops with
  | [] => []
  | o :: r => let '(m', out, stop) := step m o in if stop then out else out ++ steps m' r
  end.

Definition u32 (z : Z) : N := N.min (zN z) u32_max.

(* case = [stream window of peer-initiated streams; stream window of locally initiated streams;
           connection window; ops ...] *)
Definition run (c : list Z) : list Z :=
  let ws := u32 (hd 0%Z c) in
  let wl := u32 (hd 0%Z (tl c)) in
  let wc := u32 (hd 0%Z (tl (tl c))) in
  steps (minit ws wl wc) (parse (length c) (tl (tl (tl c)))).
