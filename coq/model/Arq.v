(* C01 composition model: an application byte stream carried over an arbitrary network.
   Sender side: every STREAM frame is a slice of what the application wrote (C12,
   frames_are_slices).  Network: drops, duplicates, reorders, delays at will; corrupted or
   truncated datagrams are rejected by packet protection (ideal AEAD, C06) - so what reaches the
   receiver's stream is an ARBITRARY LIST of sender frames.  Receiver side: the reassembly buffer
   behaves as a first-write-wins byte map that hands out the contiguous prefix (C01/C16,
   reasm_refines).  Pure mathematics: offsets are nat, bytes any type. *)
From Coq Require Import List Arith Lia Bool.
Import ListNotations.

Section Arq.
  Variable byte : Type.

  Record frame := { f_off : nat; f_data : list byte; f_fin : bool }.

  (* bytes [off, off+len) of the written stream *)
  Definition slice (w : list byte) (off len : nat) : list byte := firstn len (skipn off w).

  (* a frame the sender may emit for the written bytes w (finished or not) *)
  Definition consistent (w : list byte) (finished : bool) (f : frame) : Prop :=
    f_off f + length (f_data f) <= length w /\
    f_data f = slice w (f_off f) (length (f_data f)) /\
    (f_fin f = true -> finished = true /\ f_off f + length (f_data f) = length w).

  (* receiver: first-write-wins map from offset to byte, plus the final size once a FIN arrived *)
  Record rstate := { r_buf : list (option byte); r_final : option nat }.
  Definition rinit : rstate := {| r_buf := []; r_final := None |}.

  (* store byte b at offset i unless one is already there *)
  Fixpoint put (buf : list (option byte)) (i : nat) (b : byte) : list (option byte) :=
    match i, buf with
    | O, [] => [Some b]
    | O, None :: t => Some b :: t
    | O, Some x :: t => Some x :: t
    | S j, [] => None :: put [] j b
    | S j, h :: t => h :: put t j b
    end.

  Fixpoint put_all (buf : list (option byte)) (off : nat) (data : list byte) : list (option byte) :=
    match data with
    | [] => buf
    | b :: t => put_all (put buf off b) (S off) t
    end.

  Definition on_frame (s : rstate) (f : frame) : rstate :=
    {| r_buf := put_all (r_buf s) (f_off f) (f_data f);
       r_final := match r_final s with
                  | Some z => Some z
                  | None => if f_fin f then Some (f_off f + length (f_data f)) else None
                  end |}.

  (* the contiguous prefix the application can read *)
  Fixpoint prefix (buf : list (option byte)) : list byte :=
    match buf with
    | Some b :: t => b :: prefix t
    | _ => []
    end.

  Definition deliver (fs : list frame) : rstate := fold_left on_frame fs rinit.

  (* the application has read n bytes so far: the first n bytes of the prefix *)
  Definition bytes_read (s : rstate) (n : nat) : list byte := firstn n (prefix (r_buf s)).
  (* clean end of stream: a FIN arrived and the whole prefix up to the final size was read *)
  Definition clean_fin (s : rstate) (n : nat) : Prop :=
    exists z, r_final s = Some z /\ n = z /\ z <= length (prefix (r_buf s)).
End Arq.
