(* Model of local stream opening:
     quic/s2n-quic-core/src/stream/id.rs                 (StreamId::{initial, next_of_type})
     quic/s2n-quic-transport/src/stream/manager.rs       (next_stream_ids, poll_open_local_stream)
     quic/s2n-quic-transport/src/stream/controller.rs, controller/local_initiated.rs
       (LocalInitiated::{poll_open_stream, on_open_stream, on_close_stream, on_max_streams,
        available_stream_capacity, peer_capacity})
   and the judgements of the `st` driver (harness/h_transport/src/streams_driver.rs).
   Executable definitions only. *)
From SQ Require Import lib.Base gen.Gen_C12.
Local Open Scope N_scope.

Record lctl := mk_lctl { l_peer : N; l_local : N; l_opened : N; l_closed : N }.

(* available_stream_capacity = min(local limit - open streams (saturating), peer limit - opened (saturating)) *)
Definition l_avail (c : lctl) : N :=
  N.min (l_local c - (l_opened c - l_closed c)) (l_peer c - l_opened c).

Definition l_max_streams (c : lctl) (v : N) : lctl :=
  if v <=? l_peer c then c else mk_lctl v (l_local c) (l_opened c) (l_closed c).

Definition sid_initial (server : bool) (t : N) : N :=
  match t, server with
  | 0, false => Gen_C12.sid_initial_bidi_client
  | 0, true => Gen_C12.sid_initial_bidi_server
  | _, false => Gen_C12.sid_initial_uni_client
  | _, true => Gen_C12.sid_initial_uni_server
  end.

(* poll_open_local_stream: None = Pending, Some id = opened *)
Definition l_open (server : bool) (t : N) (c : lctl) : option N * lctl :=
  if l_avail c <? 1 then (None, c)
  else (Some (sid_initial server t + Gen_C12.stream_id_step * l_opened c),
        mk_lctl (l_peer c) (l_local c) (l_opened c + 1) (l_closed c)).

Definition l_close (c : lctl) : lctl := mk_lctl (l_peer c) (l_local c) (l_opened c) (l_closed c + 1).

Record sm := mk_sm { sm_bidi : lctl; sm_uni : lctl; sm_flags : list bool (* closed flag per opened uni stream *) }.

Definition lim_of (sel : N) : N :=
  match sel mod 7 with 0 => 0 | 1 => 1 | 2 => 2 | 3 => 3 | 4 => 5 | 5 => 8 | _ => 100 end.

Definition nx (l : list Z) : Z * list Z := match l with [] => (0%Z, []) | x :: t => (x, t) end.

Fixpoint set_flag (i : nat) (l : list bool) : list bool :=
  match l, i with [], _ => [] | _ :: t, O => true :: t | x :: t, S j => x :: set_flag j t end.

Definition big : N := 1152921504606846976.   (* 2^60 *)

Fixpoint run_ops (fuel : nat) (server : bool) (s : sm) (ops : list Z) : list Z :=
  match fuel with
  | O => []
  | S fuel =>
      match ops with
      | [] => []
      | 1%Z :: r =>
          let '(a, r) := nx r in
          let t := zN a mod 2 in
          if 64 <=? l_opened (sm_bidi s) + l_opened (sm_uni s) then []
          else
            let c := if t =? 0 then sm_bidi s else sm_uni s in
            match l_open server t c with
            | (Some id, c') =>
                let s' := if t =? 0 then mk_sm c' (sm_uni s) (sm_flags s)
                          else mk_sm (sm_bidi s) c' (sm_flags s ++ [false]) in
                [1%Z; Nz t; Nz id] ++ run_ops fuel server s' r
            | (None, _) => [1%Z; Nz t; (-1)%Z] ++ run_ops fuel server s r
            end
      | 4%Z :: r =>
          (* another application handle (own open token and waker) polls: whether a stream is opened
             depends on the available capacity alone, never on the token *)
          let '(_, r) := nx r in
          let '(a, r) := nx r in
          let t := zN a mod 2 in
          if 64 <=? l_opened (sm_bidi s) + l_opened (sm_uni s) then []
          else
            let c := if t =? 0 then sm_bidi s else sm_uni s in
            match l_open server t c with
            | (Some id, c') =>
                let s' := if t =? 0 then mk_sm c' (sm_uni s) (sm_flags s)
                          else mk_sm (sm_bidi s) c' (sm_flags s ++ [false]) in
                [4%Z; Nz t; Nz id] ++ run_ops fuel server s' r
            | (None, _) => [4%Z; Nz t; (-1)%Z] ++ run_ops fuel server s r
            end
      | 2%Z :: r =>
          let '(a, r) := nx r in let '(b, r) := nx r in
          let t := zN a mod 2 in
          let v := N.min (zN b) big in
          let s' := if t =? 0 then mk_sm (l_max_streams (sm_bidi s) v) (sm_uni s) (sm_flags s)
                    else mk_sm (sm_bidi s) (l_max_streams (sm_uni s) v) (sm_flags s) in
          2%Z :: run_ops fuel server s' r
      | 3%Z :: r =>
          let '(a, r) := nx r in
          let s' :=
            match sm_flags s with
            | [] => s
            | _ =>
                let j := N.to_nat (zN a mod N.of_nat (length (sm_flags s))) in
                if nth j (sm_flags s) false then s
                else mk_sm (sm_bidi s) (l_close (sm_uni s)) (set_flag j (sm_flags s))
            end in
          3%Z :: run_ops fuel server s' r
      | _ => []
      end
  end.

Definition run (case : list Z) : list Z :=
  let '(a, r) := nx case in let '(b, r) := nx r in let '(c, r) := nx r in
  let '(d, r) := nx r in let '(e, r) := nx r in
  let server := (zN a mod 2 =? 1) in
  run_ops (length r) server
          (mk_sm (mk_lctl (N.min (zN b) big) (lim_of (zN d)) 0 0)
                 (mk_lctl (N.min (zN c) big) (lim_of (zN e)) 0 0) []) r.

(* ---- judgements, recomputed from the operations and the ids the implementation handed out ---- *)
(* monitor per type: last id handed out (None before the first), largest MAX_STREAMS received *)
Record mty := mk_mty { y_last : option N; y_lim : N }.

(* C12: ids of a type have the type's low bits and strictly increase (hence are never reused)
   C03: the stream index of an opened stream is below the largest MAX_STREAMS received *)
Definition ok12 (server : bool) (t : N) (y : mty) (id : N) : bool :=
  (id mod Gen_C12.stream_id_step =? sid_initial server t)
  && match y_last y with None => true | Some l => l <? id end.
Definition ok03 (server : bool) (t : N) (y : mty) (id : N) : bool :=
  id / Gen_C12.stream_id_step <? y_lim y.

Fixpoint walk (ok : bool -> N -> mty -> N -> bool) (fuel : nat) (server : bool) (yb yu : mty)
              (ops out : list Z) : bool :=
  match fuel with
  | O => true
  | S fuel =>
      match ops with
      | [] => true
      | 1%Z :: r =>
          let '(a, r) := nx r in
          let t := zN a mod 2 in
          match out with
          | [] => true                  (* the drivers stop after 64 opened streams *)
          | 1%Z :: _ :: res :: o =>
              if (res <? 0)%Z then walk ok fuel server yb yu r o
              else
                let id := zN res in
                let y := if t =? 0 then yb else yu in
                if ok server t y id then
                  let y' := mk_mty (Some id) (y_lim y) in
                  if t =? 0 then walk ok fuel server y' yu r o else walk ok fuel server yb y' r o
                else false
          | _ => false
          end
      | 4%Z :: r =>
          let '(_, r) := nx r in
          let '(a, r) := nx r in
          let t := zN a mod 2 in
          match out with
          | [] => true
          | 4%Z :: _ :: res :: o =>
              if (res <? 0)%Z then walk ok fuel server yb yu r o
              else
                let id := zN res in
                let y := if t =? 0 then yb else yu in
                if ok server t y id then
                  let y' := mk_mty (Some id) (y_lim y) in
                  if t =? 0 then walk ok fuel server y' yu r o else walk ok fuel server yb y' r o
                else false
          | _ => false
          end
      | 2%Z :: r =>
          let '(a, r) := nx r in let '(b, r) := nx r in
          let t := zN a mod 2 in
          let v := N.min (zN b) big in
          match out with
          | 2%Z :: o =>
              if t =? 0 then walk ok fuel server (mk_mty (y_last yb) (N.max (y_lim yb) v)) yu r o
              else walk ok fuel server yb (mk_mty (y_last yu) (N.max (y_lim yu) v)) r o
          | _ => false
          end
      | 3%Z :: r =>
          let '(_, r) := nx r in
          match out with 3%Z :: o => walk ok fuel server yb yu r o | _ => false end
      | _ => true
      end
  end.

Definition judge_with (ok : bool -> N -> mty -> N -> bool) (case out : list Z) : bool :=
  let '(a, r) := nx case in let '(b, r) := nx r in let '(c, r) := nx r in
  let '(_, r) := nx r in let '(_, r) := nx r in
  let server := (zN a mod 2 =? 1) in
  walk ok (length r) server (mk_mty None (N.min (zN b) big)) (mk_mty None (N.min (zN c) big)) r out.

Definition judge12 := judge_with ok12.
Definition judge03 := judge_with ok03.
