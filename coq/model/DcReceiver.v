(* Model of dc/s2n-quic-dc/src/path/secret/receiver.rs (State::{new, pre_authentication,
   post_authentication, minimum_unseen_key_id}).  Executable definitions only. *)
From SQ Require Import lib.Base gen.Gen_C19.
Local Open Scope N_scope.

Record rstate := { max_seen : N; seen : list bool }.

(* State::new: max_seen_key_id = u64::MAX, all bits clear; the bit array has WINDOW bits *)
Definition rinit : rstate :=
  {| max_seen := u64_max; seen := repeat false (N.to_nat window) |}.

Inductive rres := ROk | RExists | RUnknown.

(* bitvec shift_end: bit i moves to i + d, the first d bits are cleared *)
Definition shift_end (d : nat) (l : list bool) : list bool :=
  firstn (length l) (repeat false d ++ l).

Definition pre (id : N) : rres := if id =? varint_max then RUnknown else ROk.

Definition post (s : rstate) (id : N) : rstate * rres :=
  if id =? varint_max then (s, RUnknown) else
  let prev := max_seen s in
  let prev' := if prev =? u64_max then 0 else prev in
  let new_max := if prev =? u64_max then id else N.max prev id in
  let delta := new_max - prev' in
  let len := N.of_nat (length (seen s)) in
  let seen1 := if len <? delta then repeat false (length (seen s))
               else shift_end (N.to_nat delta) (seen s) in
  let idx := new_max - id in
  if idx <? len then
    if nth (N.to_nat idx) seen1 false
    then ({| max_seen := new_max; seen := seen1 |}, RExists)
    else ({| max_seen := new_max; seen := set_nth (N.to_nat idx) seen1 true |}, ROk)
  else ({| max_seen := new_max; seen := seen1 |}, RUnknown).

Definition min_unseen (s : rstate) : N :=
  let v := (max_seen s + 1) mod 18446744073709551616 in
  if v <=? varint_max then v else varint_max.

Definition rcode (r : rres) : Z := match r with ROk => 0 | RExists => 1 | RUnknown => 2 end.

(* harness protocol: input = key ids; output per id = [pre code; post code; minimum_unseen_key_id] *)
Fixpoint run_from (s : rstate) (ids : list Z) : list Z :=
  match ids with
  | [] => []
  | z :: t =>
      let id := zN z in
      let '(s', r) := post s id in
      rcode (pre id) :: rcode r :: Nz (min_unseen s') :: run_from s' t
  end.
Definition run (ids : list Z) : list Z := run_from rinit ids.

(* ---- the property as an executable judgement on an implementation's output ---- *)

(* ids accepted so far are kept newest first *)
Definition in_window (acc : list N) (id : N) : bool :=
  match max_list acc with None => true | Some m => m <? id + 896 end.

(* "must accept": not yet accepted, not the reserved maximum, above or less than 896 below the
   highest accepted id *)
Definition must_accept (acc : list N) (id : N) : bool :=
  negb (id =? varint_max) && negb (mem_N id acc) && in_window acc id.

Fixpoint judge_from (acc : list N) (ids out : list Z) : bool :=
  match ids, out with
  | [], [] => true
  | z :: t, _ :: c :: _ :: o =>
      let id := zN z in
      let accepted := (c =? 0)%Z in
      (* accepted at most once *)
      (if accepted then negb (mem_N id acc) else true)
      (* every not-yet-seen id inside the window is accepted *)
      && (if must_accept acc id then accepted else true)
      && judge_from (if accepted then id :: acc else acc) t o
  | _, _ => false
  end.
Definition judge (ids out : list Z) : bool := judge_from [] ids out.
