(* Model of quic/s2n-quic-core/src/sync/worker.rs: channel(), Sender::{submit, drop},
   Receiver::{poll_acquire, finish}, with the AtomicWaker of Spsc.v.  One Sender handle (see the note on
   Clone in props/C17.v).  Every atomic access is one program-counter step of a sender thread or of the
   receiver thread; the program counters reuse Spsc.pc:
     receiver  Acq QPoll1 Q1 = remaining.swap(0, Acquire) before registering,  Reg r = register,
               Acq QPoll2 Q1 = the swap after registering, Acq QPoll2 Q2 = senders.load(Acquire),
               Acq QPoll2 Q3 = the last swap when no sender is left
     sender    Persist = remaining.fetch_add(count, Release), Wk KPersist w = receiver.wake(),
               Swap = senders.fetch_sub(1, Release),          Wk KClose2 w = receiver.wake(), then Done.
   Interleaving (SC) semantics only.  Executable definitions only. *)
From SQ Require Import lib.Base gen.Gen_C17.
From SQ Require Import model.Spsc.
Local Open Scope N_scope.

Record wst := mkWs {
  remaining : N;
  senders : N;
  wk : waker;
  notif : bool;
  wakes : N;
  rpc : pc;
  credits : N;
  parked : bool;
  rcode : N;
  spc : pc;
  scount : N;
  submitted : N;
  finished : N
}.
Definition set_remaining (v : N) (s : wst) : wst := mkWs v (senders s) (wk s) (notif s) (wakes s) (rpc s) (credits s) (parked s) (rcode s) (spc s) (scount s) (submitted s) (finished s).
Definition set_senders (v : N) (s : wst) : wst := mkWs (remaining s) v (wk s) (notif s) (wakes s) (rpc s) (credits s) (parked s) (rcode s) (spc s) (scount s) (submitted s) (finished s).
Definition set_wk (v : waker) (s : wst) : wst := mkWs (remaining s) (senders s) v (notif s) (wakes s) (rpc s) (credits s) (parked s) (rcode s) (spc s) (scount s) (submitted s) (finished s).
Definition set_notif (v : bool) (s : wst) : wst := mkWs (remaining s) (senders s) (wk s) v (wakes s) (rpc s) (credits s) (parked s) (rcode s) (spc s) (scount s) (submitted s) (finished s).
Definition set_wakes (v : N) (s : wst) : wst := mkWs (remaining s) (senders s) (wk s) (notif s) v (rpc s) (credits s) (parked s) (rcode s) (spc s) (scount s) (submitted s) (finished s).
Definition set_rpc (v : pc) (s : wst) : wst := mkWs (remaining s) (senders s) (wk s) (notif s) (wakes s) v (credits s) (parked s) (rcode s) (spc s) (scount s) (submitted s) (finished s).
Definition set_credits (v : N) (s : wst) : wst := mkWs (remaining s) (senders s) (wk s) (notif s) (wakes s) (rpc s) v (parked s) (rcode s) (spc s) (scount s) (submitted s) (finished s).
Definition set_parked (v : bool) (s : wst) : wst := mkWs (remaining s) (senders s) (wk s) (notif s) (wakes s) (rpc s) (credits s) v (rcode s) (spc s) (scount s) (submitted s) (finished s).
Definition set_rcode (v : N) (s : wst) : wst := mkWs (remaining s) (senders s) (wk s) (notif s) (wakes s) (rpc s) (credits s) (parked s) v (spc s) (scount s) (submitted s) (finished s).
Definition set_spc (v : pc) (s : wst) : wst := mkWs (remaining s) (senders s) (wk s) (notif s) (wakes s) (rpc s) (credits s) (parked s) (rcode s) v (scount s) (submitted s) (finished s).
Definition set_scount (v : N) (s : wst) : wst := mkWs (remaining s) (senders s) (wk s) (notif s) (wakes s) (rpc s) (credits s) (parked s) (rcode s) (spc s) v (submitted s) (finished s).
Definition set_submitted (v : N) (s : wst) : wst := mkWs (remaining s) (senders s) (wk s) (notif s) (wakes s) (rpc s) (credits s) (parked s) (rcode s) (spc s) (scount s) v (finished s).
Definition set_finished (v : N) (s : wst) : wst := mkWs (remaining s) (senders s) (wk s) (notif s) (wakes s) (rpc s) (credits s) (parked s) (rcode s) (spc s) (scount s) (submitted s) v.

Notation "s .> f" := (f s) (at level 45, left associativity, only parsing).

Definition winit : wst := mkWs 0 1 w_init false 0 Idle 0 false 0 Idle 0 0 0.

Definition wnotify (s : wst) : wst := s .> set_notif true .> set_wakes (wakes s + 1).

(* `self.credits += state.remaining.swap(0, Acquire); if self.credits > 0 { return Ready(Some) }` *)
Definition acquire_step (s : wst) : wst * bool :=
  let s1 := s .> set_credits (credits s + remaining s) .> set_remaining 0 in
  (s1, 0 <? credits s1).

Definition rstep (s : wst) : wst :=
  match rpc s with
  | Acq QPoll1 _ =>
      let '(s1, got) := acquire_step s in
      if got then s1 .> set_rcode 1 .> set_rpc Idle else s1 .> set_rpc (Reg R1)
  | Reg r =>
      let '(w, nxt, nt) := reg_step (wk s) r in
      let s1 := s .> set_wk w in
      let s2 := if nt then wnotify s1 else s1 in
      match nxt with Some r' => s2 .> set_rpc (Reg r') | None => s2 .> set_rpc (Acq QPoll2 Q1) end
  | Acq QPoll2 Q1 =>
      let '(s1, got) := acquire_step s in
      if got then s1 .> set_rcode 1 .> set_rpc Idle else s1 .> set_rpc (Acq QPoll2 Q2)
  | Acq QPoll2 Q2 =>                                         (* senders.load(Acquire) == 0 *)
      if senders s =? 0 then s .> set_rpc (Acq QPoll2 Q3)
      else s .> set_rcode 0 .> set_parked true .> set_rpc Idle     (* Poll::Pending *)
  | Acq QPoll2 Q3 =>
      let '(s1, got) := acquire_step s in
      if got then s1 .> set_rcode 1 .> set_rpc Idle else s1 .> set_rcode 2 .> set_rpc Idle
  | _ => s
  end.

Definition rbegin (s : wst) : wst :=
  s .> set_notif false .> set_parked false .> set_rpc (Acq QPoll1 Q1).

(* Receiver::finish(count): local *)
Definition rfinish (n : N) (s : wst) : wst :=
  let n := N.min n (credits s) in
  s .> set_credits (credits s - n) .> set_finished (finished s + n) .> set_parked false.

Definition two64 : N := 18446744073709551616.

Definition sstep (s : wst) : wst :=
  match spc s with
  | Persist =>                                               (* remaining.fetch_add(count, Release) *)
      s .> set_remaining ((remaining s + scount s) mod two64) .> set_submitted (submitted s + scount s)
        .> set_spc (Wk KPersist W1)
  | Swap =>                                                  (* senders.fetch_sub(1, Release) *)
      s .> set_senders ((senders s + two64 - 1) mod two64) .> set_spc (Wk KClose2 W1)
  | Wk k w =>
      let '(w', nxt, nt) := wake_step (wk s) w in
      let s1 := s .> set_wk w' in
      let s2 := if nt then wnotify s1 else s1 in
      match nxt with
      | Some w2 => s2 .> set_spc (Wk k w2)
      | None => match k with KClose2 => s2 .> set_spc Done | _ => s2 .> set_spc Idle end
      end
  | _ => s
  end.

Inductive sop := SSubmit (n : N) | SDrop.
Definition sbegin (op : sop) (s : wst) : wst :=
  match op with
  | SSubmit n => s .> set_scount n .> set_spc Persist
  | SDrop => s .> set_spc Swap
  end.

(* the system: true = sender thread, false = receiver thread (whose program is a number of polls) *)
Record wsys := mkWy { z_st : wst; z_sp : list sop; z_rp : nat }.
Definition wsys_step (y : wsys) (t : bool) : wsys :=
  let s := z_st y in
  if t then
    match spc s with
    | Idle => match z_sp y with [] => y | op :: r => mkWy (sbegin op s) r (z_rp y) end
    | Done => y
    | _ => mkWy (sstep s) (z_sp y) (z_rp y)
    end
  else
    match rpc s with
    | Idle => match z_rp y with O => y | S n => mkWy (rbegin s) (z_sp y) n end
    | _ => mkWy (rstep s) (z_sp y) (z_rp y)
    end.
Definition wexec (sched : list bool) (sp : list sop) (rp : nat) : wsys :=
  fold_left wsys_step sched (mkWy winit sp rp).

(* operation granularity for the harness *)
Fixpoint r_run (fuel : nat) (s : wst) : wst :=
  match fuel with O => s | S f => match rpc s with Idle => s | _ => r_run f (rstep s) end end.
Fixpoint s_run (fuel : nat) (s : wst) : wst :=
  match fuel with O => s | S f => match spc s with Idle | Done => s | _ => s_run f (sstep s) end end.

(* case = (op, arg)*: 0 submit(arg); 1 poll_acquire -> code (0 Pending, 1 Some, 2 None), credits;
   2 finish(min arg credits) -> credits; 3 drop the sender (9 if gone).  Every op also prints the wake count *)
Fixpoint wrun (fuel : nat) (ops : list Z) (s : wst) : list Z :=
  match fuel with O => [] | S f =>
  match ops with
  | [] => []
  | op :: r =>
    let arg := N.min (zN (hd 0%Z r)) 1000000 in
    match op with
    | 0%Z => match spc s with
             | Done => [9%Z; Nz (wakes s)] ++ wrun f (tl r) s
             | _ => let s' := s_run 16 (sbegin (SSubmit arg) s) in [0%Z; Nz (wakes s')] ++ wrun f (tl r) s'
             end
    | 1%Z => let s' := r_run 32 (rbegin s) in [Nz (rcode s'); Nz (credits s'); Nz (wakes s')] ++ wrun f (tl r) s'
    | 2%Z => let s' := rfinish arg s in [Nz (credits s'); Nz (wakes s')] ++ wrun f (tl r) s'
    | _ => match spc s with
           | Done => [9%Z; Nz (wakes s)] ++ wrun f (tl r) s
           | _ => let s' := s_run 16 (sbegin SDrop s) in [0%Z; Nz (wakes s')] ++ wrun f (tl r) s'
           end
    end
  end end.
Definition run (case : list Z) : list Z := wrun (S (length case)) case winit.

(* the property on an implementation's output: credits are conserved (what poll_acquire hands out is
   what was submitted and not yet finished), None only after the sender is gone and nothing is left,
   Pending only while nothing is available and the sender is there, and a Pending poll is followed by
   a wake no later than the submit / drop that ends the wait *)
Record wj := mkWj { j_avail : Z; j_credits : Z; j_gone : bool; j_wait : option Z }.
Definition wwoken (w : option Z) (now : Z) : bool := match w with None => true | Some w0 => (w0 <? now)%Z end.
Fixpoint wjudge (fuel : nat) (ops : list Z) (j : wj) (out : list Z) : bool :=
  match fuel with O => false | S f =>
  match ops with
  | [] => match out with [] => true | _ => false end
  | op :: r =>
    let arg := Z.min (Z.max (hd 0%Z r) 0) 1000000 in
    match op, out with
    | 0%Z, c :: wk :: out' =>
        if (c =? 9)%Z then j_gone j && wjudge f (tl r) j out' else
        let ok := if (0 <? arg)%Z then wwoken (j_wait j) wk else true in
        ok && negb (j_gone j) &&
        wjudge f (tl r) (mkWj (j_avail j + arg) (j_credits j) false (if (0 <? arg)%Z then None else j_wait j)) out'
    | 1%Z, code :: cr :: wk :: out' =>
        let total := (j_avail j + j_credits j)%Z in
        match code with
        | 0%Z => (total =? 0)%Z && negb (j_gone j) && (cr =? 0)%Z
                 && wjudge f (tl r) (mkWj 0 0 (j_gone j) (Some wk)) out'
        | 1%Z => (cr =? total)%Z && (0 <? cr)%Z && wjudge f (tl r) (mkWj 0 cr (j_gone j) None) out'
        | 2%Z => (total =? 0)%Z && j_gone j && (cr =? 0)%Z && wjudge f (tl r) (mkWj 0 0 true None) out'
        | _ => false
        end
    | 2%Z, cr :: wk :: out' =>
        let n := Z.min arg (j_credits j) in
        (cr =? j_credits j - n)%Z && wjudge f (tl r) (mkWj (j_avail j) (j_credits j - n) (j_gone j) (j_wait j)) out'
    | _, c :: wk :: out' =>
        if (c =? 9)%Z then j_gone j && wjudge f (tl r) j out' else
        wwoken (j_wait j) wk && negb (j_gone j) && wjudge f (tl r) (mkWj (j_avail j) (j_credits j) true None) out'
    | _, _ => false
    end
  end end.
Definition judge (case out : list Z) : bool := wjudge (S (length case)) case (mkWj 0 0 false None) out.

Ltac wst_cbn := cbn [set_remaining set_senders set_wk set_notif set_wakes set_rpc set_credits set_parked set_rcode set_spc set_scount set_submitted set_finished remaining senders wk notif wakes rpc credits parked rcode spc scount submitted finished wnotify acquire_step] in *.
Ltac wdst s := destruct s as [xremaining xsenders xwk xnotif xwakes xrpc xcredits xparked xrcode xspc xscount xsubmitted xfinished].
