(* C18 -- the s2n-quic-dc packet layouts.

   Part 1 (component "sc"): the three secret-control packets
     dc/s2n-quic-dc/src/packet/secret_control.rs, secret_control/{unknown_path_secret,stale_key,
     replay_detected,encoder,decoder}.rs, packet/wire_version.rs

       tag byte | credential id (16) | wire version (1, must be 0) | [queue id varint] |
       [min_key_id / rejected_key_id varint]   <- "header", what the MAC covers
       | authentication tag (16)  (UnknownPathSecret: the stateless-reset tag)

   The reference layout below is written from the encoder; the decoder follows decoder.rs
   (header_len by a first parse, header slice, second parse of the slice, tag slice).
   Executable definitions only; proofs are in proofs/DcPacketProofs.v. *)
From SQ Require Import lib.Base lib.DcBytes gen.Gen_C18.
Local Open Scope N_scope.

(* ------------------------------------------------------------------ DecoderBuffer as a parser *)
(* a decoding step consumes a prefix of the buffer and returns a value with the remaining buffer
   (`let (v, buffer) = buffer.decode()?`); None = DecoderError *)
Definition parser (A : Type) := list N -> option (A * list N).
Definition pret {A} (a : A) : parser A := fun bs => Some (a, bs).
Definition pfail {A} : parser A := fun _ => None.
Definition pbind {A B} (f : parser A) (g : A -> parser B) : parser B :=
  fun bs => match f bs with None => None | Some (a, r) => g a r end.
Notation "x <- f ;; g" := (pbind f (fun x => g)) (at level 61, f at next level, right associativity).

(* DecoderBuffer::decode_slice(n) / skip(n): fails when fewer than n bytes remain *)
Definition take (n : nat) : parser (list N) :=
  fun bs => if (length bs <? n)%nat then None else Some (firstn n bs, skipn n bs).
(* a length given as a number (VarInt as usize): compared before it is converted *)
Definition takeN (n : N) : parser (list N) :=
  fun bs => if (N.of_nat (length bs) <? n) then None else take (N.to_nat n) bs.
Definition pbyte : parser N := fun bs => match bs with [] => None | b :: t => Some (b, t) end.
Definition pvarint : parser N := vdecode.
(* u16 / u32 in network byte order *)
Definition pbe (n : nat) : parser N := bs <- take n;; pret (be_acc 0 bs).
(* `if cond { let (v, buffer) = buffer.decode()?; (Some(v), buffer) } else { (None, buffer) }` *)
Definition popt {A} (c : bool) (f : parser A) : parser (option A) :=
  if c then (v <- f;; pret (Some v)) else pret None.
Definition pguard (c : bool) : parser unit := if c then pret tt else pfail.
(* mask test: Common::get *)
Definition bit (t mask : N) : bool := negb (N.land t mask =? 0).

Definition tag_len : nat := N.to_nat Gen_C18.tag_len.
Definition cred_len : nat := N.to_nat Gen_C18.credential_id_len.

(* ------------------------------------------------------------------ secret control *)
(* kind 0 = UnknownPathSecret, 1 = StaleKey, 2 = ReplayDetected; sc_key is min_key_id resp.
   rejected_key_id (absent, 0, for UnknownPathSecret) *)
Record sc_pkt := mk_sc { sc_kind : N; sc_cred : list N; sc_wv : N; sc_queue : option N; sc_key : N }.

Definition sc_base (k : N) : N :=
  match k with
  | 0 => Gen_C18.unknown_path_secret
  | 1 => Gen_C18.stale_key
  | _ => Gen_C18.replay_detected
  end.

Definition is_some {A} (o : option A) : bool := match o with Some _ => true | None => false end.

(* Tag::default().with_queue_id(b) *)
Definition sc_tag_byte (k : N) (q : bool) : N :=
  if q then N.lor (sc_base k) Gen_C18.sc_has_queue_id else sc_base k.

Definition opt_varint (o : option N) : list N :=
  match o with Some q => vencode q | None => [] end.

(* the bytes the encoder writes before encoder::finish; WireVersion::encode writes `self.0 as u8` *)
Definition sc_header (p : sc_pkt) : list N :=
  sc_tag_byte (sc_kind p) (is_some (sc_queue p)) :: sc_cred p ++ [sc_wv p mod 256]
    ++ opt_varint (sc_queue p) ++ (if sc_kind p =? 0 then [] else vencode (sc_key p)).

Definition sc_encode (p : sc_pkt) (tag : list N) : list N := sc_header p ++ tag.

Definition sc_wf (p : sc_pkt) : Prop :=
  sc_kind p < 3 /\ length (sc_cred p) = cred_len /\ wf_bytes (sc_cred p) = true /\ sc_wv p = 0 /\
  (forall q, sc_queue p = Some q -> q < 2 ^ 62) /\ sc_key p < 2 ^ 62 /\ (sc_kind p = 0 -> sc_key p = 0).

(* <T as DecoderValue>::decode for T = UnknownPathSecret / StaleKey / ReplayDetected *)
Definition sc_decode_value (k : N) : parser sc_pkt :=
  t <- pbyte;;
  _ <- pguard ((t =? sc_base k) || (t =? N.lor (sc_base k) Gen_C18.sc_has_queue_id));;
  cred <- take cred_len;;
  wv <- pbyte;;
  _ <- pguard (wv =? 0);;
  q <- popt (bit t Gen_C18.sc_has_queue_id) pvarint;;
  if k =? 0 then pret (mk_sc k cred 0 q 0)
  else key <- pvarint;; pret (mk_sc k cred 0 q key).

(* Packet::decode of one kind: decoder::header_len, then decoder::header.
   result = (header slice, value, crypto tag slice, remaining buffer) *)
Definition sc_decode_kind (k : N) (bs : list N) : option (list N * sc_pkt * list N * list N) :=
  match sc_decode_value k bs with
  | None => None
  | Some (_, r) =>
      let hl := (length bs - length r)%nat in
      match take hl bs with
      | None => None
      | Some (h, b1) =>
          match sc_decode_value k h with
          | None => None
          | Some (v, _) =>
              match take tag_len b1 with
              | None => None
              | Some (tag, rest) => Some (h, v, tag, rest)
              end
          end
      end
  end.

(* secret_control::Packet::decode: dispatch on tag & !HAS_QUEUE_ID *)
Definition sc_decode (bs : list N) : option (list N * sc_pkt * list N * list N) :=
  match bs with
  | [] => None
  | t :: _ =>
      let base := N.land t (N.lxor 255 Gen_C18.sc_has_queue_id) in
      if base =? Gen_C18.unknown_path_secret then sc_decode_kind 0 bs
      else if base =? Gen_C18.stale_key then sc_decode_kind 1 bs
      else if base =? Gen_C18.replay_detected then sc_decode_kind 2 bs
      else None
  end.

(* ------------------------------------------------------------------ harness protocol helpers *)
Definition znat (z : Z) : N := zN z.                                 (* negative -> 0 *)
Definition zbyte (z : Z) : N := znat z mod 256.
Definition zvar (z : Z) : N := N.min (znat z) varint_max.
Definition nxt (l : list Z) : Z * list Z := (hd 0%Z l, tl l).

(* n values from l, zero padded like h_common::Cur::next *)
Fixpoint takez (n : nat) (l : list Z) : list Z * list Z :=
  match n with
  | O => ([], l)
  | S k => let '(x, l1) := nxt l in let '(xs, l2) := takez k l1 in (x :: xs, l2)
  end.

Fixpoint xor_at (i : nat) (x : N) (bs : list N) : list N :=
  match bs, i with
  | [], _ => []
  | b :: t, O => N.lxor b x :: t
  | b :: t, S j => b :: xor_at j x t
  end.

(* mutation list: pairs (pos, xor); pos is reduced modulo the packet length, xor to a byte *)
Fixpoint apply_muts (n : nat) (l : list Z) (bs : list N) : list N * list Z :=
  match n with
  | O => (bs, l)
  | S k =>
      let '(p, l1) := nxt l in
      let '(x, l2) := nxt l1 in
      let len := N.of_nat (length bs) in
      let bs' := if len =? 0 then bs else xor_at (N.to_nat (znat p mod len)) (zbyte x) bs in
      apply_muts k l2 bs'
  end.

Fixpoint nlist_eqb (a b : list N) : bool :=
  match a, b with
  | [], [] => true
  | x :: a', y :: b' => (x =? y) && nlist_eqb a' b'
  | _, _ => false
  end.

Definition sc_fields (h : list N) (v : sc_pkt) (rest : list N) : list Z :=
  [Nz (sc_kind v); bz (is_some (sc_queue v)); Nz (match sc_queue v with Some q => q | None => 0 end);
   Nz (sc_key v); Z.of_nat (length h); Z.of_nat (length rest)] ++ map Nz (sc_cred v).

Definition sc_dec_out (bs : list N) : list Z :=
  match sc_decode bs with
  | Some (h, v, _, rest) => 1%Z :: sc_fields h v rest
  | None => [0%Z]
  end.

(* the packet described by a round-trip case *)
Definition sc_case_pkt (r : list Z) : sc_pkt * list Z :=
  let '(k, r) := nxt r in
  let '(_, r) := nxt r in        (* cipher suite: the layout does not depend on it *)
  let '(_, r) := nxt r in        (* secret seed *)
  let '(hq, r) := nxt r in
  let '(q, r) := nxt r in
  let '(key, r) := nxt r in
  let '(cred, r) := takez cred_len r in
  let kind := znat k mod 3 in
  (mk_sc kind (map zbyte cred) 0 (if (hq =? 0)%Z then None else Some (zvar q))
         (if kind =? 0 then 0 else zvar key), r).

Definition max_muts : N := 8.

(* mutation part of a case applied to a packet of the given bytes: up to 8 byte xors, then a
   truncation; (mutated bytes, true when the result equals the original) *)
Definition mutate (r : list Z) (bs : list N) : list N * bool :=
  let '(nm, r) := nxt r in
  let n := N.to_nat (N.min (znat nm) max_muts) in
  let '(bs1, r1) := apply_muts n r bs in
  let '(tr, _) := nxt r1 in
  let cut := N.to_nat (N.min (znat tr) (N.of_nat (length bs))) in
  let bs2 := firstn (length bs - cut) bs1 in
  (bs2, nlist_eqb bs2 bs).

(* the tag is a MAC / reset token the model does not compute: 16 distinct symbols that are not
   bytes, so that comparisons of tag windows are meaningful; a successful parse never reads them *)
Definition tag_ph : list N := map (fun i => 256 + N.of_nat i) (seq 0 tag_len).

(* what the receiver's check answers for a decoded packet when the key holder produced exactly
   the packet (h0, p0, t0):
   StaleKey / ReplayDetected: HMAC over the header under the control key (ideal MAC: only the pair
     that was signed verifies);
   UnknownPathSecret: the tag is compared with the stateless-reset tag of the entry named by the
     packet's credential id (state.rs handle_unknown_path_secret_packet), so it is bound to the
     credential id only. *)
Definition sc_auth (p0 : sc_pkt) (h0 t0 : list N) (d : option (list N * sc_pkt * list N * list N)) : bool :=
  match d with
  | None => false
  | Some (h, v, t, _) =>
      if sc_kind v =? 0 then (sc_kind p0 =? 0) && nlist_eqb (sc_cred v) (sc_cred p0) && nlist_eqb t t0
      else negb (sc_kind p0 =? 0) && nlist_eqb h h0 && nlist_eqb t t0
  end.

(* how many of the xor values x .. 1 are accepted at one position *)
Fixpoint count_x (f : N -> bool) (x : nat) : N :=
  match x with
  | O => 0
  | S k => (if f (N.of_nat x) then 1 else 0) + count_x f k
  end.

(* every single-byte mutation at every position: (number accepted, first such position or -1) *)
Definition exhaustive (acc : nat -> N -> bool) (len : nat) : N * Z :=
  fold_left (fun (st : N * Z) pos =>
               let k := count_x (acc pos) 255 in
               (fst st + k, if (snd st <? 0)%Z && (0 <? k) then Z.of_nat pos else snd st))
            (seq 0 len) (0, (-1)%Z).

Definition sc_exhaustive (p : sc_pkt) : N * Z :=
  let h := sc_header p in
  let bs0 := sc_encode p tag_ph in
  (* positions inside the tag are left out: there the parse is unchanged and t' <> t0 *)
  exhaustive (fun pos x => sc_auth p h tag_ph (sc_decode (xor_at pos x bs0))) (length h).

(* op 0: fields -> encode with the real key, decode, authenticate, mutate
   op _: raw bytes -> decode, authenticate under an unrelated key *)
Definition sc_run (case : list Z) : list Z :=
  match case with
  | [] => []
  | op :: r =>
      if (op =? 0)%Z then
        let '(p, r) := sc_case_pkt r in
        let h := sc_header p in
        let bs0 := sc_encode p tag_ph in
        let '(bs1, _) := mutate r bs0 in
        let d1 := sc_decode bs1 in
        let '(cnt, first) := sc_exhaustive p in
        [Z.of_nat (length h)] ++ map Nz h ++ sc_dec_out bs0
          ++ [1; 0; Nz cnt; first]%Z      (* right key accepts, wrong key rejects *)
          ++ sc_dec_out bs1 ++ [bz (sc_auth p h tag_ph d1)]
      else
        let '(_, r) := nxt r in
        let bs := map zbyte r in
        match sc_decode bs with
        | Some (h, v, _, rest) => 1%Z :: sc_fields h v rest ++ [0%Z]
        | None => [0%Z]
        end
  end.

(* the two places where the model's verdict depends on what the authentication covers *)
Definition sc_exh_ok (case : list Z) : bool :=
  match case with
  | [] => true
  | op :: r =>
      if (op =? 0)%Z then
        let '(p, r) := sc_case_pkt r in
        let bs0 := sc_encode p tag_ph in
        let '(bs1, same) := mutate r bs0 in
        let '(cnt, first) := sc_exhaustive p in
        (cnt =? 0) && (first =? -1)%Z && Bool.eqb (sc_auth p (sc_header p) tag_ph (sc_decode bs1)) same
      else true
  end.

Fixpoint zlist_eqb (a b : list Z) : bool :=
  match a, b with
  | [], [] => true
  | x :: a', y :: b' => Z.eqb x y && zlist_eqb a' b'
  | _, _ => false
  end.

Definition fields_len : nat := 6 + cred_len.

(* the property on an implementation's output:
   op 0: the packet decodes back to exactly the fields that were encoded, with nothing left over;
         the right key authenticates it and a wrong key does not; no single-byte mutation is
         accepted; the multi-byte mutation is authentic exactly when it is the identity.
   op _: structurally consistent result (header + tag + rest = input), never authentic.
   The header bytes and the decoded fields of mutated packets are not constrained here (that is the
   correspondence with the reference layout), only what the property text demands. *)
Definition sc_judge (case out : list Z) : bool :=
  match case with
  | [] => match out with [] => true | _ => false end
  | op :: r =>
      if (op =? 0)%Z then
        let '(p, r) := sc_case_pkt r in
        match out with
        | [] => false
        | hl :: o1 =>
            let hn := Z.to_nat hl in
            let hb := firstn hn o1 in
            let o2 := skipn hn o1 in
            let '(_, same) := mutate r (map zN hb ++ tag_ph) in
            let rt := firstn (1 + fields_len) o2 in
            let o3 := skipn (1 + fields_len) o2 in
            (length hb =? hn)%nat && (0 <=? hl)%Z &&
            zlist_eqb rt (1%Z :: sc_fields (repeat 0 hn) p []) &&
            zlist_eqb (firstn 4 o3) [1; 0; 0; -1]%Z &&
            match skipn 4 o3 with
            | 0%Z :: o4 => zlist_eqb o4 [0%Z] && negb same
            | 1%Z :: o4 =>
                (length o4 =? fields_len + 1)%nat && zlist_eqb (skipn fields_len o4) [bz same]
            | _ => false
            end
        end
      else
        let '(_, r) := nxt r in
        match out with
        | [0%Z] => true
        | 1%Z :: o =>
            (length o =? fields_len + 1)%nat &&
            (Z.of_nat (length r) =? nth 4 o 0 + Z.of_nat tag_len + nth 5 o 0)%Z &&
            (0 <=? nth 4 o 0)%Z && (0 <=? nth 5 o 0)%Z && (0 <=? nth 0 o 0)%Z && (nth 0 o 0 <? 3)%Z &&
            zlist_eqb (skipn fields_len o) [0%Z]
        | _ => false
        end
  end.

(* ================================================================== Part 2: stream, datagram,
   control packets (packet/{stream,datagram,control}/{encoder,decoder}.rs, packet/tag.rs,
   stream/id.rs, credentials.rs).  The payload on the wire is AEAD ciphertext and the trailing 16
   bytes the AEAD / HMAC tag: both are opaque to the layout. *)

(* Common::set(mask, enabled) *)
Definition set_bit (t mask : N) (b : bool) : N :=
  N.lor (N.land t (N.lxor 255 mask)) (if b then mask else 0).

Definition nonempty (l : list N) : bool := match l with [] => false | _ => true end.
Definition lenN (l : list N) : N := N.of_nat (length l).

(* stream::Id::into_varint / from_varint *)
Definition sid_varint (q : N) (rel bidi : bool) : N := q * 4 + (if rel then 2 else 0) + (if bidi then 1 else 0).
Definition psid : parser (N * bool * bool) :=
  v <- pvarint;;
  _ <- pguard (v / 4 <? 2 ^ 60);;
  (* `v & 0b10 == 0b10` is bit 1, `v & 0b01 == 0b01` is bit 0 *)
  pret (v / 4, (v / 2) mod 2 =? 1, v mod 2 =? 1).

(* Credentials: id then key id *)
Definition pcred : parser (list N * N) := id <- take cred_len;; k <- pvarint;; pret (id, k).
(* WireVersion::decode *)
Definition pwire : parser unit := wv <- pbyte;; pguard (wv =? 0).
(* `if bit { buffer.decode()? } else { (VarInt::ZERO, buffer) }` *)
Definition pvar_if (c : bool) : parser N := if c then pvarint else pret 0.
(* application header: `application_header_len` (when the tag bit is set) and, right after the fixed
   fields, that many bytes *)
Definition papp (c : bool) : parser (list N) := ahl <- pvar_if c;; takeN ahl.

(* ------------------------------------------------------------------ stream *)
Record st_pkt := mk_st {
  st_kp : bool; st_recovery : bool;
  st_cred : list N; st_key_id : N;
  st_sqid : option N;
  st_queue : N; st_rel : bool; st_bidi : bool;
  st_pn : N; st_nec : N; st_off : N; st_final : option N;
  st_app : list N; st_cd : list N; st_plen : N }.

Definition st_tag_byte (p : st_pkt) : N :=
  let t := Gen_C18.stream_tag_default in
  let t := set_bit t Gen_C18.stream_key_phase (st_kp p) in
  let t := set_bit t Gen_C18.stream_has_control_data (nonempty (st_cd p)) in
  let t := set_bit t Gen_C18.stream_has_final_offset (is_some (st_final p)) in
  let t := set_bit t Gen_C18.stream_has_application_header (nonempty (st_app p)) in
  let t := set_bit t Gen_C18.stream_has_source_queue_id (is_some (st_sqid p)) in
  set_bit t Gen_C18.stream_is_recovery_packet (st_recovery p).

(* encode_header: everything the AEAD / HMAC covers as associated data *)
Definition st_header (p : st_pkt) : list N :=
  st_tag_byte p :: st_cred p ++ vencode (st_key_id p) ++ [0] ++ [0; 0]
    ++ vencode (sid_varint (st_queue p) (st_rel p) (st_bidi p))
    ++ opt_varint (st_sqid p)
    ++ vencode (st_pn p) ++ (if st_rel p then [0; 0; 0; 0] else [])
    ++ vencode (st_nec p) ++ vencode (st_off p) ++ opt_varint (st_final p)
    ++ (if nonempty (st_cd p) then vencode (lenN (st_cd p)) else [])
    ++ vencode (st_plen p)
    ++ (if nonempty (st_app p) then vencode (lenN (st_app p)) ++ st_app p else [])
    ++ st_cd p.

Definition st_encode (p : st_pkt) (ct tag : list N) : list N := st_header p ++ ct ++ tag.

Definition st_wf (p : st_pkt) : Prop :=
  length (st_cred p) = cred_len /\ st_key_id p < 2 ^ 62 /\
  (forall q, st_sqid p = Some q -> q < 2 ^ 62) /\ st_queue p < 2 ^ 60 /\
  st_pn p < 2 ^ 62 /\ st_nec p < 2 ^ 62 /\ st_off p < 2 ^ 62 /\
  (forall f, st_final p = Some f -> f < 2 ^ 62) /\
  lenN (st_app p) < 2 ^ 62 /\ lenN (st_cd p) < 2 ^ 62 /\ st_plen p < 2 ^ 62.

(* what decoder::Packet holds *)
Record st_dec := mk_std {
  sd_tag : N; sd_cred : list N; sd_key_id : N; sd_sqid : option N;
  sd_queue : N; sd_rel : bool; sd_bidi : bool;
  sd_opn : N; sd_pn : N; sd_nec : N; sd_off : N; sd_final : option N;
  sd_app : list N; sd_cd : list N }.

Definition st_parse : parser (st_dec * N) :=
  t <- pbyte;;
  _ <- pguard ((N.land t 128 =? 0) && (Gen_C18.stream_tag_min <=? t) && (t <=? Gen_C18.stream_tag_max));;
  c <- pcred;;
  _ <- pwire;;
  _ <- pbe 2;;
  sid <- psid;;
  sq <- popt (bit t Gen_C18.stream_has_source_queue_id) pvarint;;
  opn <- pvarint;;
  pn <- (if snd (fst sid) then (r <- pbe 4;; _ <- pguard (opn + r <=? varint_max);; pret (opn + r)) else pret opn);;
  nec <- pvarint;;
  off <- pvarint;;
  fin <- popt (bit t Gen_C18.stream_has_final_offset) pvarint;;
  cdl <- pvar_if (bit t Gen_C18.stream_has_control_data);;
  plen <- pvarint;;
  app <- papp (bit t Gen_C18.stream_has_application_header);;
  cd <- takeN cdl;;
  pret (mk_std t (fst c) (snd c) sq (fst (fst sid)) (snd (fst sid)) (snd sid) opn pn nec off fin app cd, plen).

(* result: (fields, header slice, payload, auth tag, remaining buffer) *)
Definition st_decode (bs : list N) : option (st_dec * list N * list N * list N * list N) :=
  match st_parse bs with
  | None => None
  | Some ((d, plen), r1) =>
      let h := firstn (length bs - length r1) bs in
      match (pl <- takeN plen;; tg <- take tag_len;; pret (pl, tg)) r1 with
      | None => None
      | Some ((pl, tg), rest) => Some (d, h, pl, tg, rest)
      end
  end.

Definition st_dec_of (p : st_pkt) : st_dec :=
  mk_std (st_tag_byte p) (st_cred p) (st_key_id p) (st_sqid p) (st_queue p) (st_rel p) (st_bidi p)
         (st_pn p) (st_pn p) (st_nec p) (st_off p) (st_final p) (st_app p) (st_cd p).

(* ------------------------------------------------------------------ datagram *)
Record dg_pkt := mk_dg {
  dg_kp : bool; dg_cred : list N; dg_key_id : N; dg_port : N;
  dg_pn : option N; dg_nec : option N;
  dg_app : list N; dg_cd : list N; dg_plen : N }.

Definition dg_tag_byte (p : dg_pkt) : N :=
  let t := Gen_C18.datagram_tag_default in
  let t := set_bit t Gen_C18.datagram_is_connected (is_some (dg_pn p)) in
  let t := set_bit t Gen_C18.datagram_has_application_header (nonempty (dg_app p)) in
  let t := set_bit t Gen_C18.datagram_ack_eliciting (is_some (dg_nec p)) in
  set_bit t Gen_C18.datagram_key_phase (dg_kp p).

Definition opt_get (o : option N) : N := match o with Some v => v | None => 0 end.

Definition dg_header (p : dg_pkt) : list N :=
  dg_tag_byte p :: dg_cred p ++ vencode (dg_key_id p) ++ [0] ++ be_bytes 2 (dg_port p)
    ++ (if is_some (dg_pn p) || is_some (dg_nec p) then vencode (opt_get (dg_pn p)) else [])
    ++ vencode (dg_plen p)
    ++ (match dg_nec p with Some n => vencode n ++ vencode (lenN (dg_cd p)) | None => [] end)
    ++ (if nonempty (dg_app p) then vencode (lenN (dg_app p)) ++ dg_app p else [])
    ++ (if is_some (dg_nec p) then dg_cd p else []).

Definition dg_encode (p : dg_pkt) (ct tag : list N) : list N := dg_header p ++ ct ++ tag.

(* the encoder unwraps the packet number whenever the packet is ack eliciting (FIXME in the
   source), and writes control data only then *)
Definition dg_wf (p : dg_pkt) : Prop :=
  length (dg_cred p) = cred_len /\ dg_key_id p < 2 ^ 62 /\ dg_port p < 65536 /\
  (forall n, dg_pn p = Some n -> n < 2 ^ 62) /\ (forall n, dg_nec p = Some n -> n < 2 ^ 62) /\
  (dg_nec p <> None -> dg_pn p <> None) /\ (dg_nec p = None -> dg_cd p = []) /\
  lenN (dg_app p) < 2 ^ 62 /\ lenN (dg_cd p) < 2 ^ 62 /\ dg_plen p < 2 ^ 62.

Record dg_dec := mk_dgd {
  dd_tag : N; dd_cred : list N; dd_key_id : N; dd_port : N; dd_pn : N; dd_nec : option N;
  dd_app : list N; dd_cd : list N }.

Definition dg_parse : parser (dg_dec * N) :=
  t <- pbyte;;
  _ <- pguard ((N.land t 128 =? 0) && (Gen_C18.datagram_tag_min <=? t) && (t <=? Gen_C18.datagram_tag_max));;
  c <- pcred;;
  _ <- pwire;;
  port <- pbe 2;;
  pn <- pvar_if (bit t Gen_C18.datagram_is_connected || bit t Gen_C18.datagram_ack_eliciting);;
  plen <- pvarint;;
  nc <- (if bit t Gen_C18.datagram_ack_eliciting
         then (n <- pvarint;; l <- pvarint;; pret (Some n, l)) else pret (None, 0));;
  app <- papp (bit t Gen_C18.datagram_has_application_header);;
  cd <- takeN (snd nc);;
  pret (mk_dgd t (fst c) (snd c) port pn (fst nc) app cd, plen).

Definition dg_decode (bs : list N) : option (dg_dec * list N * list N * list N * list N) :=
  match dg_parse bs with
  | None => None
  | Some ((d, plen), r1) =>
      let h := firstn (length bs - length r1) bs in
      match (pl <- takeN plen;; tg <- take tag_len;; pret (pl, tg)) r1 with
      | None => None
      | Some ((pl, tg), rest) => Some (d, h, pl, tg, rest)
      end
  end.

Definition dg_dec_of (p : dg_pkt) : dg_dec :=
  mk_dgd (dg_tag_byte p) (dg_cred p) (dg_key_id p) (dg_port p) (opt_get (dg_pn p)) (dg_nec p)
         (dg_app p) (dg_cd p).

(* ------------------------------------------------------------------ control *)
Record ct_pkt := mk_ct {
  ct_cred : list N; ct_key_id : N; ct_sqid : option N;
  ct_sid : option (N * bool * bool); ct_pn : N; ct_app : list N; ct_cd : list N }.

Definition ct_tag_byte (p : ct_pkt) : N :=
  let t := Gen_C18.control_tag_default in
  let t := set_bit t Gen_C18.control_has_source_queue_id (is_some (ct_sqid p)) in
  let t := set_bit t Gen_C18.control_is_stream (is_some (ct_sid p)) in
  set_bit t Gen_C18.control_has_application_header (nonempty (ct_app p)).

Definition ct_header (p : ct_pkt) : list N :=
  ct_tag_byte p :: ct_cred p ++ vencode (ct_key_id p) ++ [0]
    ++ (match ct_sid p with Some (q, r, b) => vencode (sid_varint q r b) | None => [] end)
    ++ opt_varint (ct_sqid p)
    ++ vencode (ct_pn p)
    ++ vencode (lenN (ct_cd p))
    ++ (if nonempty (ct_app p) then vencode (lenN (ct_app p)) ++ ct_app p else [])
    ++ ct_cd p.

Definition ct_encode (p : ct_pkt) (tag : list N) : list N := ct_header p ++ tag.

Definition ct_wf (p : ct_pkt) : Prop :=
  length (ct_cred p) = cred_len /\ ct_key_id p < 2 ^ 62 /\
  (forall q, ct_sqid p = Some q -> q < 2 ^ 62) /\
  (forall q r b, ct_sid p = Some (q, r, b) -> q < 2 ^ 60) /\
  ct_pn p < 2 ^ 62 /\ lenN (ct_app p) < 2 ^ 62 /\ lenN (ct_cd p) < 2 ^ 62.

Record ct_dec := mk_ctd {
  cd_tag : N; cd_cred : list N; cd_key_id : N; cd_sqid : option N;
  cd_sid : option (N * bool * bool); cd_pn : N; cd_app : list N; cd_cd : list N }.

Definition ct_parse : parser ct_dec :=
  t <- pbyte;;
  _ <- pguard ((N.land t 128 =? 0) && (Gen_C18.control_tag_min <=? t) && (t <=? Gen_C18.control_tag_max));;
  c <- pcred;;
  _ <- pwire;;
  sid <- popt (bit t Gen_C18.control_is_stream) psid;;
  sq <- popt (bit t Gen_C18.control_has_source_queue_id) pvarint;;
  pn <- pvarint;;
  cdl <- pvarint;;
  app <- papp (bit t Gen_C18.control_has_application_header);;
  cd <- takeN cdl;;
  pret (mk_ctd t (fst c) (snd c) sq sid pn app cd).

(* result: (fields, header slice, auth tag, remaining buffer) *)
Definition ct_decode (bs : list N) : option (ct_dec * list N * list N * list N) :=
  match ct_parse bs with
  | None => None
  | Some (d, r1) =>
      let h := firstn (length bs - length r1) bs in
      match take tag_len r1 with
      | None => None
      | Some (tg, rest) => Some (d, h, tg, rest)
      end
  end.

Definition ct_dec_of (p : ct_pkt) : ct_dec :=
  mk_ctd (ct_tag_byte p) (ct_cred p) (ct_key_id p) (ct_sqid p) (ct_sid p) (ct_pn p) (ct_app p) (ct_cd p).

(* ------------------------------------------------------------------ harness protocol (pkt) *)
Definition ramp (a k : N) (n : nat) : list N := map (fun i => (a + k * N.of_nat i) mod 256) (seq 0 n).
Definition flag (f m : N) : bool := negb (N.land f m =? 0).
Definition ph (base : N) (n : nat) : list N := map (fun i => base + N.of_nat i) (seq 0 n).

Record pk_case := mk_pk {
  pk_kind : N; pk_flags : N; pk_key : N; pk_cred : list N; pk_q : N; pk_sqid : N; pk_pn : N;
  pk_nec : N; pk_off : N; pk_fin : N; pk_port : N; pk_app : list N; pk_cd : list N; pk_plen : N;
  pk_delta : N }.

Definition pk_parse_case (r : list Z) : pk_case * list Z :=
  let '(k, r) := nxt r in
  let '(_, r) := nxt r in        (* cipher suite *)
  let '(_, r) := nxt r in        (* secret seed *)
  let '(fl, r) := nxt r in
  let '(key, r) := nxt r in
  let '(cred, r) := takez cred_len r in
  let '(q, r) := nxt r in
  let '(sq, r) := nxt r in
  let '(pn, r) := nxt r in
  let '(nec, r) := nxt r in
  let '(off, r) := nxt r in
  let '(fin, r) := nxt r in
  let '(port, r) := nxt r in
  let '(al, r) := nxt r in
  let '(a0, r) := nxt r in
  let '(cl, r) := nxt r in
  let '(c0, r) := nxt r in
  let '(pl, r) := nxt r in
  let '(dl, r) := nxt r in
  (mk_pk (znat k mod 3) (znat fl mod 256) (zvar key) (map zbyte cred)
         (N.min (znat q) (2 ^ 60 - 1)) (zvar sq) (zvar pn) (zvar nec) (zvar off) (zvar fin)
         (znat port mod 65536)
         (ramp (zbyte a0) 7 (N.to_nat (N.min (znat al) 40)))
         (ramp (zbyte c0) 3 (N.to_nat (N.min (znat cl) 40)))
         (N.min (znat pl) 300) (N.max 1 (N.min (znat dl) 8589934592)), r).

Definition pk_stream (c : pk_case) : st_pkt :=
  let f := pk_flags c in
  mk_st false (flag f 16) (pk_cred c) (pk_key c) (if flag f 1 then Some (pk_sqid c) else None)
        (pk_q c) (flag f 2) (flag f 4) (pk_pn c) (pk_nec c) (pk_off c)
        (if flag f 8 then Some (pk_fin c) else None) (pk_app c) (pk_cd c)
        (if flag f 16 then 0 else pk_plen c).

Definition pk_datagram (c : pk_case) : dg_pkt :=
  let f := pk_flags c in
  mk_dg false (pk_cred c) (pk_key c) (pk_port c)
        (if flag f 32 || flag f 64 then Some (pk_pn c) else None)
        (if flag f 64 then Some (pk_nec c) else None)
        (pk_app c) (if flag f 64 then pk_cd c else []) (pk_plen c).

Definition pk_control (c : pk_case) : ct_pkt :=
  let f := pk_flags c in
  mk_ct (pk_cred c) (pk_key c) (if flag f 1 then Some (pk_sqid c) else None)
        (if flag f 128 then Some (pk_q c, flag f 2, flag f 4) else None) (pk_pn c) (pk_app c) (pk_cd c).

Definition optf (o : option N) : list Z := [bz (is_some o); Nz (opt_get o)].

Definition st_fields (d : st_dec) (hl pl rest : nat) : list Z :=
  [Nz (sd_tag d); Nz (sd_key_id d)] ++ optf (sd_sqid d) ++
  [Nz (sd_queue d); bz (sd_rel d); bz (sd_bidi d); Nz (sd_opn d); Nz (sd_pn d); Nz (sd_nec d); Nz (sd_off d)]
  ++ optf (sd_final d) ++
  [Z.of_nat hl; Z.of_nat (length (sd_app d)); Z.of_nat (length (sd_cd d)); Z.of_nat pl; Z.of_nat rest]
  ++ map Nz (sd_cred d).

Definition dg_fields (d : dg_dec) (hl pl rest : nat) : list Z :=
  [Nz (dd_tag d); Nz (dd_key_id d); Nz (dd_port d); Nz (dd_pn d)] ++ optf (dd_nec d) ++
  [Z.of_nat hl; Z.of_nat (length (dd_app d)); Z.of_nat (length (dd_cd d)); Z.of_nat pl; Z.of_nat rest]
  ++ map Nz (dd_cred d).

Definition ct_fields (d : ct_dec) (hl rest : nat) : list Z :=
  [Nz (cd_tag d); Nz (cd_key_id d); bz (is_some (cd_sid d))] ++
  (match cd_sid d with Some (q, r, b) => [Nz q; bz r; bz b] | None => [0; 0; 0]%Z end) ++
  optf (cd_sqid d) ++
  [Nz (cd_pn d); Z.of_nat hl; Z.of_nat (length (cd_app d)); Z.of_nat (length (cd_cd d)); Z.of_nat rest]
  ++ map Nz (cd_cred d).

(* decode of one kind, printed: status :: fields *)
Definition pk_dec_out (k : N) (bs : list N) : list Z :=
  match k with
  | 0 => match st_decode bs with
         | Some (d, h, pl, _, rest) => 1%Z :: st_fields d (length h) (length pl) (length rest)
         | None => [0%Z] end
  | 1 => match dg_decode bs with
         | Some (d, h, pl, _, rest) => 1%Z :: dg_fields d (length h) (length pl) (length rest)
         | None => [0%Z] end
  | _ => match ct_decode bs with
         | Some (d, h, _, rest) => 1%Z :: ct_fields d (length h) (length rest)
         | None => [0%Z] end
  end.

Definition pk_header (c : pk_case) : list N :=
  match pk_kind c with
  | 0 => st_header (pk_stream c)
  | 1 => dg_header (pk_datagram c)
  | _ => ct_header (pk_control c)
  end.

Definition pk_plen_of (c : pk_case) : N :=
  match pk_kind c with
  | 0 => st_plen (pk_stream c)
  | 1 => dg_plen (pk_datagram c)
  | _ => 0
  end.

(* the fields the decoder must hand back for the packet of a case (header length h) *)
Definition pk_expected (c : pk_case) (hl : nat) : list Z :=
  match pk_kind c with
  | 0 => st_fields (st_dec_of (pk_stream c)) hl (N.to_nat (pk_plen_of c)) 0
  | 1 => dg_fields (dg_dec_of (pk_datagram c)) hl (N.to_nat (pk_plen_of c)) 0
  | _ => ct_fields (ct_dec_of (pk_control c)) hl 0
  end.

(* packet::Packet::decode_parameterized_mut: dispatch on the tag byte (tag.rs) *)
Definition pkt_dispatch (bs : list N) : list Z :=
  match bs with
  | [] => [0%Z]
  | t :: _ =>
      if t <=? Gen_C18.stream_tag_max then
        match pk_dec_out 0 bs with 1%Z :: f => [1; 0]%Z ++ f ++ [0%Z] | _ => [0%Z] end
      else if t <=? Gen_C18.datagram_tag_max then
        match pk_dec_out 1 bs with 1%Z :: f => [1; 1]%Z ++ f ++ [0%Z] | _ => [0%Z] end
      else if t <=? Gen_C18.control_tag_max then
        match pk_dec_out 2 bs with 1%Z :: f => [1; 2]%Z ++ f ++ [0%Z] | _ => [0%Z] end
      else if (t =? Gen_C18.stale_key) || (t =? N.lor Gen_C18.stale_key Gen_C18.sc_has_queue_id) then
        match sc_decode_kind 1 bs with
        | Some (h, v, _, rest) => [1; 4]%Z ++ sc_fields h v rest ++ [0%Z] | None => [0%Z] end
      else if (t =? Gen_C18.replay_detected) || (t =? N.lor Gen_C18.replay_detected Gen_C18.sc_has_queue_id) then
        match sc_decode_kind 2 bs with
        | Some (h, v, _, rest) => [1; 5]%Z ++ sc_fields h v rest ++ [0%Z] | None => [0%Z] end
      else if (t =? Gen_C18.unknown_path_secret) || (t =? N.lor Gen_C18.unknown_path_secret Gen_C18.sc_has_queue_id) then
        match sc_decode_kind 0 bs with
        | Some (h, v, _, rest) => [1; 3]%Z ++ sc_fields h v rest ++ [0%Z] | None => [0%Z] end
      else [0%Z]
  end.

(* stream::decoder::Packet::retransmit of the (data, not probe) stream packet of a case to packet
   number pn + delta, then decode and open: [1; new packet number; original packet number; 0]
   (the 0: not opened under a wrong key) when the stream is reliable, the new number is a VarInt and
   the distance fits the 32-bit relative field; [0; 0; 0; 0] otherwise (retransmit refuses, or the
   case is not a stream data packet) *)
Definition pk_rt (c : pk_case) : list Z :=
  if (pk_kind c =? 0) && negb (flag (pk_flags c) 16) && flag (pk_flags c) 2
     && (pk_pn c + pk_delta c <=? varint_max) && (pk_delta c <=? u32_max)
  then [1%Z; Nz (pk_pn c + pk_delta c); Nz (pk_pn c); 0%Z]
  else [0; 0; 0; 0]%Z.

(* every single-byte mutation of the retransmitted packet: (accepted, first position, its xor).
   remove_retransmit clears the IS_RECOVERY_PACKET bit of the tag byte before the AEAD check and
   the retransmission mask covers only the two packet numbers, so exactly that bit can be flipped *)
Definition pk_rt_exh (c : pk_case) : list Z :=
  if (hd 0 (pk_rt c) =? 1)%Z then [1; 0; Nz Gen_C18.stream_is_recovery_packet]%Z else [0; -1; 0]%Z.

(* the cases in which the model itself meets the demand "no mutation accepted" *)
Definition pkt_rt_clean (case : list Z) : bool :=
  match case with
  | [] => true
  | op :: r => if (op =? 0)%Z then negb (hd 0 (pk_rt (fst (pk_parse_case r))) =? 1)%Z else true
  end.

(* op 0: fields -> real encoder with real AEAD / HMAC keys -> decode, open, all single-byte
         mutations, one multi-byte mutation
   op _: raw bytes through the tag dispatcher, opened under an unrelated key *)
Definition pkt_run (case : list Z) : list Z :=
  match case with
  | [] => []
  | op :: r =>
      if (op =? 0)%Z then
        let '(c, r) := pk_parse_case r in
        let h := pk_header c in
        let bs0 := h ++ ph 512 (N.to_nat (pk_plen_of c)) ++ tag_ph in
        let '(_, same) := mutate r bs0 in
        [Z.of_nat (length h)] ++ map Nz h ++ pk_dec_out (pk_kind c) bs0
          ++ [1; 1; 0; 0; -1; bz same]%Z ++ pk_rt c ++ pk_rt_exh c
      else
        let '(_, r) := nxt r in
        pkt_dispatch (map zbyte r)
  end.

Definition pkt_judge (case out : list Z) : bool :=
  match case with
  | [] => match out with [] => true | _ => false end
  | op :: r =>
      if (op =? 0)%Z then
        let '(c, r) := pk_parse_case r in
        match out with
        | [] => false
        | hl :: o1 =>
            let hn := Z.to_nat hl in
            let hb := firstn hn o1 in
            let o2 := skipn hn o1 in
            let '(_, same) := mutate r (map zN hb ++ ph 512 (N.to_nat (pk_plen_of c)) ++ tag_ph) in
            (* decoded, and every field except the raw tag byte is what was encoded *)
            (length hb =? hn)%nat && (0 <=? hl)%Z &&
            match o2 with
            | 1%Z :: _ :: o3 =>
                let exp := tl (pk_expected c hn) in
                zlist_eqb (firstn (length exp) o3) exp &&
                zlist_eqb (skipn (length exp) o3) ([1; 1; 0; 0; -1; bz same]%Z ++ pk_rt c ++ [0; -1; 0]%Z)
            | _ => false
            end
        end
      else
        match out with
        | [0%Z] => true
        | 1%Z :: k :: o =>
            (* never authentic under a key that sealed nothing; a known kind *)
            (0 <=? k)%Z && (k <? 6)%Z && zlist_eqb (skipn (length o - 1) o) [0%Z]
        | _ => false
        end
  end.
