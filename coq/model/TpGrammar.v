(* C05 component "tparams": the block grammar of transport parameters, RFC 9000 section 18:
     Transport Parameters { Transport Parameter (..) ... }
     Transport Parameter  { ID (i), Length (i), Value (..) }
   Only the grammar: the meaning and validation of the individual parameters is C14's subject.
   The compared inputs carry unknown (reserved / greased) ids only, which an endpoint MUST ignore
   (7.4.2): such a block is accepted exactly when it is well-formed. *)
From SQ Require Import lib.Base model.Varint model.Frame.
Import Varint Frame.
Local Open Scope N_scope.

Fixpoint tp_parse (fuel : nat) (bs : list N) : option (list (N * list N)) :=
  match bs with
  | [] => Some []
  | _ =>
    match fuel with
    | O => None
    | S fuel' =>
        let? '(id, b1) := vdecode bs in
        let? '(v, b2) := p_lenpref b1 in
        let? 'ps := tp_parse fuel' b2 in
        Some ((id, v) :: ps)
    end
  end.

Definition tp_encode (ps : list (N * list N)) : list N :=
  flat_map (fun p => vencode (fst p) ++ venc_len (snd p)) ps.

Definition tp_ok (ps : list (N * list N)) : bool :=
  forallb (fun p => vok (fst p) && lok (snd p)) ps.

(* case = side (0 client / 1 server) :: bytes -> [1] accepted | [0] malformed *)
Definition run (case : list Z) : list Z :=
  let bs := map byte_of_z (tl case) in
  match tp_parse (length bs) bs with
  | Some _ => [1%Z]
  | None => [0%Z]
  end.

Definition judge (case out : list Z) : bool := zlist_eqb out (run case).

(* component "tparams_total": arbitrary bytes (known ids included).  Nothing is predicted; the
   judgement accepts every answer: only a panic (reported by the harness as a '!' line and
   rejected before this predicate is consulted) violates totality *)
Definition run_total (case : list Z) : list Z := [].
Definition judge_total (case out : list Z) : bool := true.
