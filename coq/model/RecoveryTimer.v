(* Model of the timer decision of quic/s2n-quic-transport/src/recovery/manager.rs:
   update_pto_timer (its four cancel conditions, the base timestamp) and check_consistency
   (timer_required).  Executable definitions only.  The inputs are the facts the function reads. *)
From SQ Require Import lib.Base.
Local Open Scope N_scope.

Record rin := mkRin {
  loss_timer_armed : bool;          (* self.loss_timer.is_armed() *)
  at_amplification_limit : bool;    (* active_path.at_amplification_limit() *)
  is_application_data : bool;       (* self.space.is_application_data() *)
  handshake_confirmed : bool;
  ack_eliciting_in_flight : bool;   (* any sent packet is ack-eliciting *)
  peer_validated : bool;            (* active_path.is_peer_validated() *)
  time_of_last_ae : option N;       (* self.time_of_last_ack_eliciting_packet *)
  now : N;
  pto_period : N }.                 (* active_path.pto_period_with_jitter(..) *)

(* the PTO timer after update_pto_timer: outer None = the `expect` panics *)
Definition update_pto_timer (i : rin) : option (option N) :=
  if loss_timer_armed i then Some None
  else if at_amplification_limit i then Some None
  else if is_application_data i && negb (handshake_confirmed i) then Some None
  else if negb (ack_eliciting_in_flight i) && peer_validated i then Some None
  else if ack_eliciting_in_flight i then
    match time_of_last_ae i with
    | Some t => Some (Some (t + pto_period i))
    | None => None
    end
  else Some (Some (now i + pto_period i)).

(* check_consistency: timer_required *)
Definition timer_required (i : rin) : bool :=
  (ack_eliciting_in_flight i || negb (peer_validated i))
  && negb (at_amplification_limit i)
  && (negb (is_application_data i) || handshake_confirmed i)
  && (match time_of_last_ae i with Some _ => true | None => false end).
