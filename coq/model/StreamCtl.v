(* Model of the stream-count and stream-state checks of s2n-quic-transport, as driven through
   stream::Manager (hook verif_hooks/recv.rs, harness component "st"):

     stream/controller/remote_initiated.rs   RemoteInitiated::{on_remote_open_stream, on_open_stream,
                                             on_close_stream, on_timeout, on_transmit, ack, loss}
     s2n-quic-core time/token_bucket.rs      TokenBucket::{take, on_timeout} (refill amount = max)
     stream/manager.rs                       open_stream_if_necessary, handle_stream_frame,
                                             perform_api_call (a finished stream is removed)
     stream/stream_impl.rs                   on_max_stream_data on a receive-only stream
     stream/receive_stream.rs                the states an empty peer-initiated unidirectional
                                             stream goes through (FIN / RESET_STREAM, then read)

   Only empty STREAM frames are used, so no flow control is involved (component "rx" covers that).
   Time is in milliseconds; the driver moves it in steps of 200 ms with a refill interval
   (min_rtt) of 100 ms, so no timer comparison is within the 1 ms timer granularity.
   Executable definitions only. *)
From SQ Require Import lib.Base gen.Gen_C04 model.FlowRecv.
Local Open Scope N_scope.

Definition max_streams_max : N := 1152921504606846976.   (* 2^60, MAX_STREAMS_MAX_VALUE *)
Definition refill_interval : N := 100.

(* ---------------- RemoteInitiated ---------------- *)
Record rctl := { lim : N; sy : ivs; opn : N; cls : N; bcur : N; btimer : option N }.

Definition rctl_new (l : N) : rctl :=
  {| lim := l; sy := ivs_new l l (l / 10); opn := 0; cls := 0; bcur := l; btimer := None |}.

(* TokenBucket::on_timeout with max = refill_amount = lim *)
Definition bucket_timeout (c : rctl) (now : N) : rctl :=
  if bcur c <? lim c then
    match btimer c with
    | Some t => if t <=? now
                then {| lim := lim c; sy := sy c; opn := opn c; cls := cls c; bcur := lim c; btimer := None |}
                else c
    | None => {| lim := lim c; sy := sy c; opn := opn c; cls := cls c; bcur := bcur c;
                 btimer := Some (now + refill_interval) |}
    end
  else c.

(* TokenBucket::take *)
Definition bucket_take (c : rctl) (amount now : N) : N * rctl :=
  if amount =? 0 then (0, bucket_timeout c now) else
  let c1 := if bcur c <? amount then bucket_timeout c now else c in
  let credits := N.min amount (bcur c1) in
  let c2 := {| lim := lim c1; sy := sy c1; opn := opn c1; cls := cls c1; bcur := bcur c1 - credits;
               btimer := btimer c1 |} in
  (credits, bucket_timeout c2 now).

(* RemoteInitiated::on_timeout *)
Definition rctl_timeout (c : rctl) (now : N) : rctl :=
  let synced := latest (sy c) - lim c in
  let '(r, c1) := bucket_take c (cls c - synced) now in
  if r =? 0 then c1 else
  let v := N.min (sat_add (sat_add synced (lim c)) r) max_streams_max in
  {| lim := lim c1; sy := ivs_update (sy c1) v; opn := opn c1; cls := cls c1; bcur := bcur c1; btimer := btimer c1 |}.

Definition rctl_set_sy (c : rctl) (y : ivs) : rctl :=
  {| lim := lim c; sy := y; opn := opn c; cls := cls c; bcur := bcur c; btimer := btimer c |}.

(* on_remote_open_stream for the n-th stream (0-based), then on_open_stream for every new one *)
Definition rctl_open (c : rctl) (n : N) : option rctl :=
  if latest (sy c) <=? n then None
  else Some {| lim := lim c; sy := sy c; opn := N.max (opn c) (n + 1); cls := cls c; bcur := bcur c; btimer := btimer c |}.

Definition rctl_close (c : rctl) : rctl :=
  {| lim := lim c; sy := sy c; opn := opn c; cls := cls c + 1; bcur := bcur c; btimer := btimer c |}.

(* ---------------- manager ---------------- *)

(* receive half of a peer-initiated unidirectional stream that only ever gets empty frames *)
Inductive ust := UOpen | UFin | UReset | UGone.

Record sst := {
  rb : rctl; ru : rctl;          (* peer-initiated bidirectional / unidirectional *)
  lob : N; lou : N;              (* streams opened by the local application *)
  uni : list ust;                (* state of peer-initiated unidirectional streams 0 .. opn-1 *)
  snow : N; spn : N
}.

Definition sinit (lb lu : N) : sst :=
  {| rb := rctl_new lb; ru := rctl_new lu; lob := 0; lou := 0; uni := []; snow := 10000; spn := 0 |}.

Inductive sop :=
| SFrame (t : N) (n : N) (k : N)
| SOpen (bidi : bool)
| SRead (n : N)
| SAdvance
| STransmit
| SAck (k : N)
| SLoss (k : N).

Definition C_LIMIT : N := code_stream_limit_error.
Definition C_STATE : N := code_stream_state_error.

Definition uget (s : sst) (n : N) : option ust := nth_error (uni s) (N.to_nat n).

(* streams created by a frame for unidirectional stream n: all missing ones up to n *)
Definition uni_extend (l : list ust) (n : N) : list ust :=
  l ++ repeat UOpen (N.to_nat (n + 1) - length l).

(* what the receive half does with an empty STREAM (k = 0), STREAM+FIN (1), RESET_STREAM(0) (2),
   STREAM_DATA_BLOCKED (3); STOP_SENDING (5) goes to the (closed) sending half *)
Definition ust_frame (u : ust) (k : N) : ust :=
  match u with
  | UOpen => if k =? 1 then UFin else if k =? 2 then UReset else UOpen
  | _ => u
  end.

(* one peer frame: Some code = rejected *)
Definition sframe (s : sst) (t n k : N) : sst * option N :=
  if t =? 2 then (s, if lob s <=? n then Some C_STATE else None)
  else if t =? 3 then (s, if lou s <=? n then Some C_STATE else None)
  else if t =? 0 then
    match rctl_open (rb s) n with
    | None => if n <? opn (rb s) then (s, None) else (s, Some C_LIMIT)
    | Some c => ({| rb := c; ru := ru s; lob := lob s; lou := lou s; uni := uni s; snow := snow s; spn := spn s |}, None)
    end
  else
    (* peer-initiated unidirectional *)
    let opened := if n <? opn (ru s) then Some (ru s) else rctl_open (ru s) n in
    match opened with
    | None => (s, Some C_LIMIT)
    | Some c =>
        let l := uni_extend (uni s) n in
        let u := nth (N.to_nat n) l UGone in
        match u with
        | UGone => ({| rb := rb s; ru := c; lob := lob s; lou := lou s; uni := l; snow := snow s; spn := spn s |}, None)
        | _ =>
            if k =? 4 then
              ({| rb := rb s; ru := c; lob := lob s; lou := lou s; uni := l; snow := snow s; spn := spn s |}, Some C_STATE)
            else
              ({| rb := rb s; ru := c; lob := lob s; lou := lou s;
                  uni := set_nth (N.to_nat n) l (ust_frame u k); snow := snow s; spn := spn s |}, None)
        end
    end.

Definition sread (s : sst) (n : N) : sst * Z :=
  match uget s n with
  | None | Some UGone => (s, (-1)%Z)
  | Some UOpen => (s, 0%Z)
  | Some UFin =>
      ({| rb := rb s; ru := rctl_close (ru s); lob := lob s; lou := lou s;
          uni := set_nth (N.to_nat n) (uni s) UGone; snow := snow s; spn := spn s |}, 1%Z)
  | Some UReset =>
      ({| rb := rb s; ru := rctl_close (ru s); lob := lob s; lou := lou s;
          uni := set_nth (N.to_nat n) (uni s) UGone; snow := snow s; spn := spn s |}, (-1)%Z)
  end.

(* timers fire, then one packet: MAX_STREAMS per direction *)
Definition rctl_transmit (c : rctl) (now pn : N) : Z * rctl :=
  let c1 := rctl_timeout c now in
  let '(v, y) := ivs_transmit (sy c1) pn in
  if 0 <? opn c1 then (oz v, rctl_set_sy c1 y) else ((-1)%Z, c1).

Definition sstep (s : sst) (o : sop) : sst * list Z * bool :=
  match o with
  | SFrame t n k =>
      let '(s', r) := sframe s t n k in
      match r with
      | None => (s', [0%Z], false)
      | Some code => (s', [Nz code], true)
      end
  | SOpen b =>
      (if b then {| rb := rb s; ru := ru s; lob := lob s + 1; lou := lou s; uni := uni s; snow := snow s; spn := spn s |}
       else {| rb := rb s; ru := ru s; lob := lob s; lou := lou s + 1; uni := uni s; snow := snow s; spn := spn s |},
       [1%Z], false)
  | SRead n => let '(s', z) := sread s n in (s', [z], false)
  | SAdvance => ({| rb := rb s; ru := ru s; lob := lob s; lou := lou s; uni := uni s; snow := snow s + 200; spn := spn s |}, [], false)
  | STransmit =>
      let '(vb, cb) := rctl_transmit (rb s) (snow s) (spn s) in
      let '(vu, cu) := rctl_transmit (ru s) (snow s) (spn s) in
      ({| rb := cb; ru := cu; lob := lob s; lou := lou s; uni := uni s; snow := snow s; spn := spn s + 1 |}, [vb; vu], false)
  | SAck k =>
      ({| rb := rctl_set_sy (rb s) (ivs_ack (sy (rb s)) k k); ru := rctl_set_sy (ru s) (ivs_ack (sy (ru s)) k k);
          lob := lob s; lou := lou s; uni := uni s; snow := snow s; spn := spn s |}, [], false)
  | SLoss k =>
      ({| rb := rctl_set_sy (rb s) (ivs_loss (sy (rb s)) k k); ru := rctl_set_sy (ru s) (ivs_loss (sy (ru s)) k k);
          lob := lob s; lou := lou s; uni := uni s; snow := snow s; spn := spn s |}, [], false)
  end.

Fixpoint ssteps (s : sst) (ops : list sop) : list Z :=
  match ops with
  | [] => []
  | o :: r => let '(s', out, stop) := sstep s o in if stop then out else out ++ ssteps s' r
  end.

Definition max_index : N := 64.
Definition max_limit : N := 1048576.

Fixpoint sparse (fuel : nat) (l : list Z) : list sop :=
  match fuel with
  | O => []
  | S f =>
    match l with
    | [] => []
    | k :: r =>
      let a := hd 0%Z r in let r1 := tl r in
      let b := hd 0%Z r1 in let r2 := tl r1 in
      let c := hd 0%Z r2 in let r3 := tl r2 in
      if (k =? 1)%Z then SFrame (zN a mod 4) (zN b mod max_index) (N.min (zN c) 5) :: sparse f r3
      else if (k =? 2)%Z then SOpen (negb (a =? 0)%Z) :: sparse f r1
      else if (k =? 3)%Z then SRead (zN b mod max_index) :: sparse f r2
      else if (k =? 4)%Z then SAdvance :: sparse f r
      else if (k =? 5)%Z then STransmit :: sparse f r
      else if (k =? 6)%Z then SAck (zN a) :: sparse f r1
      else if (k =? 7)%Z then SLoss (zN a) :: sparse f r1
      else []
    end
  end.

(* case = [local endpoint is server; limit of peer bidirectional streams; limit of peer
   unidirectional streams; ops ...]; the endpoint role only selects the stream ids *)
Definition srun (c : list Z) : list Z :=
  let lb := N.min (zN (hd 0%Z (tl c))) max_limit in
  let lu := N.min (zN (hd 0%Z (tl (tl c)))) max_limit in
  ssteps (sinit lb lu) (sparse (length c) (tl (tl (tl c)))).
