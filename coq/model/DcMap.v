(* C18 component "map": the path secret map's reaction to secret-control packets
   (dc/s2n-quic-dc/src/path/secret/map/state.rs handle_unknown_path_secret_packet,
   handle_stale_key_packet, handle_replay_detected_packet, request_handshake, evict;
   path/secret/sender.rs next_key_id, update_for_stale_key; map/entry.rs uni_sealer).

   State: credential id -> entry (sender key id counter, age), plus the observable counters.
   A handler looks the entry up by the credential id the packet names, authenticates the packet
   under that entry's key, and only then touches the state.
   Executable definitions only; proofs are in proofs/DcMapProofs.v. *)
From SQ Require Import lib.Base.
Local Open Scope N_scope.

Record entry := mk_entry { e_cur : N;        (* sender::State.current_id *)
                           e_aged : bool;    (* entry.age() > 10 s *)
                           e_peer : N }.     (* entry.peer(): the address the secret was negotiated with *)

Record mstate := mk_m {
  m_entries : list (N * entry);   (* ids: credential id -> entry *)
  m_peers : list (N * N);         (* peers: address -> credential id of the entry stored for it (the
                                     newest secret negotiated with that address) *)
  m_next : N;                     (* number of secrets inserted so far = next fresh credential id *)
  m_evict : bool;                 (* should_evict_on_unknown_path_secret *)
  m_hs : N;                       (* request_handshake calls *)
  m_acc : N; m_rej : N; m_drop : N }.   (* *_packet_accepted / rejected / dropped events *)

Fixpoint lookup (id : N) (l : list (N * entry)) : option entry :=
  match l with
  | [] => None
  | (k, e) :: t => if k =? id then Some e else lookup id t
  end.

Fixpoint remove (id : N) (l : list (N * entry)) : list (N * entry) :=
  match l with
  | [] => []
  | (k, e) :: t => if k =? id then remove id t else (k, e) :: remove id t
  end.

Fixpoint update (id : N) (e' : entry) (l : list (N * entry)) : list (N * entry) :=
  match l with
  | [] => []
  | (k, e) :: t => if k =? id then (k, e') :: t else (k, e) :: update id e' t
  end.

Fixpoint plookup (a : N) (l : list (N * N)) : option N :=
  match l with
  | [] => None
  | (k, i) :: t => if k =? a then Some i else plookup a t
  end.

(* PeerMap::remove_exact: drop the binding of the entry's address only if it is that very entry
   (compared by credential id), so that a newer secret for the same address survives *)
Fixpoint remove_exact (a id : N) (l : list (N * N)) : list (N * N) :=
  match l with
  | [] => []
  | (k, i) :: t => if (k =? a) && (i =? id) then remove_exact a id t else (k, i) :: remove_exact a id t
  end.

(* PeerMap::insert: one binding per address, the new entry replaces the previous one *)
Fixpoint pinsert (a id : N) (l : list (N * N)) : list (N * N) :=
  match l with
  | [] => [(a, id)]
  | (k, i) :: t => if k =? a then (k, id) :: t else (k, i) :: pinsert a id t
  end.

(* a decoded secret-control packet: kind 0 UnknownPathSecret, 1 StaleKey, 2 ReplayDetected;
   the credential id it names; min_key_id / rejected_key_id *)
Record cpkt := mk_cp { c_kind : N; c_id : N; c_val : N }.

Definition with_entries (s : mstate) (l : list (N * entry)) : mstate :=
  mk_m l (m_peers s) (m_next s) (m_evict s) (m_hs s) (m_acc s) (m_rej s) (m_drop s).

(* [auth] is the answer of packet.authenticate under the key of the looked-up entry *)
Definition handle (auth : entry -> cpkt -> bool) (s : mstate) (p : cpkt) : mstate :=
  match lookup (c_id p) (m_entries s) with
  | None => mk_m (m_entries s) (m_peers s) (m_next s) (m_evict s) (m_hs s) (m_acc s) (m_rej s) (m_drop s + 1)
  | Some e =>
      if negb (auth e p) then
        mk_m (m_entries s) (m_peers s) (m_next s) (m_evict s) (m_hs s) (m_acc s) (m_rej s + 1) (m_drop s)
      else
        match c_kind p with
        | 0 =>   (* request_handshake, then evict when configured and the entry is old enough:
                    ids.remove(id), peers.remove_exact(entry) *)
            let should_evict := m_evict s && e_aged e in
            mk_m (if should_evict then remove (c_id p) (m_entries s) else m_entries s)
                 (if should_evict then remove_exact (e_peer e) (c_id p) (m_peers s) else m_peers s)
                 (m_next s) (m_evict s) (m_hs s + 1) (m_acc s + 1) (m_rej s) (m_drop s)
        | 1 =>   (* sender.update_for_stale_key: fetch_max *)
            mk_m (update (c_id p) (mk_entry (N.max (e_cur e) (c_val p)) (e_aged e) (e_peer e)) (m_entries s))
                 (m_peers s) (m_next s) (m_evict s) (m_hs s) (m_acc s + 1) (m_rej s) (m_drop s)
        | _ =>   (* ReplayDetected: background handshake *)
            mk_m (m_entries s) (m_peers s) (m_next s) (m_evict s) (m_hs s + 1) (m_acc s + 1) (m_rej s) (m_drop s)
        end
  end.

(* a new handshake with the peer at address [a] completed (on_new_path_secrets +
   on_handshake_complete): a fresh credential id enters ids, the address map now points to it;
   the previous secret of that address stays in ids until it is retired *)
Definition rehandshake (s : mstate) (a : N) (aged : bool) : mstate :=
  mk_m (m_entries s ++ [(m_next s, mk_entry 0 aged a)]) (pinsert a (m_next s) (m_peers s))
       (m_next s + 1) (m_evict s) (m_hs s) (m_acc s) (m_rej s) (m_drop s).

(* Map::seal_once_id -> entry.uni_sealer -> sender.next_key_id: issues current, stores current + 1
   (panics when current + 1 would be the reserved maximum) *)
Definition issue (s : mstate) (id : N) : mstate * Z :=
  match lookup id (m_entries s) with
  | None => (s, (-1)%Z)
  | Some e =>
      if e_cur e + 1 <? varint_max then
        (with_entries s (update id (mk_entry (e_cur e + 1) (e_aged e) (e_peer e)) (m_entries s)), Nz (e_cur e))
      else (s, (-2)%Z)
  end.

(* what the property talks about: the map contents (which ids, which sender key ids) and the
   number of handshake requests *)
Definition proj (s : mstate) : list (N * entry) * list (N * N) * N := (m_entries s, m_peers s, m_hs s).

(* ------------------------------------------------------------------ harness protocol *)
(* case = evict :: aged :: ops; the map starts with two secrets, credential ids 0 and 1, for the
   peer addresses 0 and 1; ids are numbered in insertion order and k selects one (mod the number
   inserted so far);
   op 0 k                      : issue a key id for secret k
   op 2 a                      : re-handshake with peer address a mod 2 (a fresh secret for it)
   op _ k kind mode val via    : deliver a packet of [kind] naming secret k's credential id
        mode 0 authentic; 1 random tag; 2 tag made with the other entry's key / another signer;
        3 authentic for a credential id the map does not hold; 4 authentic with one tag bit flipped
   output per op: [issued or -1] for op 0, then
        contains(peer0) contains(peer1) secrets_len handshake_requests accepted rejected dropped *)
Definition nxt (l : list Z) : Z * list Z := (hd 0%Z l, tl l).
Definition unknown_id : N := 1000000.

Definition obs (s : mstate) : list Z :=
  [bz (match plookup 0 (m_peers s) with Some _ => true | None => false end);
   bz (match plookup 1 (m_peers s) with Some _ => true | None => false end);
   Z.of_nat (length (m_entries s)); Nz (m_hs s); Nz (m_acc s); Nz (m_rej s); Nz (m_drop s)].

(* the harness builds the packet so that it is authentic exactly in mode 0 *)
Definition case_auth (mode : N) : entry -> cpkt -> bool := fun _ _ => mode =? 0.

Fixpoint run_ops (fuel : nat) (s : mstate) (ops : list Z) : list Z :=
  match fuel with
  | O => []
  | S f =>
      match ops with
      | [] => []
      | op :: r =>
          let '(k, r) := nxt r in
          let id := zN k mod m_next s in
          if (op =? 0)%Z then
            let '(s', out) := issue s id in
            out :: obs s' ++ run_ops f s' r
          else if (op =? 2)%Z then
            (* inserted while the case runs: younger than 10 s *)
            let s' := rehandshake s (zN k mod 2) false in
            obs s' ++ run_ops f s' r
          else
            let '(kind, r) := nxt r in
            let '(mode, r) := nxt r in
            let '(val, r) := nxt r in
            let '(_, r) := nxt r in
            let mode := zN mode mod 5 in
            let p := mk_cp (zN kind mod 3) (if mode =? 3 then unknown_id else id) (N.min (zN val) 1099511627776) in
            let s' := handle (case_auth mode) s p in
            obs s' ++ run_ops f s' r
      end
  end.

Definition init (evict aged : bool) : mstate :=
  mk_m [(0, mk_entry 0 aged 0); (1, mk_entry 0 aged 1)] [(0, 0); (1, 1)] 2 evict 0 0 0 0.

Definition run (case : list Z) : list Z :=
  let '(ev, r) := nxt case in
  let '(ag, r) := nxt r in
  run_ops (length r) (init (negb (ev =? 0)%Z) (negb (ag =? 0)%Z)) r.

Fixpoint zlist_eqb (a b : list Z) : bool :=
  match a, b with
  | [], [] => true
  | x :: a', y :: b' => Z.eqb x y && zlist_eqb a' b'
  | _, _ => false
  end.

(* the property on an implementation's output: a forged packet (mode <> 0) leaves
   contains/secrets_len, the handshake counter and the accepted counter as they were, and the key
   ids issued for an entry never reflect a forged StaleKey; an authentic packet has the documented
   effect.  All of this is the model's own behaviour, so the judgement is equality with the model
   on the property-relevant observables: everything except the split rejected/dropped, which is
   only demanded to add up. *)
Fixpoint merge_rd (out : list Z) (ops : list Z) (fuel : nat) : list Z :=
  match fuel with
  | O => out
  | S f =>
      match ops with
      | [] => out
      | op :: r =>
          let skip := if (op =? 0)%Z then 1%nat else 0%nat in
          let pre := firstn skip out in
          let o := skipn skip out in
          let blk := firstn 7 o in
          let blk' := firstn 5 blk ++ [(nth 5 blk 0 + nth 6 blk 0)%Z] in
          pre ++ blk' ++ merge_rd (skipn 7 o) (skipn (if (op =? 0)%Z || (op =? 2)%Z then 1 else 5) r) f
      end
  end.

Definition judge (case out : list Z) : bool :=
  let ops := tl (tl case) in
  zlist_eqb (merge_rd out ops (length ops)) (merge_rd (run case) ops (length ops))
  && (length out =? length (run case))%nat.
