(* Model of quic/s2n-quic-core/src/ack/ranges.rs: Ranges = IntervalSet<PacketNumber> with a limit;
   insert_packet_number_range sheds the lowest range to make room.  Executable definitions only. *)
From SQ Require Import lib.Base gen.Gen_C16 model.IntervalSet.
Local Open Scope N_scope.

Definition pmax : N := varint_max.          (* PacketNumber::step_up = next() fails at 2^62-1 *)

(* Interval<T> < T (PartialOrd<T> for Interval): Less iff start < v and end < v *)
Definition ival_lt_value (i : ival) (v : N) : bool :=
  match cmp_ival_value i v with Lt => true | _ => false end.

(* result: [0] Ok, [1; min; max] RangeInsertionFailed, [2; min; max] LowestRangeDropped *)
Definition insert_range (s : iset) (a b : N) : iset * list Z :=
  let '(s1, c) := insert pmax s a b in
  if (c =? 0)%Z then (s1, [0%Z])
  else
    match pop_min s with
    | (s2, Some mn) =>
        if ival_lt_value mn a then
          let '(s3, c3) := insert pmax s2 a b in
          if (c3 =? 0)%Z then (s3, [2%Z; Nz (fst mn); Nz (snd mn)])
          else (s3, [1%Z; Nz a; Nz b])           (* debug_assert!(insert_res.is_ok()) *)
        else
          let '(s3, _) := insert_front pmax s2 (fst mn) (snd mn) in
          (s3, [1%Z; Nz a; Nz b])
    | (s2, None) => (s2, [1%Z; Nz a; Nz b])      (* debug_assert!(false) *)
    end.

(* spread(): max - min, 0 when empty *)
Definition spread (s : iset) : N :=
  match intervals s with
  | [] => 0
  | h :: _ => snd (last (intervals s) (0, 0)) - fst h
  end.

(* reference: the plain set, capacity-bounded by discarding only its lowest range: insert, and when that
   leaves more than `limit` ranges drop the lowest one (which may be the new one) *)
Definition ref_insert_range (s : iset) (a b : N) : iset * list Z :=
  let l := intervals s in
  let l' := ref_ins a b l in
  if negb (length l <? length l')%nat || under_limit (limit s) (N.of_nat (length l)) || (length l =? 0)%nat
  then ({| limit := limit s; intervals := l' |}, [0%Z])
  else match l' with
       | h :: t =>
           if (fst h =? a) && (snd h =? b)
           then (s, [1%Z; Nz a; Nz b])
           else ({| limit := limit s; intervals := t |}, [2%Z; Nz (fst h); Nz (snd h)])
       | [] => (s, [1%Z; Nz a; Nz b])
       end.

(* harness protocol: case = limit :: triples [op; a; b]
   0 insert_packet_number_range(a, b) (skipped with output -1 when b < a)   1 insert_packet_number(a)
   2 contains(a)   3 remove(a..=b) through DerefMut   4 pop_min
   output per op: result, then dump: [interval_len; s0; e0; ...; min; max; spread] *)
Record ack_ops := {
  k_insert_range : iset -> N -> N -> iset * list Z;
  k_contains : iset -> N -> bool;
  k_remove : iset -> N -> N -> iset * Z;
}.

Definition adump (s : iset) : list Z := dump s ++ [Nz (spread s)].

Definition astep (O : ack_ops) (s : iset) (op : Z) (a b : N) : iset * list Z :=
  if (op =? 0)%Z then (if b <? a then (s, [(-1)%Z]) else k_insert_range O s a b)
  else if (op =? 1)%Z then k_insert_range O s a a
  else if (op =? 2)%Z then (s, [bz (k_contains O s a)])
  else if (op =? 3)%Z then let '(s', c) := k_remove O s a b in (s', [c])
  else match pop_min s with
       | (s', Some h) => (s', [1%Z; Nz (fst h); Nz (snd h)])
       | (s', None) => (s', [0%Z])
       end.

Fixpoint arun_ops (O : ack_ops) (s : iset) (c : list Z) : list Z :=
  match c with
  | op :: a :: b :: t =>
      let '(s', o) := astep O s op (zN a) (zN b) in
      o ++ adump s' ++ arun_ops O s' t
  | _ => []
  end.

Definition ack_init (l : Z) : iset := {| limit := Some (N.max 1 (zN l)); intervals := [] |}.

Definition model_ack : ack_ops := {|
  k_insert_range := insert_range; k_contains := contains; k_remove := remove pmax |}.
Definition ref_ack : ack_ops := {|
  k_insert_range := ref_insert_range; k_contains := fun s v => mem_ivals v (intervals s); k_remove := ref_remove |}.

Definition run (c : list Z) : list Z :=
  match c with [] => [] | l :: t => arun_ops model_ack (ack_init l) t end.
Definition spec_run (c : list Z) : list Z :=
  match c with [] => [] | l :: t => arun_ops ref_ack (ack_init l) t end.
Definition judge (c out : list Z) : bool := zlist_eqb (spec_run c) out.

(* the default limit of ack::Ranges::default() *)
Definition default_limit : N := ack_ranges_limit.
