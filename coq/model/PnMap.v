(* Model of quic/s2n-quic-core/src/packet/number/map.rs (Map<V>: ring buffer keyed by packet number)
   and the reference finite map (association list sorted by key).  Executable definitions only. *)
From SQ Require Import lib.Base gen.Gen_C16.
Local Open Scope N_scope.

Record pmap := { values : list (option N); start : N; end_ : N; index : N }.

Definition cap (m : pmap) : N := N.of_nat (length (values m)).
Definition pm_init : pmap :=
  {| values := repeat None (N.to_nat pnmap_default_capacity); start := 0; end_ := 0; index := pnmap_default_capacity |}.
Definition is_empty (m : pmap) : bool := index m =? cap m.

Definition slot (m : pmap) (i : N) : option N := nth (N.to_nat i) (values m) None.
Definition set_slot (m : pmap) (i : N) (v : option N) : list (option N) := set_nth (N.to_nat i) (values m) v.

(* resize: double until len < new_len; copy index.. then ..index; index = 0 *)
Fixpoint grow (fuel : nat) (new_len len : N) : N :=
  match fuel with
  | O => new_len
  | S f => let n2 := new_len * 2 in if len <? n2 then n2 else grow f n2 len
  end.
Definition resize (m : pmap) (len : N) : pmap :=
  let new_len := grow 64 (cap m) len in
  let i := N.to_nat (index m) in
  let vs := skipn i (values m) ++ firstn i (values m) in
  {| values := vs ++ repeat None (N.to_nat new_len - length vs); start := start m; end_ := end_ m; index := 0 |}.

Definition place (m : pmap) (pn : N) : pmap * N :=       (* (map after a possible resize, slot index for pn) *)
  let distance := pn - start m in
  if cap m <=? distance then (resize m distance, distance)
  else (m, (index m + distance) mod cap m).

Definition insert (m : pmap) (pn v : N) : pmap :=
  if is_empty m then
    {| values := set_slot m 0 (Some v); start := pn; end_ := pn; index := 0 |}
  else
    let '(m1, i) := place m pn in
    {| values := set_slot m1 i (Some v); start := start m1; end_ := pn; index := index m1 |}.

Definition insert_or_update (m : pmap) (pn v : N) (upd : N -> N) : pmap :=
  if is_empty m then
    {| values := set_slot m 0 (Some v); start := pn; end_ := pn; index := 0 |}
  else
    let '(m1, i) := place m pn in
    let e := match slot m1 i with Some prev => Some (upd prev) | None => Some v end in
    {| values := set_slot m1 i e; start := start m1; end_ := N.max (end_ m1) pn; index := index m1 |}.

Definition pn_index (m : pmap) (pn : N) : option N :=
  if is_empty m then None
  else if end_ m <? pn then None
  else if pn <? start m then None
  else Some ((index m + (pn - start m)) mod cap m).

Definition get (m : pmap) (pn : N) : option N :=
  match pn_index m pn with Some i => slot m i | None => None end.

Definition logical_clear (m : pmap) : pmap :=
  {| values := values m; start := start m; end_ := end_ m; index := cap m |}.

(* set_start: first occupied pn in [pn, end]; fuel = capacity + 1 *)
Fixpoint set_start_loop (fuel : nat) (m : pmap) (pn : N) : pmap :=
  match fuel with
  | O => m                                                   (* unreachable!() *)
  | S f =>
      if end_ m <? pn then m                                 (* unreachable!() *)
      else match get m pn, pn_index m pn with
           | Some _, Some i => {| values := values m; start := pn; end_ := end_ m; index := i |}
           | _, _ => set_start_loop f m (pn + 1)
           end
  end.
Definition set_start (m : pmap) (pn : N) : pmap := set_start_loop (S (length (values m))) m pn.

Fixpoint set_end_loop (fuel : nat) (m : pmap) (pn : N) : pmap :=
  match fuel with
  | O => m
  | S f =>
      if pn <? start m then m
      else match get m pn with
           | Some _ => {| values := values m; start := start m; end_ := pn; index := index m |}
           | None => if pn =? 0 then m else set_end_loop f m (pn - 1)
           end
  end.
Definition set_end (m : pmap) (pn : N) : pmap := set_end_loop (S (length (values m))) m pn.

Definition remove (m : pmap) (pn : N) : pmap * option N :=
  match pn_index m pn with
  | None => (m, None)
  | Some i =>
      match slot m i with
      | None => (m, None)
      | Some info =>
          let m1 := {| values := set_slot m i None; start := start m; end_ := end_ m; index := index m |} in
          let m2 :=
            if start m =? pn then (if end_ m =? pn then logical_clear m1 else set_start m1 (pn + 1))
            else (if end_ m =? pn then set_end m1 (pn - 1) else m1) in
          (m2, Some info)
      end
  end.

(* RemoveIter::next until exhausted (also what Drop does) *)
Fixpoint drain (n : nat) (vals : list (option N)) (pn i : N) : list (option N) * list (N * N) :=
  match n with
  | O => (vals, [])
  | S n' =>
      let len := N.of_nat (length vals) in
      let next_i := (i + 1) mod len in
      match nth (N.to_nat i) vals None with
      | Some v => let '(vals', out) := drain n' (set_nth (N.to_nat i) vals None) (pn + 1) next_i in (vals', (pn, v) :: out)
      | None => drain n' vals (pn + 1) next_i
      end
  end.

Definition remove_range (m : pmap) (a b : N) : pmap * list (N * N) :=
  if is_empty m then (m, [])
  else if (b <? start m) || (end_ m <? a) then (m, [])
  else
    let s := start m in let e := end_ m in
    let '(m1, from, to, idx) :=
      match a ?= s, b ?= e with
      | Lt, Eq | Lt, Gt | Eq, Gt | Eq, Eq => (logical_clear m, s, e, index m)
      | Lt, Lt | Eq, Lt => (set_start m (b + 1), s, b, index m)
      | Gt, Gt | Gt, Eq =>
          (set_end m (a - 1), a, e, match pn_index m a with Some i => i | None => 0 end)
      | Gt, Lt => (m, a, b, match pn_index m a with Some i => i | None => 0 end)
      end in
    let '(vals', out) := drain (N.to_nat (to - from + 1)) (values m1) from idx in
    ({| values := vals'; start := start m1; end_ := end_ m1; index := index m1 |}, out).

(* Iter: the ring from index, end - start + 1 slots *)
Fixpoint iter_loop (n : nat) (vals : list (option N)) (pn i : N) : list (N * N) :=
  match n with
  | O => []
  | S n' =>
      let len := N.of_nat (length vals) in
      match nth (N.to_nat i) vals None with
      | Some v => (pn, v) :: iter_loop n' vals (pn + 1) ((i + 1) mod len)
      | None => iter_loop n' vals (pn + 1) ((i + 1) mod len)
      end
  end.
Definition iter (m : pmap) : list (N * N) :=
  if is_empty m then [] else iter_loop (N.to_nat (end_ m - start m + 1)) (values m) (start m) (index m).

Definition clear (m : pmap) : pmap :=
  if is_empty m then m
  else {| values := repeat None (length (values m)); start := start m; end_ := end_ m; index := cap m |}.

(* ------------------------------------------------------------------------------------ *)
(* reference: association list sorted by key                                             *)
(* ------------------------------------------------------------------------------------ *)
Fixpoint ref_put (k v : N) (upd : option (N -> N)) (l : list (N * N)) : list (N * N) :=
  match l with
  | [] => [(k, v)]
  | (k', v') :: t =>
      if k <? k' then (k, v) :: l
      else if k =? k' then (k, match upd with Some f => f v' | None => v end) :: t
      else (k', v') :: ref_put k v upd t
  end.
Definition ref_get (k : N) (l : list (N * N)) : option N :=
  match find (fun p => fst p =? k) l with Some p => Some (snd p) | None => None end.
Definition ref_del (k : N) (l : list (N * N)) : list (N * N) := filter (fun p => negb (fst p =? k)) l.
Definition in_rng (a b : N) (p : N * N) : bool := (a <=? fst p) && (fst p <=? b).

(* ------------------------------------------------------------------------------------ *)
(* harness protocol: triples [op; a; b]                                                   *)
(*  0 insert(pn=a, v=b)  precondition (else output -2, no call): empty or a > end, and    *)
(*      a - start <= 4096                                                                  *)
(*  1 insert_or_update(a, b, |p| p*31+b mod 2^64)  precondition: empty or a >= start, and  *)
(*      a - start <= 4096                                                                  *)
(*  2 get(a) -> [0] | [1; v]     3 remove(a) -> [0] | [1; v]                               *)
(*  4 remove_range(a, b) (skipped with -2 when b < a) -> [n; pn; v; ...]                   *)
(*  5 clear                                                                               *)
(* then the dump: [is_empty; (start; end when not empty); n; pn0; v0; ...] from iter()     *)
(* ------------------------------------------------------------------------------------ *)
Definition upd_fn (b : N) (p : N) : N := (p * 31 + b) mod 18446744073709551616.

Definition pairs_z (l : list (N * N)) : list Z :=
  Z.of_nat (length l) :: flat_map (fun p => [Nz (fst p); Nz (snd p)]) l.
Definition opt_z (o : option N) : list Z := match o with Some v => [1%Z; Nz v] | None => [0%Z] end.

Definition pstep (m : pmap) (op : Z) (a b : N) : pmap * list Z :=
  if (op =? 0)%Z then
    if is_empty m || ((end_ m <? a) && (a - start m <=? 4096)) then (insert m a b, [0%Z]) else (m, [(-2)%Z])
  else if (op =? 1)%Z then
    if is_empty m || ((start m <=? a) && (a - start m <=? 4096)) then (insert_or_update m a b (upd_fn b), [0%Z]) else (m, [(-2)%Z])
  else if (op =? 2)%Z then (m, opt_z (get m a))
  else if (op =? 3)%Z then let '(m', r) := remove m a in (m', opt_z r)
  else if (op =? 4)%Z then
    if b <? a then (m, [(-2)%Z]) else let '(m', l) := remove_range m a b in (m', pairs_z l)
  else (clear m, []).

Definition pdump (m : pmap) : list Z :=
  if is_empty m then 1%Z :: pairs_z (iter m)
  else 0%Z :: Nz (start m) :: Nz (end_ m) :: pairs_z (iter m).

Fixpoint run_from (m : pmap) (c : list Z) : list Z :=
  match c with
  | op :: a :: b :: t =>
      let '(m', o) := pstep m op (zN a) (zN b) in
      o ++ pdump m' ++ run_from m' t
  | _ => []
  end.
Definition run (c : list Z) : list Z := run_from pm_init c.

Definition rmin (l : list (N * N)) : N := match l with [] => 0 | p :: _ => fst p end.
Definition rmax (l : list (N * N)) : N := fst (last l (0, 0)).

Definition rstep (l : list (N * N)) (op : Z) (a b : N) : list (N * N) * list Z :=
  let empty := match l with [] => true | _ => false end in
  if (op =? 0)%Z then
    if empty || ((rmax l <? a) && (a - rmin l <=? 4096)) then (ref_put a b None l, [0%Z]) else (l, [(-2)%Z])
  else if (op =? 1)%Z then
    if empty || ((rmin l <=? a) && (a - rmin l <=? 4096)) then (ref_put a b (Some (upd_fn b)) l, [0%Z]) else (l, [(-2)%Z])
  else if (op =? 2)%Z then (l, opt_z (ref_get a l))
  else if (op =? 3)%Z then (ref_del a l, opt_z (ref_get a l))
  else if (op =? 4)%Z then
    if b <? a then (l, [(-2)%Z]) else (filter (fun p => negb (in_rng a b p)) l, pairs_z (filter (in_rng a b) l))
  else ([], []).

Definition rdump (l : list (N * N)) : list Z :=
  match l with
  | [] => 1%Z :: pairs_z l
  | _ => 0%Z :: Nz (rmin l) :: Nz (rmax l) :: pairs_z l
  end.

Fixpoint spec_from (l : list (N * N)) (c : list Z) : list Z :=
  match c with
  | op :: a :: b :: t =>
      let '(l', o) := rstep l op (zN a) (zN b) in
      o ++ rdump l' ++ spec_from l' t
  | _ => []
  end.
Definition spec_run (c : list Z) : list Z := spec_from [] c.

Fixpoint zlist_eqb (a b : list Z) : bool :=
  match a, b with
  | [], [] => true
  | x :: a', y :: b' => (x =? y)%Z && zlist_eqb a' b'
  | _, _ => false
  end.
Definition judge (c out : list Z) : bool := zlist_eqb (spec_run c) out.
