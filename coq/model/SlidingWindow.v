(* Model of quic/s2n-quic-core/src/packet/number/sliding_window.rs
   (SlidingWindow::{insert, insert_with_evicted, check, window_position}, EvictedSet iterator)
   and the reference specification (a plain set of accepted packet numbers).
   Executable definitions only. *)
From SQ Require Import lib.Base gen.Gen_C16.
Local Open Scope N_scope.

(* ---------------------------------------------------------------------------------- *)
(* machine words: Window = u128                                                         *)
(* ---------------------------------------------------------------------------------- *)
Definition wbits : N := sw_window_bits.            (* 128 *)
Definition window_width : N := sw_window_width.    (* WINDOW_WIDTH = 1 + size_of::<Window>() * 8 *)
Definition umask : N := N.ones wbits.              (* u128::MAX *)
Definition not_w (x : N) : N := N.lxor x umask.    (* !x *)
Definition shl_w (x d : N) : N := N.land (N.shiftl x d) umask.   (* x << d, d < 128, bits shifted out are lost *)
Definition bit_w (i : N) : N := N.shiftl 1 i.      (* 1 << i *)

Record sw := { window : N; right_edge : option N }.
Definition sw_init : sw := {| window := 0; right_edge := None |}.

Inductive wpos := WLeft | WRight (d : N) | WRightEdge | WWithin (d : N) | WEmpty.

(* window_position: right_edge.checked_distance(pn) = right_edge - pn when that does not underflow *)
Definition window_position (s : sw) (pn : N) : wpos :=
  match right_edge s with
  | Some re =>
      if pn <=? re then
        let delta := re - pn in
        if delta =? 0 then WRightEdge
        else if window_width <=? delta then WLeft
        else WWithin delta
      else WRight (pn - re)
  | None => WEmpty
  end.

(* Result<EvictedSet, SlidingWindowError>; an EvictedSet is (window, right_edge) *)
Inductive ires := IOk (ev_window ev_edge : N) | IDup | ITooOld.

Definition insert_with_evicted (s : sw) (pn : N) : sw * ires :=
  match window_position s pn with
  | WLeft => (s, ITooOld)
  | WRightEdge => (s, IDup)
  | WRight delta =>
      let '(w', removed) :=
        if delta <? window_width then
          let removed_mask :=
            if delta =? sw_full_delta then umask
            else not_w (N.shiftr umask (delta mod wbits)) (* !u128::MAX.wrapping_shr(delta as u32) *) in
          let removed := N.land (not_w (window s)) removed_mask in
          (* self.window.checked_shl(delta as u32).unwrap_or(0) *)
          let w1 := if delta <? wbits then shl_w (window s) delta else 0 in
          (N.lor w1 (bit_w (delta - 1)), removed)
        else (0, not_w (window s)) in
      match right_edge s with
      | Some prev => ({| window := w'; right_edge := Some pn |}, IOk removed prev)
      | None => ({| window := w'; right_edge := Some pn |}, IOk 0 0)   (* not reachable: WRight needs an edge *)
      end
  | WWithin delta =>
      let mask := bit_w (delta - 1) in
      let duplicate := negb (N.land (window s) mask =? 0) in
      ({| window := N.lor (window s) mask; right_edge := right_edge s |},
       if duplicate then IDup else IOk 0 0)
  | WEmpty => ({| window := window s; right_edge := Some pn |}, IOk 0 0)
  end.

Inductive cres := COk | CDup | CTooOld.

Definition check (s : sw) (pn : N) : cres :=
  match window_position s pn with
  | WLeft => CTooOld
  | WRightEdge => CDup
  | WRight _ | WEmpty => COk
  | WWithin delta =>
      if negb (N.land (window s) (bit_w (delta - 1)) =? 0) then CDup else COk
  end.

(* EvictedSet::next, iterated until None.  leading_zeros = 128 - size.  Each round shifts the
   window by at least one bit, so 129 rounds of fuel are never exhausted (proved). *)
Fixpoint evicted_iter (fuel : nat) (w re : N) : list N :=
  match fuel with
  | O => []
  | S f =>
      if w =? 0 then []
      else
        let shift := (wbits - N.size w) + 1 in
        let re' := re + shift in
        let w' := if shift =? wbits then 0 else shl_w w shift in
        if window_width <=? re'            (* checked_sub(WINDOW_WIDTH) *)
        then (re' - window_width) :: evicted_iter f w' re'
        else evicted_iter f w' re'
  end.
Definition evicted_list (w re : N) : list N := evicted_iter 129 w re.

(* ---------------------------------------------------------------------------------- *)
(* harness protocol                                                                     *)
(*   case = pairs [op; pn]: op 0 = insert_with_evicted, 1 = check, other = insert       *)
(*   output per op: code (0 Ok, 1 Duplicate, 2 TooOld); for op 0 with Ok additionally   *)
(*   [n; evicted...]; then the contents dump: with hi = largest pn named so far in the  *)
(*   case, for x in [hi-130, min(hi+1, 2^62-1)]: [number of Duplicate answers of        *)
(*   check(x); those x ascending; number of TooOld answers]                             *)
(* ---------------------------------------------------------------------------------- *)
Definition icode (r : ires) : Z := match r with IOk _ _ => 0 | IDup => 1 | ITooOld => 2 end%Z.
Definition ccode (r : cres) : Z := match r with COk => 0 | CDup => 1 | CTooOld => 2 end%Z.

Definition nrange (lo hi : N) : list N :=        (* lo, lo+1, ..., hi (empty when hi < lo) *)
  map (fun i => lo + N.of_nat i) (seq 0 (N.to_nat (hi + 1 - lo))).

Definition dump_range (hi : N) : list N := nrange (hi - 130) (N.min (hi + 1) varint_max).

Definition dump_of (chk : N -> cres) (hi : N) : list Z :=
  let r := dump_range hi in
  let dups := filter (fun x => match chk x with CDup => true | _ => false end) r in
  let olds := filter (fun x => match chk x with CTooOld => true | _ => false end) r in
  Z.of_nat (length dups) :: map Nz dups ++ [Z.of_nat (length olds)].

Definition step_out (s : sw) (op : Z) (pn : N) : sw * list Z :=
  if (op =? 0)%Z then
    let '(s', r) := insert_with_evicted s pn in
    (s', icode r :: match r with
                    | IOk w e => let l := evicted_list w e in Z.of_nat (length l) :: map Nz l
                    | _ => []
                    end)
  else if (op =? 1)%Z then (s, [ccode (check s pn)])
  else let '(s', r) := insert_with_evicted s pn in (s', [icode r]).

Fixpoint run_from (hi : N) (s : sw) (c : list Z) : list Z :=
  match c with
  | op :: z :: t =>
      let pn := zN z in
      let hi' := N.max hi pn in
      let '(s', o) := step_out s op pn in
      o ++ dump_of (check s') hi' ++ run_from hi' s' t
  | _ => []
  end.
Definition run (c : list Z) : list Z := run_from 0 sw_init c.

(* ---------------------------------------------------------------------------------- *)
(* reference specification: the plain set [acc] of packet numbers accepted so far       *)
(*   - too old   : an edge exists (largest accepted) and pn + 129 <= edge               *)
(*   - duplicate : not too old and pn is in the set                                     *)
(*   - otherwise accepted                                                               *)
(*   evicted by an accepted pn above the old edge e: the numbers x in [e-128, e-1] not  *)
(*   in the set (acceptable before) that are too old afterwards (x + 129 <= pn)         *)
(* ---------------------------------------------------------------------------------- *)
Definition spec_check (acc : list N) (pn : N) : cres :=
  match max_list acc with
  | None => COk
  | Some e => if pn + 129 <=? e then CTooOld else if mem_N pn acc then CDup else COk
  end.

Definition spec_evicted (acc : list N) (pn : N) : list N :=
  match max_list acc with
  | None => []
  | Some e =>
      if e <? pn then
        filter (fun x => negb (mem_N x acc) && (x + 129 <=? pn)) (nrange (e - 128) e)   (* e itself is in the set *)
      else []
  end.

Definition spec_step (acc : list N) (op : Z) (pn : N) : list N * list Z :=
  let c := spec_check acc pn in
  let acc' := match c with COk => pn :: acc | _ => acc end in
  if (op =? 0)%Z then
    (acc', ccode c :: match c with
                      | COk => let l := spec_evicted acc pn in Z.of_nat (length l) :: map Nz l
                      | _ => []
                      end)
  else if (op =? 1)%Z then (acc, [ccode c])
  else (acc', [ccode c]).

Fixpoint spec_from (hi : N) (acc : list N) (c : list Z) : list Z :=
  match c with
  | op :: z :: t =>
      let pn := zN z in
      let hi' := N.max hi pn in
      let '(acc', o) := spec_step acc op pn in
      o ++ dump_of (spec_check acc') hi' ++ spec_from hi' acc' t
  | _ => []
  end.
Definition spec_run (c : list Z) : list Z := spec_from 0 [] c.

Fixpoint zlist_eqb (a b : list Z) : bool :=
  match a, b with
  | [], [] => true
  | x :: a', y :: b' => (x =? y)%Z && zlist_eqb a' b'
  | _, _ => false
  end.

(* the property as a judgement on an implementation's output: it must be what the reference set says *)
Definition judge (c out : list Z) : bool := zlist_eqb (spec_run c) out.
