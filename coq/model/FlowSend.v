(* Model of the sender-side flow controllers and of the small delivery state machines they use.
     quic/s2n-quic-transport/src/stream/outgoing_connection_flow_controller.rs
       (OutgoingConnectionFlowControllerImpl::{acquire_window, on_max_data})
     quic/s2n-quic-transport/src/stream/send_stream.rs
       (StreamFlowController::{set_max_stream_data, try_acquire_connection_window, available_window,
        acquire_flow_control_window, is_blocked, clear_blocked, finish})
     quic/s2n-quic-transport/src/sync/{mod,periodic_sync,once_sync}.rs (DeliveryState, PeriodicSync
       without its timer: the drivers never call on_timeout, so the timer never fires)
   Executable definitions only. *)
From SQ Require Import lib.Base.
Local Open Scope N_scope.

(* transmission::Constraint: 0 None, 1 CongestionLimited, 2 RetransmissionOnly, 3 AmplificationLimited *)
Definition can_transmit (c : N) : bool := c =? 0.
Definition can_retransmit (c : N) : bool := (c =? 0) || (c =? 2).

(* sync::DeliveryState; the value lives beside it *)
Inductive dlv := DNot | DReq | DLost | DInfl (pn : N) | DDeliv | DCanc.

Definition dlv_try (d : dlv) (c : N) : bool :=
  match d with DReq => can_transmit c | DLost => can_retransmit c | _ => false end.
(* transmission interest: 0 None, 1 NewData, 2 LostData *)
Definition dlv_interest (d : dlv) : N := match d with DReq => 1 | DLost => 2 | _ => 0 end.
Definition in_rng (lo hi pn : N) : bool := (lo <=? pn) && (pn <=? hi).
Definition dlv_code (d : dlv) : N :=
  match d with DNot => 0 | DReq => 1 | DLost => 2 | DInfl _ => 3 | DDeliv => 4 | DCanc => 5 end.

(* PeriodicSync<VarInt, _> minus timer/backoff *)
Record psync := mk_ps { ps_latest : N; ps_d : dlv; ps_delivered : bool }.
Definition ps_new : psync := mk_ps 0 DNot false.
Definition ps_request (p : psync) (v : N) : psync :=
  mk_ps v (match ps_d p with DNot | DCanc => DReq | d => d end) (ps_delivered p).
Definition ps_skip (p : psync) : psync :=
  mk_ps (ps_latest p) (match ps_d p with DReq | DLost => DNot | d => d end) (ps_delivered p).
Definition ps_stop (p : psync) : psync := mk_ps (ps_latest p) DCanc false.
Definition ps_ack (p : psync) (lo hi : N) : psync :=
  match ps_d p with
  | DInfl pn => if in_rng lo hi pn then mk_ps (ps_latest p) DDeliv true else p
  | _ => p
  end.
Definition ps_loss (p : psync) (lo hi : N) : psync :=
  match ps_d p with
  | DInfl pn => if in_rng lo hi pn then mk_ps (ps_latest p) DLost (ps_delivered p) else p
  | _ => p
  end.
Definition ps_sent (p : psync) (pn : N) : psync := mk_ps (ps_latest p) (DInfl pn) (ps_delivered p).

(* OutgoingConnectionFlowControllerImpl *)
Record cfc := mk_cfc { c_total : N; c_avail : N; c_dbs : psync }.
Definition cfc_new (w : N) : cfc := mk_cfc w w ps_new.

Definition cfc_acquire (c : cfc) (desired : N) : cfc * N :=
  let r := N.min (c_avail c) desired in
  let dbs := if r <? desired then ps_request (c_dbs c) (c_total c) else c_dbs c in
  (mk_cfc (c_total c) (c_avail c - r) dbs, r).

Definition cfc_max_data (c : cfc) (v : N) : cfc :=
  if v <=? c_total c then c
  else mk_cfc v (c_avail c + (v - c_total c)) (ps_stop (c_dbs c)).

(* StreamFlowController; state: 0 Ready, 1 BlockedOnStreamWindow, 2 BlockedOnConnectionWindow, 3 Finished *)
Record sfc := mk_sfc { f_acq : N; f_high : N; f_maxsd : N; f_st : N; f_sdb : psync }.
Definition sfc_new (w : N) : sfc := mk_sfc 0 0 w 0 ps_new.

Definition sfc_set_max_sd (f : sfc) (v : N) : sfc :=
  if v <=? f_maxsd f then f
  else if f_st f =? 1 then mk_sfc (f_acq f) (f_high f) v 0 (ps_stop (f_sdb f))
  else mk_sfc (f_acq f) (f_high f) v (f_st f) (f_sdb f).

Definition sfc_try_acquire (c : cfc) (f : sfc) : cfc * sfc :=
  if f_st f =? 3 then (c, f)
  else
    let missing := f_high f - f_acq f in
    if 0 <? missing then
      let '(c', a) := cfc_acquire c missing in
      (c', mk_sfc (f_acq f + a) (f_high f) (f_maxsd f)
                  (if (0 <? a) && (f_st f =? 2) then 0 else f_st f) (f_sdb f))
    else (c, f).

Definition sfc_avail (f : sfc) : N := N.min (f_maxsd f) (f_acq f).

(* OutgoingDataFlowController::acquire_flow_control_window(end_offset); in a Finished controller
   the debug build panics (debug_assert_ne) - the drivers never get there *)
Definition sfc_acquire (c : cfc) (f : sfc) (e : N) : cfc * sfc * N :=
  if f_st f =? 3 then (c, f, sfc_avail f)
  else
    let f1 := if f_maxsd f <? e
              then mk_sfc (f_acq f) (f_high f) (f_maxsd f) 1 (ps_request (f_sdb f) (f_maxsd f))
              else mk_sfc (f_acq f) (f_high f) (f_maxsd f) 0 (f_sdb f) in
    let f2 := mk_sfc (f_acq f1) (N.max e (f_high f1)) (f_maxsd f1) (f_st f1) (f_sdb f1) in
    let '(c', f3) := sfc_try_acquire c f2 in
    let f4 := if f_acq f3 <? e then mk_sfc (f_acq f3) (f_high f3) (f_maxsd f3) 2 (f_sdb f3) else f3 in
    (c', f4, sfc_avail f4).

Definition sfc_is_blocked (f : sfc) : bool := (f_st f =? 1) || (f_st f =? 2).
Definition sfc_clear_blocked (f : sfc) : sfc :=
  mk_sfc (f_acq f) (f_high f) (f_maxsd f) (if f_st f =? 3 then 3 else 0) (ps_stop (f_sdb f)).
Definition sfc_finish (f : sfc) : sfc :=
  mk_sfc (f_acq f) (f_high f) (f_maxsd f) 3 (ps_stop (f_sdb f)).
Definition sfc_with_sdb (f : sfc) (p : psync) : sfc :=
  mk_sfc (f_acq f) (f_high f) (f_maxsd f) (f_st f) p.
