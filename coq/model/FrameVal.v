(* Value validation of limit-carrying frames in s2n-quic-core's decoders (frame/max_streams.rs,
   frame/streams_blocked.rs, frame/new_connection_id.rs) followed by the error mapping of
   transport::Error::from(DecoderError) (transport/error.rs), and the RFC 9000 judgement.
   Executable definitions only. *)
From SQ Require Import lib.Base gen.Gen_C04.
Local Open Scope N_scope.

Definition two60 : N := 1152921504606846976.

(* case = [kind; a; b; c]: kind 0/1 MAX_STREAMS, 2/3 STREAMS_BLOCKED (value a),
   4 NEW_CONNECTION_ID (sequence a, retire_prior_to b, connection id length c) *)
Definition fv_args (c : list Z) : N * N * N * N :=
  (zN (hd 0%Z c) mod 5, N.min (zN (hd 0%Z (tl c))) varint_max, N.min (zN (hd 0%Z (tl (tl c)))) varint_max,
   N.min (zN (hd 0%Z (tl (tl (tl c))))) 255).

(* every decoder_invariant! failure becomes PROTOCOL_VIOLATION *)
Definition fv_run (c : list Z) : list Z :=
  let '(kind, a, b, len) := fv_args c in
  if kind <? 4 then (if a <=? two60 then [0%Z] else [Nz code_protocol_violation])
  else if (b <=? a) && (1 <=? len) && (len <=? 20) then [0%Z] else [Nz code_protocol_violation].

(* RFC 9000 19.11: MAX_STREAMS above 2^60 -> FRAME_ENCODING_ERROR; 19.14: STREAMS_BLOCKED above 2^60
   -> STREAM_LIMIT_ERROR or FRAME_ENCODING_ERROR; 19.15: retire_prior_to > sequence number, or a
   connection id length below 1 or above 20 -> FRAME_ENCODING_ERROR; section 11: PROTOCOL_VIOLATION
   or INTERNAL_ERROR may be used in place of a specific code.  A well-formed frame is accepted. *)
Definition fv_judge (c out : list Z) : bool :=
  let '(kind, a, b, len) := fv_args c in
  let malformed := if kind <? 4 then two60 <? a else (a <? b) || (len <? 1) || (20 <? len) in
  match out with
  | [r] =>
      if malformed then (r =? 7)%Z || (r =? 10)%Z || (r =? 1)%Z || ((2 <=? kind) && (kind <? 4) && (r =? 4)%Z)
      else (r =? 0)%Z
  | _ => false
  end.
