(* C08 view of the recovery manager component: of everything the manager driver records, only what the
   manager reports to the Context as acknowledged (call kind 5 = Context::on_packet_ack, which feeds
   AckManager::on_packet_ack and decides which of the endpoint's own ACK frames count as delivered).
   Property clause (C08, "including lost ACKs"): a packet number that lies in a gap of the peer's ACK frame
   is never reported acknowledged - otherwise the ACK manager forgets ranges whose only carrier was lost
   and the packets they name are never acknowledged again.  Executable definitions only. *)
From SQ Require Import lib.Base model.Recovery.
Local Open Scope N_scope.

Fixpoint acks_ok (rs : list (N * N)) (l : list Z) : bool :=
  match l with
  | [] => true
  | k :: _ :: a :: b :: _ :: _ :: t =>
      (if (k =? 5)%Z then in_some_range rs (zN a) (zN b) else true) && acks_ok rs t
  | _ => false
  end.

(* the largest packet number sent so far, as the manager driver numbers packets *)
Definition alast (last : option N) (c a : Z) : option N :=
  if (c =? 1)%Z then Some (match last with None => zN a - 1 | Some l => l + N.max (zN a) 1 end) else last.

Fixpoint ajudge_ops (app : bool) (last : option N) (l out : list Z) : bool :=
  match l with
  | c :: a :: b :: d :: e :: f :: g :: _ :: t =>
      match parse_obs out with
      | None => false
      | Some (code, lost, hulls, calls, rest, remaining) =>
          acks_ok (op_ranges last c b d e f) calls &&
          (if (c =? 6)%Z && negb app
           then match remaining with [] => true | _ => false end
           else ajudge_ops app (alast last c a) t remaining)
      end
  | _ => match out with [] => true | _ => false end
  end.

Definition judge_acks (case out : list Z) : bool :=
  match case with
  | sp :: cf :: mad :: st :: ops =>
      ajudge_ops (negb ((zN sp =? 0) || (zN sp =? 1))) None ops out
  | _ => match out with [] => true | _ => false end
  end.
