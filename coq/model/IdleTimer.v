(* Model of the peer idle timer of quic/s2n-quic-transport/src/connection/connection_impl.rs
   (get_idle_timer_duration, on_processed_packet, on_ack_eliciting_packet_sent, the expiry branch of
   on_timeout), connection_timers.rs (peer_idle_timer, reset_peer_idle_timer_on_send) and
   MaxIdleTimeout::{load_peer, as_duration} (s2n-quic-core transport/parameters/mod.rs).
   Executable definitions only.  Idle timeouts are milliseconds, times and PTO periods microseconds. *)
From SQ Require Import lib.Base gen.Gen_C02.
Local Open Scope N_scope.

(* MaxIdleTimeout::load_peer: the minimum of the two advertised values, 0 = not advertised *)
Definition load_peer (local peer : N) : N :=
  if local =? 0 then (if peer =? 0 then local else peer)
  else if peer =? 0 then local
  else if peer <? local then peer else local.

(* get_idle_timer_duration: None when disabled, else max(idle, 3 * pto.as_millis()) in ms *)
Definition idle_duration_ms (idle_ms pto_us : N) : option N :=
  if idle_ms =? 0 then None
  else Some (N.max idle_ms (Gen_C02.idle_pto_factor * (pto_us / 1000))).

Definition granularity : N := Gen_C02.granularity_ms * 1000.
Definition tsn (t : N) : N := if t =? 0 then 1 else t.

Inductive ev :=
| Recv (t pto : N)      (* on_processed_packet: datagram timestamp, current PTO period *)
| SendAE (t pto : N)    (* on_ack_eliciting_packet_sent *)
| Timeout (t : N).      (* on_timeout *)

Record ist := mkIst { itimer : option N; iflag : bool; iclosed : bool }.
Definition ist_init : ist := mkIst None false false.

Definition deadline (t d_ms : N) : N := tsn (t + d_ms * 1000).

Definition istep (idle_ms : N) (s : ist) (e : ev) : ist :=
  if iclosed s then s else
  match e with
  | Recv t pto =>
      match idle_duration_ms idle_ms pto with
      | Some d => mkIst (Some (deadline (tsn t) d)) true false
      | None => s
      end
  | SendAE t pto =>
      if iflag s then
        match idle_duration_ms idle_ms pto with
        | Some d => mkIst (Some (deadline (tsn t) d)) false false
        | None => mkIst (itimer s) false false
        end
      else s
  | Timeout t =>
      match itimer s with
      | Some e => if e <? tsn t + granularity then mkIst None (iflag s) true else s
      | None => s
      end
  end.

(* ---- harness protocol: case = [local_ms; peer_ms; events..]; events (code mod 3):
   0 t pto: Recv | 1 t pto: SendAE | 2 t: Timeout.  Output: effective idle timeout (ms), then per
   event [armed; expiry; reset_on_send flag; closed]. *)
Definition argN (cap : N) (z : Z) : N := N.min (zN z) cap.
Definition arg (cap : N) (i : nat) (l : list Z) : N := argN cap (nth i l 0%Z).
Definition tmax : N := 1099511627776.      (* 2^40 us *)
Definition imax : N := 4294967296.         (* 2^32 ms *)
Definition pmax : N := 68719476736.        (* 2^36 us *)

Fixpoint parse (fuel : nat) (l : list Z) : list ev :=
  match fuel with O => [] | S fuel =>
  match l with
  | [] => []
  | c :: t =>
      match (c mod 3)%Z with
      | 0%Z => Recv (arg tmax 0 t) (arg pmax 1 t) :: parse fuel (skipn 2 t)
      | 1%Z => SendAE (arg tmax 0 t) (arg pmax 1 t) :: parse fuel (skipn 2 t)
      | _ => Timeout (arg tmax 0 t) :: parse fuel (skipn 1 t)
      end
  end end.

Definition iobs (s : ist) : list Z :=
  [bz (match itimer s with Some _ => true | None => false end);
   Nz (match itimer s with Some e => e | None => 0 end); bz (iflag s); bz (iclosed s)].

Fixpoint run_evs (idle : N) (s : ist) (es : list ev) : list Z :=
  match es with
  | [] => []
  | e :: t => let s' := istep idle s e in iobs s' ++ run_evs idle s' t
  end.

Definition idle_of (l : list Z) : N := load_peer (arg imax 0 l) (arg imax 1 l).
Definition evs_of (l : list Z) : list ev := parse (length l) (skipn 2 l).
Definition run (l : list Z) : list Z := Nz (idle_of l) :: run_evs (idle_of l) ist_init (evs_of l).

(* ---- judge: recomputed from the events alone.  The last reset (time, PTO at that moment) is the
   last processed packet, or the first ack-eliciting send after it.  Demands: the effective idle
   timeout is the minimum of the two advertised non-zero values; while the connection is open and
   the idle timeout is enabled the timer is armed at exactly  last reset + max(idle, 3 PTO);
   a timeout notification at or after that deadline closes the connection; nothing else does. *)
Record ijs := mkIjs { jreset : option (N * N); jflag : bool; jclosed : bool }.

Definition expected_deadline (idle : N) (r : option (N * N)) : option N :=
  match r with
  | Some (t, pto) => match idle_duration_ms idle pto with Some d => Some (deadline (tsn t) d) | None => None end
  | None => None
  end.

Definition ijstep (idle : N) (j : ijs) (e : ev) : ijs :=
  if jclosed j then j else
  match e with
  | Recv t pto => if idle =? 0 then j else mkIjs (Some (t, pto)) true false
  | SendAE t pto =>
      if jflag j then (if idle =? 0 then mkIjs (jreset j) false false else mkIjs (Some (t, pto)) false false) else j
  | Timeout t =>
      match expected_deadline idle (jreset j) with
      | Some d => if d <? tsn t + granularity then mkIjs None (jflag j) true else j
      | None => j
      end
  end.

Fixpoint judge_evs (idle : N) (j : ijs) (es : list ev) (out : list Z) : bool :=
  match es, out with
  | [], [] => true
  | e :: t, armed :: exp :: flag :: closed :: out' =>
      let j' := ijstep idle j e in
      (closed =? bz (jclosed j'))%Z
      && (if jclosed j' then (armed =? 0)%Z
          else match expected_deadline idle (jreset j') with
               | Some d => (armed =? 1)%Z && (exp =? Nz d)%Z
               | None => (armed =? 0)%Z
               end)
      && judge_evs idle j' t out'
  | _, _ => false
  end.

Definition min_nonzero (a b : N) : N :=
  if a =? 0 then b else if b =? 0 then a else N.min a b.

Definition judge (l out : list Z) : bool :=
  match out with
  | idle :: out' =>
      (idle =? Nz (min_nonzero (arg imax 0 l) (arg imax 1 l)))%Z
      && judge_evs (min_nonzero (arg imax 0 l) (arg imax 1 l)) (mkIjs None false false) (evs_of l) out'
  | [] => false
  end.
