(* Model of quic/s2n-quic-transport/src/space/tx_packet_numbers.rs (TxPacketNumbers) together with the
   packet number selection of ApplicationSpace::on_transmit (PTO skip, optimistic-ack skip) that the
   hook driver TxPnDriver replays.  Executable definitions only. *)
From SQ Require Import lib.Base.
Local Open Scope N_scope.

Record tstate := {
  lsa : N;              (* largest_sent_acked.0 *)
  next : N;             (* next *)
  skip : option N       (* skip_packet_number *)
}.

(* TxPacketNumbers::new: both start at packet number 0 *)
Definition tinit : tstate := {| lsa := 0; next := 0; skip := None |}.

Inductive op :=
| OTransmit (requires_probe skip_counter_zero abandoned : bool)
| OAck (lo hi lowest_tracking : N)
| OJump (jump : N).

Inductive event :=
| ESent (pn : N) (skipped : option N)      (* a packet went out with pn; number skipped for opt-ack mitigation *)
| EAbandoned
| EAck (ok : bool) (lsa next : N) (should_skip : bool)
| EOutOfRange                              (* transmit_at beyond 2^62 - 1: nothing happens *)
| EPanic.                                  (* "packet number overflowed" / next().unwrap() *)

(* PacketNumber::next: None above VarInt::MAX *)
Definition pn_next (pn : N) : option N := if pn <? varint_max then Some (pn + 1) else None.

(* TxPacketNumbers::on_transmit *)
Definition on_transmit (s : tstate) (pn : N) : option tstate :=
  match pn_next pn with
  | Some n => Some {| lsa := lsa s; next := n; skip := skip s |}
  | None => None
  end.

(* TxPacketNumbers::on_packet_ack with a PacketNumberRange lo..=hi as the ack set; None = panic *)
Definition on_packet_ack (s : tstate) (lo hi lowest : N) : option (tstate * bool) :=
  let largest := hi in
  if next s <=? largest then Some (s, false)
  else
    match skip s with
    | Some sk =>
        if (lo <=? sk) && (sk <=? hi) then Some (s, false)
        else
          match pn_next sk with
          | None => None
          | Some skip_plus_one =>
              let skip' := if skip_plus_one <? lowest then None else Some sk in
              let lsa' := if lsa s <? largest then largest else lsa s in
              Some ({| lsa := lsa'; next := next s; skip := skip' |}, true)
          end
    | None =>
        let lsa' := if lsa s <? largest then largest else lsa s in
        Some ({| lsa := lsa'; next := next s; skip := None |}, true)
    end.

(* TxPnDriver::transmit = ApplicationSpace::on_transmit's choice of the packet number *)
Definition transmit (s : tstate) (probe sc0 abandoned : bool) : tstate * event :=
  let pn0 := next s in
  let r1 := if probe && negb (pn0 =? 0)
            then match pn_next pn0 with Some p => Some (p, Some pn0) | None => None end
            else Some (pn0, None) in
  match r1 with
  | None => (s, EPanic)
  | Some (pn1, pto) =>
      let r2 := if sc0 && (match skip s with None => true | Some _ => false end)
                then match pto with
                     | Some sp => Some (pn1, Some sp)
                     | None => match pn_next pn1 with Some p => Some (p, Some pn1) | None => None end
                     end
                else Some (pn1, None) in
      match r2 with
      | None => (s, EPanic)
      | Some (pn2, opt) =>
          if abandoned then (s, EAbandoned)
          else match on_transmit s pn2 with
               | None => (s, EPanic)
               | Some s' =>
                   let s'' := match opt with
                              | Some sk => {| lsa := lsa s'; next := next s'; skip := Some sk |}
                              | None => s'
                              end in
                   (s'', ESent pn2 opt)
               end
      end
  end.

Definition step (s : tstate) (o : op) : tstate * event :=
  match o with
  | OTransmit p c a => transmit s p c a
  | OAck lo hi lowest =>
      match on_packet_ack s lo hi lowest with
      | None => (s, EPanic)
      | Some (s', ok) => (s', EAck ok (lsa s') (next s') (match skip s' with None => true | _ => false end))
      end
  | OJump j =>
      let v := next s + j in
      if v <? varint_max then        (* the harness does not call on_transmit(2^62 - 1), which panics *)
        match on_transmit s v with
        | None => (s, EPanic)
        | Some s' => (s', ESent v None)
        end
      else (s, EOutOfRange)
  end.

(* a panic ends the case *)
Fixpoint steps (s : tstate) (ops : list op) : list event :=
  match ops with
  | [] => []
  | o :: t => let '(s', e) := step s o in
              match e with EPanic => [EPanic] | _ => e :: steps s' t end
  end.

Fixpoint final (s : tstate) (ops : list op) : tstate :=
  match ops with
  | [] => s
  | o :: t => let '(s', e) := step s o in
              match e with EPanic => s | _ => final s' t end
  end.

(* ---------------- harness protocol ---------------- *)
(* case: `0 flags` (bit0 requires_probe, bit1 skip counter is zero, bit2 abandoned) |
         `1 a b lowest` (ack of the range min a b ..= max a b) | `2 jump`; op code taken mod 3 *)
Fixpoint parse (fuel : nat) (c : list Z) : list op :=
  match fuel with
  | O => []
  | S f =>
      match c with
      | [] => []
      | k :: r =>
          match (k mod 3)%Z with
          | 0%Z => let fl := zN (hd 0%Z r) in
                 OTransmit (N.testbit fl 0) (N.testbit fl 1) (N.testbit fl 2) :: parse f (tl r)
          | 1%Z => let a := zN (hd 0%Z r) in let b := zN (hd 0%Z (tl r)) in
                 let lw := zN (hd 0%Z (tl (tl r))) in
                 OAck (N.min a b) (N.max a b) lw :: parse f (tl (tl (tl r)))
          | _ => OJump (zN (hd 0%Z r)) :: parse f (tl r)
          end
      end
  end.

Definition optz (o : option N) : Z := match o with Some v => Nz v | None => (-1)%Z end.

Definition encode (e : event) : list Z :=
  match e with
  | ESent pn sk => [Nz pn; optz sk]
  | EAbandoned => [-3; -1]%Z
  | EAck ok l n ss => [bz (negb ok); Nz l; Nz n; bz ss]
  | EOutOfRange => [-2; -1]%Z
  | EPanic => [-1]%Z
  end.

Definition run (c : list Z) : list Z :=
  flat_map encode (steps tinit (parse (length c) c)).

(* ---------------- the property as a judgement on an implementation's output ---------------- *)
(* last = largest packet number put on the wire so far (-1: none);
   macc = largest number the peer has acknowledged in an accepted ACK so far (0 initially: the base the
          implementation starts from before any acknowledgement, which is below every receiver base) *)
Fixpoint judge_from (last macc : Z) (ops : list op) (out : list Z) : bool :=
  match ops with
  | [] => match out with [] => true | _ => false end
  | o :: t =>
      match out with
      | [] => false
      | [a] =>
          (* the sender stops instead of reusing a number: only legitimate when the numbers are used up *)
          (a =? -1)%Z && match o with OTransmit _ _ _ => (Nz varint_max - 4 <=? last)%Z | _ => false end
      | a :: b :: r =>
          match o with
          | OAck lo hi _ =>
              match r with
              | n :: ss :: r' =>
                  let macc' := if (a =? 0)%Z then Z.max macc (Nz hi) else macc in
                  (* the truncation base never exceeds the largest acknowledged number, and the next
                     number to be handed out is above everything sent *)
                  (b <=? macc')%Z && (last <? n)%Z && judge_from last macc' t r'
              | _ => false
              end
          | OTransmit _ _ ab =>
              if (a =? -3)%Z then ab && judge_from last macc t r
              else
                (* strictly increasing, inside the packet number range; a skipped number lies strictly
                   between the previous and this packet number, so it is never used *)
                (last <? a)%Z && (a <=? Nz varint_max)%Z
                && (if (b =? -1)%Z then true else (last <? b)%Z && (b <? a)%Z)
                && judge_from a macc t r
          | OJump _ =>
              if (a =? -2)%Z then judge_from last macc t r
              else (last <? a)%Z && (a <=? Nz varint_max)%Z && judge_from a macc t r
          end
      end
  end.

Definition judge (c out : list Z) : bool := judge_from (-1) 0 (parse (length c) c) out.
