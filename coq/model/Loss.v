(* Model of s2n-quic-core/src/recovery/loss.rs (detect) on top of RttEstimator::loss_time_threshold.
   Timestamps are microseconds, durations nanoseconds.  Executable definitions only. *)
From SQ Require Import lib.Base gen.Gen_C09 model.RecTime model.Rtt.
Local Open Scope N_scope.

Inductive outcome := Lost | NotLostYet (lost_time : N).

(* detect(time_threshold, time_sent, packet_number_threshold, packet_number, largest_acked, now);
   requires largest > pn (debug assertion + expect in the source) *)
Definition detect (thr sent k pn largest now : N) : outcome :=
  let lost_time := ts_add sent thr in
  let time_exceeded := has_elapsed lost_time now in
  let pn_exceeded := k <=? largest - pn in
  if time_exceeded || pn_exceeded then Lost else NotLostYet lost_time.

(* ---- harness protocol ----
   case = [init_ns; s1; s2; s3; sent_us; pn; largest; now_us; thr_direct]
   the estimator is RttEstimator::new(init) followed by update_rtt(0, s_i, .., false, ApplicationData)
   for every s_i <> 0; thr = thr_direct if non-zero, else loss_time_threshold();
   K = K_PACKET_THRESHOLD.  Output [smoothed; latest; thr; code; lost_time_us] (code 1 = Lost). *)
Definition feed (r : rtt) (s : Z) : rtt :=
  if (s =? 0)%Z then r else update_rtt r 0 (zN s) false 2.

Definition nthz (l : list Z) (i : nat) : Z := nth i l 0%Z.

Definition case_rtt (c : list Z) : rtt :=
  feed (feed (feed (rtt_new 0 (zN (nthz c 0))) (nthz c 1)) (nthz c 2)) (nthz c 3).
Definition case_thr (c : list Z) : N :=
  if (nthz c 8 =? 0)%Z then loss_time_threshold (case_rtt c) else zN (nthz c 8).
Definition case_sent (c : list Z) : N := ts_norm (zN (nthz c 4)).
Definition case_now (c : list Z) : N := ts_norm (zN (nthz c 7)).

Definition run (c : list Z) : list Z :=
  let r := case_rtt c in
  let o := detect (case_thr c) (case_sent c) k_packet_threshold (zN (nthz c 5)) (zN (nthz c 6)) (case_now c) in
  [Nz (smoothed r); Nz (latest r); Nz (case_thr c);
   match o with Lost => 1 | NotLostYet _ => 0 end;
   match o with Lost => 0 | NotLostYet t => Nz t end]%Z.

(* ---- the property as an executable judgement ----
   The "current RTT estimate" is the estimator's reported smoothed/latest; the threshold in force must
   be max(9/8 * max(smoothed, latest), 1 ms) (whole nanoseconds) unless the case dictates one.
   With dist = largest - pn > 0 and timestamps of 1 us resolution:
     declared lost      ->  dist >= 3  \/  sent + floor_us(thr) <= now
     not declared lost  ->  dist <  3  /\  now < sent + ceil_us(thr)          (RFC 9002 6.1 converse) *)
Definition rfc_threshold (sm la : N) : N :=
  let m := N.max sm la in N.max (9 * m / 8) 1000000.

Definition may_be_lost (thr sent pn largest now : N) : bool :=
  (3 <=? largest - pn) || (sent + thr / 1000 <=? now).
Definition must_be_lost (thr sent pn largest now : N) : bool :=
  (3 <=? largest - pn) || (sent + (thr + 999) / 1000 <=? now).

Definition judge (c out : list Z) : bool :=
  match out with
  | [sm; la; thr; code; _] =>
      let sent := ts_norm (zN (nthz c 4)) in
      let now := ts_norm (zN (nthz c 7)) in
      let pn := zN (nthz c 5) in
      let largest := zN (nthz c 6) in
      (0 <=? sm)%Z && (0 <=? la)%Z && (0 <=? thr)%Z
      && (if (nthz c 8 =? 0)%Z then zN thr =? rfc_threshold (zN sm) (zN la) else zN thr =? zN (nthz c 8))
      && (if (code =? 1)%Z then may_be_lost (zN thr) sent pn largest now
          else (code =? 0)%Z && negb (must_be_lost (zN thr) sent pn largest now))
  | _ => false
  end.
