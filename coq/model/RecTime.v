(* Time arithmetic of s2n-quic-core/src/time/timestamp.rs as used by loss recovery.
   Timestamp = non-zero u64 of MICROseconds; Duration = nanoseconds (N).
   Executable definitions only. *)
From SQ Require Import lib.Base gen.Gen_C09.
Local Open Scope N_scope.

(* Timestamp::from_duration_impl: truncate to microseconds, 0 is rounded up to 1 us *)
Definition ts_norm (us : N) : N := if us =? 0 then 1 else us.
Definition ts_of_dur (ns : N) : N := ts_norm (ns / 1000).
(* Timestamp + Duration *)
Definition ts_add (t : N) (d : N) : N := ts_of_dur (t * 1000 + d).
(* Timestamp - Timestamp  (Duration, ns); the Rust panics when negative, never used so here *)
Definition ts_sub (a b : N) : N := (a - b) * 1000.
(* K_GRANULARITY.as_micros() *)
Definition gran_us : N := k_granularity_ns / 1000.
(* Timestamp::has_elapsed(self, now): `now += K_GRANULARITY.as_micros(); self < now` *)
Definition has_elapsed (t now : N) : bool := t <? now + gran_us.
