(* Model of quic/s2n-quic-core/src/crypto/header_crypto.rs (apply_header_protection,
   remove_header_protection, mask_from_packet_tag, xor_mask), payload.rs (header_protection_sample)
   and crypto/mod.rs (protect, unprotect).  Bytes are N.  Executable definitions only. *)
From SQ Require Import lib.Base gen.Gen_C06.
Local Open Scope N_scope.

(* mask_from_packet_tag *)
Definition mask_from_tag (tag : N) : N :=
  if N.land tag hp_long_header_tag =? hp_long_header_tag then hp_long_header_mask else hp_short_header_mask.

(* PacketNumberLenValue::from_packet_tag(tag).bytesize() = (tag & PACKET_NUMBER_LEN_MASK) + 1 *)
Definition pn_len_of_tag (tag : N) : nat := N.to_nat (N.land tag pn_len_mask + pn_len_bias).

(* xor_mask: `for (p, m) in payload.iter_mut().zip(mask)`; bytes beyond the mask stay *)
Fixpoint xor_mask (l m : list N) : list N :=
  match l, m with
  | x :: l', y :: m' => N.lxor x y :: xor_mask l' m'
  | _, _ => l
  end.

(* payload[off .. off+n] ^= mk   (slice bounds are established by the sample check before) *)
Fixpoint xor_at (off n : nat) (mk l : list N) : list N :=
  match off with
  | O => xor_mask (firstn n l) mk ++ skipn n l
  | S o => match l with [] => [] | x :: t => x :: xor_at o n mk t end
  end.

(* payload[0] ^= mask[0] & mask_from_packet_tag(payload[0]) *)
Definition mask_first (mask : list N) (l : list N) : list N :=
  match l with
  | [] => []
  | b :: t => N.lxor b (N.land (nth 0 mask 0) (mask_from_tag b)) :: t
  end.

Definition pn_mask (mask : list N) : list N := skipn (N.to_nat hp_mask_pn_start) mask.

Definition apply_mask (mask : list N) (hlen pnlen : nat) (l : list N) : list N :=
  xor_at hlen pnlen (pn_mask mask) (mask_first mask l).

Definition be_decode (l : list N) : N := fold_left (fun acc b => acc * 256 + b) l 0.

Definition pn_bytes (hlen pnlen : nat) (l : list N) : list N := firstn pnlen (skipn hlen l).

(* remove_header_protection: the packet number length is read from the *unmasked* first byte *)
Definition remove_mask (mask : list N) (hlen : nat) (l : list N) : N * nat * list N :=
  let l1 := mask_first mask l in
  let pnlen := pn_len_of_tag (hd 0 l1) in
  let l2 := xor_at hlen pnlen (pn_mask mask) l1 in
  (be_decode (pn_bytes hlen pnlen l2), pnlen, l2).

(* header_protection_sample: skip header_len, skip PacketNumberLen::MAX_LEN, take sample_len *)
Definition sample (slen hlen : nat) (l : list N) : option (list N) :=
  let r := skipn (hlen + N.to_nat hp_sample_pn_skip) l in
  if Nat.ltb (length r) slen then None else Some (firstn slen r).

Section Keyed.
  (* the header-protection PRF (sample -> 5 byte mask) and its sample length *)
  Variable prf : list N -> list N.
  Variable slen : nat.

  Definition protect (hlen pnlen : nat) (l : list N) : option (list N) :=
    match sample slen hlen l with
    | None => None
    | Some s => Some (apply_mask (prf s) hlen pnlen l)
    end.

  Definition unprotect (hlen : nat) (l : list N) : option (N * nat * list N) :=
    match sample slen hlen l with
    | None => None
    | Some s => Some (remove_mask (prf s) hlen l)
    end.
End Keyed.

(* ---- harness protocol -------------------------------------------------------------------- *)
(* The harness key derives its mask from all 16 sample bytes and 5 bytes of the case:
   mask[i] = m[i] ^ s[i] ^ s[i+5] ^ s[i+10] (^ s[15] for i = 0) *)
Definition test_slen : nat := 16.
Definition test_prf (m s : list N) : list N :=
  map (fun i => N.lxor (N.lxor (N.lxor (nth i m 0) (nth i s 0)) (N.lxor (nth (i + 5) s 0) (nth (i + 10) s 0)))
                       (if Nat.eqb i 0 then nth 15 s 0 else 0))
      (seq 0 (N.to_nat hp_mask_len)).

Definition emit_protect (r : option (list N)) : list Z :=
  match r with None => [1%Z] | Some p => 0%Z :: map Nz p end.
Definition emit_unprotect (r : option (N * nat * list N)) : list Z :=
  match r with None => [1%Z] | Some (pn, n, e) => 0%Z :: Z.of_nat n :: Nz pn :: map Nz e end.

(* case = space :: hlen :: m0..m4 :: bytes.
   stage 1: protect the bytes (pn length from their first byte); stage 2: unprotect the result;
   stage 3: unprotect the raw bytes (attacker's view); stage 4: protect stage 3's result again *)
Definition run (c : list Z) : list Z :=
  let hlen := Z.to_nat (nth 1 c 0%Z) in
  let m := map zN (firstn 5 (skipn 2 c)) in
  let l := map zN (skipn 7 c) in
  let prf := test_prf m in
  let r1 := protect prf test_slen hlen (pn_len_of_tag (hd 0 l)) l in
  let r2 := match r1 with None => None | Some p => unprotect prf test_slen hlen p end in
  let r3 := unprotect prf test_slen hlen l in
  let r4 := match r3 with None => None
            | Some (_, _, e) => protect prf test_slen hlen (pn_len_of_tag (hd 0 e)) e end in
  emit_protect r1 ++ emit_unprotect r2 ++ emit_unprotect r3 ++ emit_protect r4.

(* ---- the property as an executable judgement ---------------------------------------------- *)

(* a and b agree except: byte 0 may differ inside the bits of fm, bytes hlen..hlen+pnlen-1 freely *)
Fixpoint same_except_from (i hlen pnlen : nat) (fm : N) (a b : list N) : bool :=
  match a, b with
  | [], [] => true
  | x :: a', y :: b' =>
      (if Nat.eqb i 0 then N.lor (N.lxor x y) fm =? fm
       else if Nat.leb hlen i && Nat.ltb i (hlen + pnlen) then true else x =? y)
      && same_except_from (S i) hlen pnlen fm a' b'
  | _, _ => false
  end.
Definition same_except := same_except_from 0.

Fixpoint eqb_list (a b : list N) : bool :=
  match a, b with
  | [], [] => true
  | x :: a', y :: b' => (x =? y) && eqb_list a' b'
  | _, _ => false
  end.

(* parsers for the implementation's output *)
Definition take_protect (n : nat) (o : list Z) : option (option (list N) * list Z) :=
  match o with
  | 0%Z :: t => if Nat.ltb (length t) n then None else Some (Some (map zN (firstn n t)), skipn n t)
  | 1%Z :: t => Some (None, t)
  | _ => None
  end.
Definition take_unprotect (n : nat) (o : list Z) : option (option (N * nat * list N) * list Z) :=
  match o with
  | 0%Z :: k :: pn :: t =>
      if Nat.ltb (length t) n then None else Some (Some (zN pn, Z.to_nat k, map zN (firstn n t)), skipn n t)
  | 1%Z :: t => Some (None, t)
  | _ => None
  end.

(* what an opened packet must look like relative to the protected bytes d it came from:
   the packet number length is the one named by the unmasked first byte, the packet number is the
   big-endian value of the unmasked bytes, nothing but protected bits and pn bytes differ *)
Definition open_ok (hlen : nat) (d : list N) (r : N * nat * list N) : bool :=
  let '(pn, n, e) := r in
  Nat.eqb n (pn_len_of_tag (hd 0 e)) && (pn =? be_decode (pn_bytes hlen n e))
  && same_except hlen n (mask_from_tag (hd 0 e)) e d.

Definition judge (c o : list Z) : bool :=
  let hlen := Z.to_nat (nth 1 c 0%Z) in
  let l := map zN (skipn 7 c) in
  let n := length l in
  if Nat.eqb hlen 0 then true else
  match take_protect n o with
  | None => false
  | Some (r1, o1) =>
    match take_unprotect n o1 with
    | None => false
    | Some (r2, o2) =>
      match take_unprotect n o2 with
      | None => false
      | Some (r3, o3) =>
        match take_protect n o3 with
        | None => false
        | Some (r4, o4) =>
          (match o4 with [] => true | _ => false end)
          && (match r1, r2 with
              | None, _ => true
              | Some p, None => false
              | Some p, Some (pn, k, e) =>
                  (* sealing touches only protected bits; opening returns exactly the original *)
                  same_except hlen (pn_len_of_tag (hd 0 l)) (mask_from_tag (hd 0 l)) l p
                  && eqb_list e l && open_ok hlen p (pn, k, e)
              end)
          && (match r3, r4 with
              | None, _ => true
              | Some _, None => false
              | Some r, Some d' => open_ok hlen l r && eqb_list d' l
              end)
        end
      end
    end
  end.
