(* RFC 9000 section 12.4, Table 3 ("Frame Types"), transcribed from the RFC text: for each frame
   type the packet types it may appear in (column "Pkts": I = Initial, H = Handshake, 0 = 0-RTT,
   1 = 1-RTT).  Executable definitions only.

   s2n-quic has three packet-number spaces; 0-RTT packets are not processed by any of them (the
   source does not distinguish 0-RTT), so the 0-RTT column is transcribed but compared with nothing.
   Space numbering as in Gen_C04: 0 = Initial, 1 = Handshake, 2 = Application data (1-RTT). *)
From SQ Require Import lib.Base.
Local Open Scope N_scope.

Record pkts := { pI : bool; pH : bool; p0 : bool; p1 : bool }.
Definition IH01 := {| pI := true;  pH := true;  p0 := true;  p1 := true |}.
Definition IH_1 := {| pI := true;  pH := true;  p0 := false; p1 := true |}.
Definition __01 := {| pI := false; pH := false; p0 := true;  p1 := true |}.
Definition ___1 := {| pI := false; pH := false; p0 := false; p1 := true |}.

(* (first type value, Pkts).  0x1c-0x1d CONNECTION_CLOSE has "ih01" with the note "Only a
   CONNECTION_CLOSE frame of type 0x1c can appear in Initial or Handshake packets": it is split into
   its two type values here.  Row 0x30: DATAGRAM, RFC 9221 section 4 ("DATAGRAM frames ... MUST
   only be sent in 0-RTT or 1-RTT packets"; receipt elsewhere is a PROTOCOL_VIOLATION). *)
Definition table3 : list (N * pkts) := [
  (0x00, IH01);  (* PADDING              *)
  (0x01, IH01);  (* PING                 *)
  (0x02, IH_1);  (* ACK (0x02-0x03)      *)
  (0x04, __01);  (* RESET_STREAM         *)
  (0x05, __01);  (* STOP_SENDING         *)
  (0x06, IH_1);  (* CRYPTO               *)
  (0x07, ___1);  (* NEW_TOKEN            *)
  (0x08, __01);  (* STREAM (0x08-0x0f)   *)
  (0x10, __01);  (* MAX_DATA             *)
  (0x11, __01);  (* MAX_STREAM_DATA      *)
  (0x12, __01);  (* MAX_STREAMS (0x12-0x13) *)
  (0x14, __01);  (* DATA_BLOCKED         *)
  (0x15, __01);  (* STREAM_DATA_BLOCKED  *)
  (0x16, __01);  (* STREAMS_BLOCKED (0x16-0x17) *)
  (0x18, __01);  (* NEW_CONNECTION_ID    *)
  (0x19, __01);  (* RETIRE_CONNECTION_ID *)
  (0x1a, __01);  (* PATH_CHALLENGE       *)
  (0x1b, ___1);  (* PATH_RESPONSE        *)
  (0x1c, IH01);  (* CONNECTION_CLOSE, transport (0x1c) *)
  (0x1d, __01);  (* CONNECTION_CLOSE, application (0x1d): not in Initial / Handshake *)
  (0x1e, ___1);  (* HANDSHAKE_DONE       *)
  (0x30, __01)   (* DATAGRAM (RFC 9221, 0x30-0x31) *)
].

Definition rfc_kinds : list N := map fst table3.
Definition spaces : list N := [0; 1; 2].

Fixpoint lookup_kind (k : N) (t : list (N * pkts)) : option pkts :=
  match t with
  | [] => None
  | (k', p) :: r => if k =? k' then Some p else lookup_kind k r
  end.

(* may a frame of kind [k] appear in a packet of space [sp]?  (false for unknown kinds/spaces) *)
Definition rfc9000_table3 (sp k : N) : bool :=
  match lookup_kind k table3 with
  | None => false
  | Some p => if sp =? 0 then pI p else if sp =? 1 then pH p else if sp =? 2 then p1 p else false
  end.

(* RFC 9000 19.7 / 19.20: "A server MUST treat receipt of a NEW_TOKEN frame as a connection error of
   type PROTOCOL_VIOLATION", "A server MUST treat receipt of a HANDSHAKE_DONE frame as a connection
   error of type PROTOCOL_VIOLATION": the kinds only a server sends. *)
Definition rfc_server_must_reject (k : N) : bool := (k =? 0x07) || (k =? 0x1e).

(* RFC 9000 12.4: "An endpoint MUST treat receipt of a frame in a packet type that is not permitted
   as a connection error of type PROTOCOL_VIOLATION." (0x0a, section 20.1) *)
Definition rfc_protocol_violation : N := 0x0a.

(* lookup in the generated table *)
Fixpoint lookup_allowed (sp k : N) (t : list (N * N * bool)) : option bool :=
  match t with
  | [] => None
  | (sp', k', b) :: r => if (sp =? sp') && (k =? k') then Some b else lookup_allowed sp k r
  end.

(* the rows Table 3 prescribes, in the order space-major / table order *)
Definition rfc_rows : list (N * N * bool) :=
  flat_map (fun sp => map (fun k => (sp, k, rfc9000_table3 sp k)) rfc_kinds) spaces.

Definition rfc_server_rows : list (N * bool) :=
  map (fun k => (k, rfc_server_must_reject k))
      (filter (fun k => rfc9000_table3 2 k && negb (k =? 0x1c) && negb (k =? 0x1d)) rfc_kinds).
