(* Known deviations of the implementation from the RFC table, as narrow entry classes.  Used (a) as the
   exclusion in the _partial theorems of props/C14.v and (b) by the check's classifier, which re-runs
   the implementation on the block with the offending entries removed ([strip]).
     class 1 `ade_nonminimal`: ack_delay_exponent (0x0a) whose value is a well-formed variable-length
              integer not above 20 but encoded in 2, 4 or 8 bytes (the source decodes it as a `u8`);
     class 2 `rscid_short`: retry_source_connection_id (0x10) from a server with a length of 0..3 bytes
              (the source types it as `LocalId`, MIN_LEN 4).
   Executable definitions only. *)
From SQ Require Import lib.Base lib.C14Fmt model.Rfc18_2.
Local Open Scope N_scope.

Definition dev_class (from_server : bool) (e : N * list N) : N :=
  if (fst e =? 10) && negb (len (snd e) =? 1)
     && (match rint (snd e) with Some x => x <=? 20 | None => false end) then 1
  else if from_server && (fst e =? 16) && (len (snd e) <? 4) then 2
  else 0.

Definition has_dev (from_server : bool) (es : list (N * list N)) : bool :=
  existsb (fun e => negb (dev_class from_server e =? 0)) es.

(* bytes of the block without the entries of a deviation class; the classes met, first first *)
Fixpoint strip (fuel : nat) (from_server : bool) (b : list N) : list N * list N :=
  match fuel with
  | O => (b, [])
  | S k =>
      match rvi b with
      | None => (b, [])
      | Some (id, b1) =>
          match rvi b1 with
          | None => (b, [])
          | Some (l, b2) =>
              if len b2 <? l then (b, []) else
              let raw := take (len b - len b2 + l) b in
              let '(rest, cls) := strip k from_server (drop l b2) in
              let c := dev_class from_server (id, take l b2) in
              if c =? 0 then (raw ++ rest, cls) else (rest, c :: cls)
          end
      end
  end.

(* harness-protocol rendering for the classifier: [class; role; stripped block...] or [0] *)
Definition run (c : list Z) : list Z :=
  let from_server := negb (hd 0%Z c =? 0)%Z in
  let blk := map zN (tl c) in
  match strip (S (length blk)) from_server blk with
  | (_, []) => [0%Z]
  | (b, cl :: _) => Nz cl :: hd 0%Z c :: map Nz b
  end.
Definition judge (c out : list Z) : bool := true.
