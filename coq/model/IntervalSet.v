(* Model of quic/s2n-quic-core/src/interval_set/{mod,insert,remove,interval}.rs for a bounded integer
   element type (u64: emax = 2^64-1; VarInt / PacketNumber: emax = 2^62-1), and the reference
   specification.  Executable definitions only. *)
From SQ Require Import lib.Base gen.Gen_C16.
Local Open Scope N_scope.

Definition ival := (N * N)%type.                 (* Interval { start, end }, both inclusive *)
Definition usize_max : N := u64_max.

Section Elt.
Variable emax : N.                               (* largest value of the element type *)

Definition step_up_sat (x : N) : N := if x <? emax then x + 1 else x.   (* checked_add(1).unwrap_or(self) *)
Definition step_down_sat (x : N) : N := x - 1.                            (* checked_sub(1).unwrap_or(self): 0 stays 0 *)
Definition end_exclusive (a : ival) : N := step_up_sat (snd a).
Definition start_exclusive (a : ival) : N := step_down_sat (fst a).
(* Interval::should_coalesce: self.start <= other.end_exclusive() *)
Definition should_coalesce (self other : ival) : bool := fst self <=? end_exclusive other.

(* ------------------------------ insert.rs ------------------------------ *)
Inductive iscan_res := IFound (idx : N) | IDone (a : ival) (rs re : N).

(* Insertion::scan over the intervals from slot k on; rs..re is replace_range (usize::MAX..0 initially) *)
Fixpoint iscan (q : list ival) (k : N) (a : ival) (rs re : N) : iscan_res :=
  match q with
  | [] => IDone a rs re
  | b :: t =>
      match fst a ?= fst b, snd a ?= snd b with
      | Eq, Eq | Gt, Eq => IFound (k + 1)
      | Eq, Lt | Gt, Lt => IFound k
      | Gt, Gt =>
          if should_coalesce a b
          then iscan t (k + 1) (fst b, snd a) (N.min rs k) (N.max re (k + 1))
          else iscan t (k + 1) a rs re
      | Eq, Gt | Lt, Gt => iscan t (k + 1) a (N.min rs k) (N.max re (k + 1))
      | Lt, Eq => IDone a (N.min rs k) (N.max re (k + 1))
      | Lt, Lt =>
          if should_coalesce b a
          then IDone (fst a, snd b) (N.min rs k) (N.max re (k + 1))
          else IDone a (N.min rs k) (N.max re k)
      end
  end.

Definition under_limit (limit : option N) (prev_len : N) : bool :=
  match limit with Some l => prev_len <? l | None => true end.

(* Insertion::apply; None = Err(LimitExceeded) *)
Definition iapply (l : list ival) (a : ival) (rs re : N) (limit : option N) : option (list ival * N) :=
  let prev_len := N.of_nat (length l) in
  if re <? rs then                                   (* replace_range.end.checked_sub(index) = None *)
    if under_limit limit prev_len then Some (l ++ [a], prev_len) else None
  else
    let i := N.to_nat rs in
    let count := re - rs in
    if count =? 0 then
      if under_limit limit prev_len then Some (firstn i l ++ a :: skipn i l, rs) else None
    else if count =? 1 then Some (firstn i l ++ a :: skipn (i + 1) l, rs)
    else if count =? 2 then Some (firstn i l ++ a :: skipn (i + 2) l, rs)
    else Some (firstn i l ++ a :: skipn (N.to_nat re) l, rs).

Definition insert_at (l : list ival) (a : ival) (start_index : N) (limit : option N) : option (list ival * N) :=
  match iscan (skipn (N.to_nat start_index) l) start_index a usize_max 0 with
  | IFound idx => Some (l, idx)
  | IDone a' rs re => iapply l a' rs re limit
  end.

(* ------------------------------ remove.rs ------------------------------ *)
(* result of Removal::scan: the scanned suffix with its in-place edits, and either Some(index) or the
   Removal state (replace_range, push_range) *)
Inductive rscan_res := RFound (idx : N) | RDone (rs re : N) (push : option ival).

Fixpoint rscan (q : list ival) (k : N) (a : ival) (rs re : N) (can_push : bool) : list ival * rscan_res :=
  match q with
  | [] => ([], RDone rs re None)
  | b :: t =>
      match fst a ?= fst b, snd a ?= snd b with
      | Eq, Lt => ((end_exclusive a, snd b) :: t, RFound k)
      | Gt, Eq => ((fst b, start_exclusive a) :: t, RFound (k + 1))
      | Gt, Lt =>
          (* push_range(..)? leaves scan at once when the limit forbids another interval *)
          if can_push
          then ((fst b, start_exclusive a) :: t,
                RDone (N.min rs (k + 1)) (N.max re (k + 1)) (Some (end_exclusive a, snd b)))
          else (b :: t, RDone rs re (Some (end_exclusive a, snd b)))
      | Gt, Gt =>
          if should_coalesce a b
          then let '(t', r) := rscan t (k + 1) a (N.min rs (k + 1)) re can_push in
               ((fst b, start_exclusive a) :: t', r)
          else let '(t', r) := rscan t (k + 1) a rs re can_push in (b :: t', r)
      | Eq, Gt | Lt, Gt =>
          let '(t', r) := rscan t (k + 1) a (N.min rs k) (N.max re (k + 1)) can_push in (b :: t', r)
      | Eq, Eq | Lt, Eq => (b :: t, RDone (N.min rs k) (N.max re (k + 1)) None)
      | Lt, Lt =>
          if should_coalesce b a
          then ((end_exclusive a, snd b) :: t, RDone rs (N.max re k) None)
          else (b :: t, RDone rs re None)
      end
  end.

Definition remove_at (l : list ival) (a : ival) (start_index : N) (limit : option N) : option (list ival * N) :=
  let can_push := match limit with Some lim => N.of_nat (length l) + 1 <? lim | None => true end in
  let si := N.to_nat start_index in
  let '(q', r) := rscan (skipn si l) start_index a usize_max 0 can_push in
  let l' := firstn si l ++ q' in
  match r with
  | RFound idx => Some (l', idx)
  | RDone rs re (Some p) =>
      if can_push then Some (firstn (N.to_nat rs) l' ++ p :: skipn (N.to_nat rs) l', rs) else None
  | RDone rs re None =>
      if re <? rs then Some (l', 0)
      else if re - rs =? 0 then Some (l', rs)
      else if re - rs =? 1 then Some (firstn (N.to_nat rs) l' ++ skipn (N.to_nat rs + 1) l', rs)
      else Some (firstn (N.to_nat rs) l' ++ skipn (N.to_nat re) l', rs)
  end.

(* ------------------------------ mod.rs ------------------------------ *)
Record iset := { limit : option N; intervals : list ival }.
Definition iset_new : iset := {| limit := None; intervals := [] |}.

(* Interval<T>: PartialOrd<T> *)
Definition cmp_ival_value (i : ival) (v : N) : comparison :=
  match fst i ?= v, snd i ?= v with
  | Eq, _ => Eq | _, Eq => Eq
  | Gt, Lt => Eq | Lt, Gt => Eq
  | Lt, Lt => Lt
  | Gt, Gt => Gt
  end.

(* the `while size > 1` loop of binary_search_with: inl mid = on_equal(mid) from inside the loop *)
Fixpoint bs_loop (fuel : nat) (l : list ival) (v : N) (size base : N) : N + N :=
  match fuel with
  | O => inr base
  | S f =>
      if size <=? 1 then inr base
      else
        let half := size / 2 in
        let mid := base + half in
        match cmp_ival_value (nth (N.to_nat mid) l (0, 0)) v with
        | Eq => inl mid
        | Gt => bs_loop f l v (size - half) base
        | Lt => bs_loop f l v (size - half) mid
        end
  end.

(* binary_search_with: (ordering at the final subject, index) ; size = 0 gives on_greater(0) *)
Definition binary_search (l : list ival) (v : N) : comparison * N :=
  let size := N.of_nat (length l) in
  if size =? 0 then (Gt, 0)
  else match bs_loop (length l) l v size 0 with
       | inl mid => (Eq, mid)
       | inr base => (cmp_ival_value (nth (N.to_nat base) l (0, 0)) v, base)
       end.

Definition contains (s : iset) (v : N) : bool :=
  match fst (binary_search (intervals s) v) with Eq => true | _ => false end.

Definition index_for (l : list ival) (a : ival) : N :=
  if N.of_nat (length l) <? iset_linear_threshold then 0 else snd (binary_search l (fst a)).

(* result codes: 0 Ok, 1 LimitExceeded, 2 InvalidInterval *)
Definition insert (s : iset) (a b : N) : iset * Z :=
  if b <? a then (s, 2%Z)
  else match intervals s with
       | [] => ({| limit := limit s; intervals := [(a, b)] |}, 0%Z)
       | _ => match insert_at (intervals s) (a, b) (index_for (intervals s) (a, b)) (limit s) with
              | Some (l', _) => ({| limit := limit s; intervals := l' |}, 0%Z)
              | None => (s, 1%Z)
              end
       end.

Definition insert_front (s : iset) (a b : N) : iset * Z :=
  if b <? a then (s, 2%Z)
  else match intervals s with
       | [] => ({| limit := limit s; intervals := [(a, b)] |}, 0%Z)
       | _ => match insert_at (intervals s) (a, b) 0 (limit s) with
              | Some (l', _) => ({| limit := limit s; intervals := l' |}, 0%Z)
              | None => (s, 1%Z)
              end
       end.

Definition remove (s : iset) (a b : N) : iset * Z :=
  if b <? a then (s, 2%Z)
  else match intervals s with
       | [] => (s, 0%Z)
       | _ => match remove_at (intervals s) (a, b) (index_for (intervals s) (a, b)) (limit s) with
              | Some (l', _) => ({| limit := limit s; intervals := l' |}, 0%Z)
              | None => (s, 1%Z)
              end
       end.

Definition pop_min (s : iset) : iset * option ival :=
  match intervals s with
  | [] => (s, None)
  | h :: t => ({| limit := limit s; intervals := t |}, Some h)
  end.

(* set_operation: apply `f` for every interval of other with the running index; an error stops the loop
   and leaves the intervals as modified so far *)
Fixpoint set_op_loop (f : list ival -> ival -> N -> option N -> option (list ival * N))
         (l : list ival) (others : list ival) (index : N) (lim : option N) : list ival * Z :=
  match others with
  | [] => (l, 0%Z)
  | o :: rest =>
      match f l o index lim with
      | Some (l', index') => set_op_loop f l' rest index' lim
      | None => (l, 1%Z)
      end
  end.

Definition set_operation f (s : iset) (other : list ival) : iset * Z :=
  match other with
  | [] => (s, 0%Z)
  | o :: _ =>
      let '(l', c) := set_op_loop f (intervals s) other (index_for (intervals s) o) (limit s) in
      ({| limit := limit s; intervals := l' |}, c)
  end.

Definition union (s : iset) (other : list ival) : iset * Z :=
  match intervals s with
  | [] => ({| limit := limit s; intervals := other |}, 0%Z)
  | _ => set_operation insert_at s other
  end.

Definition difference (s : iset) (other : list ival) : iset * Z :=
  match intervals s with
  | [] => (s, 0%Z)
  | _ => set_operation remove_at s other
  end.

(* ------------------------------------------------------------------------------------ *)
(* reference specification: a set of integers given by its maximal runs, manipulated by   *)
(* the textbook one-pass functions; their meaning as plain membership is proved           *)
(* (IntervalSetProofs: ref_ins_mem, ref_rem_mem)                                          *)
(* ------------------------------------------------------------------------------------ *)
Definition mem_ivals (x : N) (l : list ival) : bool := existsb (fun i => (fst i <=? x) && (x <=? snd i)) l.

Fixpoint ref_ins (a b : N) (l : list ival) : list ival :=
  match l with
  | [] => [(a, b)]
  | (c, d) :: t =>
      if b + 1 <? c then (a, b) :: (c, d) :: t
      else if d + 1 <? a then (c, d) :: ref_ins a b t
      else ref_ins (N.min a c) (N.max b d) t
  end.

Fixpoint ref_rem (a b : N) (l : list ival) : list ival :=
  match l with
  | [] => []
  | (c, d) :: t =>
      if d <? a then (c, d) :: ref_rem a b t
      else if b <? c then (c, d) :: t
      else (if c <? a then [(c, a - 1)] else []) ++ (if b <? d then [(b + 1, d)] else []) ++ ref_rem a b t
  end.

Definition ref_inter (l1 l2 : list ival) : list ival :=
  flat_map (fun i => flat_map (fun j =>
     let lo := N.max (fst i) (fst j) in let hi := N.min (snd i) (snd j) in
     if lo <=? hi then [(lo, hi)] else []) l2) l1.

Fixpoint ivals_eqb (a b : list ival) : bool :=
  match a, b with
  | [], [] => true
  | (x1, y1) :: a', (x2, y2) :: b' => (x1 =? x2) && (y1 =? y2) && ivals_eqb a' b'
  | _, _ => false
  end.

(* the documented limit behaviour: an insert that would add an interval to a set already holding
   `limit` intervals fails and leaves the set unchanged; a remove that would split an interval fails
   unless limit > len + 1 *)
Definition ref_insert (s : iset) (a b : N) : iset * Z :=
  if b <? a then (s, 2%Z)
  else
    let l := intervals s in
    let l' := ref_ins a b l in
    if (length l <? length l')%nat && negb (under_limit (limit s) (N.of_nat (length l))) && negb (length l =? 0)%nat
    then (s, 1%Z)
    else ({| limit := limit s; intervals := l' |}, 0%Z).

Definition ref_remove (s : iset) (a b : N) : iset * Z :=
  if b <? a then (s, 2%Z)
  else
    let l := intervals s in
    let l' := ref_rem a b l in
    let can_push := match limit s with Some lim => N.of_nat (length l) + 1 <? lim | None => true end in
    if (length l <? length l')%nat && negb can_push
    then (s, 1%Z)
    else ({| limit := limit s; intervals := l' |}, 0%Z).

Fixpoint ref_fold (f : iset -> N -> N -> iset * Z) (s : iset) (others : list ival) : iset * Z :=
  match others with
  | [] => (s, 0%Z)
  | (a, b) :: rest => let '(s', c) := f s a b in if (c =? 0)%Z then ref_fold f s' rest else (s', c)
  end.

Definition ref_union (s : iset) (other : list ival) : iset * Z :=
  match intervals s with
  | [] => ({| limit := limit s; intervals := other |}, 0%Z)
  | _ => ref_fold ref_insert s other
  end.
Definition ref_difference (s : iset) (other : list ival) : iset * Z := ref_fold ref_remove s other.
Definition ref_intersection (s : iset) (other : list ival) : iset * Z :=
  ({| limit := limit s; intervals := ref_inter (intervals s) other |}, 0%Z).

(* ------------------------------------------------------------------------------------ *)
(* harness protocol: triples [op; a; b]                                                   *)
(*  0 insert(a..=b)  1 remove(a..=b)  2 contains(a)  3 pop_min  4 insert_front(a..=b)      *)
(*  5 set_limit(a) / remove_limit when a = 0   6 B.insert(a..=b) (second, unlimited set)   *)
(*  7 a: 0 union(B), 1 difference(B), 2 intersection(B), other: B.clear()                  *)
(* output per op: result, then the dump of A: [interval_len; s0; e0; s1; e1; ...; min; max] *)
(* (min/max = -1 when empty)                                                              *)
(* ------------------------------------------------------------------------------------ *)
Record impl_ops := {
  o_insert : iset -> N -> N -> iset * Z;
  o_remove : iset -> N -> N -> iset * Z;
  o_contains : iset -> N -> bool;
  o_insert_front : iset -> N -> N -> iset * Z;
  o_union : iset -> list ival -> iset * Z;
  o_difference : iset -> list ival -> iset * Z;
  o_intersection : iset -> list ival -> iset * Z;
}.

Definition dump (s : iset) : list Z :=
  let l := intervals s in
  Z.of_nat (length l) :: flat_map (fun i => [Nz (fst i); Nz (snd i)]) l ++
  [match l with [] => (-1)%Z | h :: _ => Nz (fst h) end;
   match l with [] => (-1)%Z | _ => Nz (snd (last l (0, 0))) end].

Definition step (O : impl_ops) (sa sb : iset) (op : Z) (a b : N) : iset * iset * list Z :=
  if (op =? 0)%Z then let '(s', c) := o_insert O sa a b in (s', sb, [c])
  else if (op =? 1)%Z then let '(s', c) := o_remove O sa a b in (s', sb, [c])
  else if (op =? 2)%Z then (sa, sb, [bz (o_contains O sa a)])
  else if (op =? 3)%Z then
    match pop_min sa with
    | (s', Some h) => (s', sb, [1%Z; Nz (fst h); Nz (snd h)])
    | (s', None) => (s', sb, [0%Z])
    end
  else if (op =? 4)%Z then let '(s', c) := o_insert_front O sa a b in (s', sb, [c])
  else if (op =? 5)%Z then
    ({| limit := if a =? 0 then None else Some a; intervals := intervals sa |}, sb, [])
  else if (op =? 6)%Z then let '(s', c) := o_insert O sb a b in (sa, s', [c])
  else if (a =? 0) then let '(s', c) := o_union O sa (intervals sb) in (s', sb, [c])
  else if (a =? 1) then let '(s', c) := o_difference O sa (intervals sb) in (s', sb, [c])
  else if (a =? 2) then let '(s', c) := o_intersection O sa (intervals sb) in (s', sb, [c])
  else (sa, {| limit := limit sb; intervals := [] |}, []).

Fixpoint run_ops (O : impl_ops) (sa sb : iset) (c : list Z) : list Z :=
  match c with
  | op :: a :: b :: t =>
      let '(sa', sb', o) := step O sa sb op (zN a) (zN b) in
      o ++ dump sa' ++ run_ops O sa' sb' t
  | _ => []
  end.

(* the model: Rust control flow for insert / remove / contains / insert_front / union / difference;
   intersection::apply is NOT modelled at control-flow level (reference function used) *)
Definition model_ops : impl_ops := {|
  o_insert := insert; o_remove := remove; o_contains := contains; o_insert_front := insert_front;
  o_union := union; o_difference := difference; o_intersection := ref_intersection |}.

Definition ref_ops : impl_ops := {|
  o_insert := ref_insert; o_remove := ref_remove; o_contains := fun s v => mem_ivals v (intervals s);
  o_insert_front := ref_insert;
  o_union := ref_union; o_difference := ref_difference; o_intersection := ref_intersection |}.

End Elt.

Fixpoint zlist_eqb (a b : list Z) : bool :=
  match a, b with
  | [], [] => true
  | x :: a', y :: b' => (x =? y)%Z && zlist_eqb a' b'
  | _, _ => false
  end.

(* component "iset": IntervalSet<u64> *)
Definition run (c : list Z) : list Z := run_ops (model_ops u64_max) iset_new iset_new c.
Definition spec_run (c : list Z) : list Z := run_ops ref_ops iset_new iset_new c.
Definition judge (c out : list Z) : bool := zlist_eqb (spec_run c) out.
