(* C05 component "fit": the capacity helpers that decide, before encoding, how much payload a
   STREAM / CRYPTO frame may carry in [capacity] bytes (frame/stream.rs Stream::try_fit,
   frame/crypto.rs Crypto::try_fit).  Part 1 follows the Rust control flow (it is the model the
   implementation is compared with); part 2 is the property: what was announced to fit must fit,
   with sizes taken from the RFC reference codec (Frame.fsize). *)
From SQ Require Import lib.Base model.Varint model.Frame.
Import Varint Frame.
Local Open Scope N_scope.

(* ---------------------------------------------------------------- reference sizes (section 19.8 / 19.6) *)
Definition stream_fixed (id off : N) : N := 1 + vsz id + (if off =? 0 then 0 else vsz off).
Definition stream_size (id off len : N) (last : bool) : N :=
  stream_fixed id off + (if last then len else vsz len + len).
Definition crypto_fixed (off : N) : N := 1 + vsz off.
Definition crypto_size (off len : N) : N := crypto_fixed off + vsz len + len.

(* ---------------------------------------------------------------- try_fit, as written *)
(* Stream::try_fit: Some (payload length, is_last_frame) | None = FitError *)
Definition fit_stream (id off dlen cap : N) : option (N * bool) :=
  let fixed := stream_fixed id off in
  if cap <? fixed then None else
  let rem := cap - fixed in
  let m := N.min rem dlen in
  if m =? rem then Some (m, true) else
  if two62 <=? m then None else
  let lps := vsz m in
  if rem <? lps then None else Some (N.min (rem - lps) dlen, false).

(* Crypto::try_fit *)
Definition fit_crypto (off dlen cap : N) : option N :=
  let fixed := crypto_fixed off in
  if cap <? fixed then None else
  let rem := cap - fixed in
  let m := N.min rem dlen in
  if two62 <=? m then None else
  let lps := vsz m in
  if rem <? lps then None else Some (N.min (rem - lps) dlen).

(* ---------------------------------------------------------------- harness protocol *)
(* frames up to this size are also encoded into a real buffer by the harness *)
Definition materialize_limit : N := 100000.
Definition written (sz : N) : Z := if sz <=? materialize_limit then Nz sz else (-1)%Z.

(* case = kind (0 stream, 1 crypto) :: stream id :: offset :: data length :: fin :: capacity
   -> [1; payload length; is_last_frame; encoding_size(); bytes written or -1] | [0] (FitError) *)
Definition run (case : list Z) : list Z :=
  match case with
  | k :: id :: off :: dlen :: fin :: cap :: _ =>
      if (k =? 0)%Z then
        match fit_stream (zN id) (zN off) (zN dlen) (zN cap) with
        | None => [0%Z]
        | Some (len, last) =>
            let sz := stream_size (zN id) (zN off) len last in
            [1%Z; Nz len; bz last; Nz sz; written sz]
        end
      else
        match fit_crypto (zN off) (zN dlen) (zN cap) with
        | None => [0%Z]
        | Some len => let sz := crypto_size (zN off) len in [1%Z; Nz len; 0%Z; Nz sz; written sz]
        end
  | _ => [0%Z]
  end.

(* the property: an announced fit is honoured - the frame with the returned payload length
   encodes (reference size = announced encoding_size() = bytes written) to at most [capacity]
   bytes and carries no more than the data offered; FitError only when not even the frame
   without payload fits *)
Definition judge (case out : list Z) : bool :=
  match case with
  | k :: id :: off :: dlen :: fin :: cap :: _ =>
      let stream := (k =? 0)%Z in
      match out with
      | [0%Z] =>
          if stream then zN cap <? stream_fixed (zN id) (zN off)
          else zN cap <? crypto_fixed (zN off) + 1
      | [1%Z; len; last; sz; w] =>
          let l := zN len in
          let ref := if stream then stream_size (zN id) (zN off) l (last =? 1)%Z
                     else crypto_size (zN off) l in
          (0 <=? len)%Z && (l <=? zN dlen) && ((last =? 0)%Z || ((last =? 1)%Z && stream))
          && (sz =? Nz ref)%Z && (ref <=? zN cap) && ((w =? -1)%Z || (w =? sz)%Z)
      | _ => false
      end
  | _ => zlist_eqb out [0%Z]
  end.
