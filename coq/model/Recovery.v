(* Model of s2n-quic-transport/src/recovery/manager.rs: Manager::{on_packet_sent,
   on_transmit_burst_complete, update_pto_timer, on_ack_frame/process_acks/process_ack_range,
   update_congestion_control, process_new_acked_packets, detect_and_remove_lost_packets,
   detect_lost_packets, remove_lost_packets, on_timeout, on_packet_number_space_discarded},
   s2n-quic-core recovery/persistent_congestion.rs (Calculator), over a sorted association list for
   packet/number/map.rs, as driven by verif_hooks/recovery.rs: server, two validated paths (path 0
   active), a congestion controller that keeps the byte ledger only.
   Timestamps are microseconds, durations nanoseconds.  Executable definitions only. *)
From SQ Require Import lib.Base gen.Gen_C09 model.RecTime model.Rtt model.Loss model.Pto.
Local Open Scope N_scope.

Record pkt := { p_pn : N; p_bytes : N; p_time : N; p_ae : bool; p_path : N }.
Record cc := { c_sent : N; c_acked : N; c_lost : N; c_disc : N }.
Record pathst := { rt : rtt; fts : option N; ccs : cc }.

Record mgr := {
  m_space : N; m_client : bool; pv : bool;   (* pv: the active path is peer validated *)
  m_conf : bool;
  sentp : list pkt;              (* sent_packets, ascending packet numbers *)
  largest : option N;            (* largest_acked_packet *)
  loss_timer : option N;
  ptos : pto;
  last_ae : option N;            (* time_of_last_ack_eliciting_packet *)
  pend : bool;                   (* pto_update_pending *)
  pa : pathst; pb : pathst;      (* path 0 (active), path 1 *)
  backoff : N;                   (* active path's pto_backoff *)
  m_now : N; lastpn : option N;
  mp : bool                      (* driver: a burst may be open *)
}.

Definition set_path (m : mgr) (i : N) (p : pathst) : mgr :=
  {| m_space := m_space m; m_client := m_client m; pv := pv m; m_conf := m_conf m; sentp := sentp m; largest := largest m;
     loss_timer := loss_timer m; ptos := ptos m; last_ae := last_ae m; pend := pend m;
     pa := if i =? 0 then p else pa m; pb := if i =? 0 then pb m else p;
     backoff := backoff m; m_now := m_now m; lastpn := lastpn m; mp := mp m |}.
Definition get_path (m : mgr) (i : N) : pathst := if i =? 0 then pa m else pb m.

Definition upd_core (m : mgr) (sp : list pkt) (lg : option N) (lt : option N) (pt : pto) : mgr :=
  {| m_space := m_space m; m_client := m_client m; pv := pv m; m_conf := m_conf m; sentp := sp; largest := lg;
     loss_timer := lt; ptos := pt; last_ae := last_ae m; pend := pend m;
     pa := pa m; pb := pb m; backoff := backoff m; m_now := m_now m; lastpn := lastpn m; mp := mp m |}.

Definition cc_add (c : cc) (s a l d : N) : cc :=
  {| c_sent := c_sent c + s; c_acked := c_acked c + a; c_lost := c_lost c + l; c_disc := c_disc c + d |}.
Definition path_cc (p : pathst) (s a l d : N) : pathst :=
  {| rt := rt p; fts := fts p; ccs := cc_add (ccs p) s a l d |}.
Definition cc_path (m : mgr) (i s a l d : N) : mgr := set_path m i (path_cc (get_path m i) s a l d).

Definition bif (c : cc) : Z := (Nz (c_sent c) - Nz (c_acked c) - Nz (c_lost c) - Nz (c_disc c))%Z.

(* ---- update_pto_timer (jitter 0: pto_period_with_jitter = pto_period) ---- *)
Definition update_pto_timer (m : mgr) (now : N) : mgr :=
  let pt :=
    if match loss_timer m with Some _ => true | None => false end then cancel (ptos m)
    else if (m_space m =? 2) && negb (m_conf m) then cancel (ptos m)
    else
      let ae_in_flight := existsb p_ae (sentp m) in
      if negb ae_in_flight && pv m then cancel (ptos m)
      else
        let base := if ae_in_flight then match last_ae m with Some t => t | None => now end else now in
        update (ptos m) base (pto_period (rt (pa m)) (backoff m) (m_space m)) in
  {| m_space := m_space m; m_client := m_client m; pv := pv m; m_conf := m_conf m; sentp := sentp m; largest := largest m;
     loss_timer := loss_timer m; ptos := pt; last_ae := last_ae m; pend := false;
     pa := pa m; pb := pb m; backoff := backoff m; m_now := m_now m; lastpn := lastpn m; mp := mp m |}.

(* ---- on_packet_sent ---- *)
Definition on_packet_sent (m : mgr) (pn bytes : N) (ae : bool) (time path : N) : mgr :=
  let m1 := cc_path m path bytes 0 0 0 in
  {| m_space := m_space m1; m_client := m_client m1; pv := pv m1; m_conf := m_conf m1;
     sentp := sentp m1 ++ [{| p_pn := pn; p_bytes := bytes; p_time := time; p_ae := ae; p_path := path |}];
     largest := largest m1; loss_timer := loss_timer m1; ptos := ptos m1;
     last_ae := if ae then Some time else last_ae m1; pend := if ae then true else pend m1;
     pa := pa m1; pb := pb m1; backoff := backoff m1; m_now := m_now m1; lastpn := Some pn;
     mp := if ae then true else mp m1 |}.

Definition burst_complete (m : mgr) (now : N) : mgr :=
  let m1 := if pend m then update_pto_timer m now else m in
  {| m_space := m_space m1; m_client := m_client m1; pv := pv m1; m_conf := m_conf m1; sentp := sentp m1; largest := largest m1;
     loss_timer := loss_timer m1; ptos := ptos m1; last_ae := last_ae m1; pend := pend m1;
     pa := pa m1; pb := pb m1; backoff := backoff m1; m_now := m_now m1; lastpn := lastpn m1; mp := false |}.

(* ---- persistent_congestion::Calculator ---- *)
Record pcalc := { cur : option (N * N * N); maxd : N }.   (* (start, end, prev_packet) *)

Definition pc_on_lost (c : pcalc) (first_sample : option N) (cpath : N) (p : pkt) : pcalc :=
  match first_sample with
  | None => c
  | Some ts =>
    if p_time p <? ts then c else
    if negb (p_path p =? cpath) then c else
    let c1 :=
      match cur c with
      | Some (st, en, prev) =>
          if p_pn p =? prev + 1 then
            let en' := if p_ae p then p_time p else en in
            {| cur := Some (st, en', p_pn p); maxd := N.max (maxd c) (ts_sub en' st) |}
          else {| cur := None; maxd := maxd c |}
      | None => c
      end in
    match cur c1 with
    | None => if p_ae p then {| cur := Some (p_time p, p_time p, p_pn p); maxd := maxd c1 |} else c1
    | Some _ => c1
    end
  end.

(* ---- detect_lost_packets: walk sent_packets upwards until the first packet not yet lost ---- *)
(* result: lost packets (ascending), calculator, loss timer to arm *)
Fixpoint detect_walk (m : mgr) (lg now cpath : N) (l : list pkt) (c : pcalc)
  : list pkt * pcalc * option N :=
  match l with
  | [] => ([], c, None)
  | p :: t =>
      if lg <? p_pn p then ([], c, None) else
      let thr := loss_time_threshold (rt (get_path m (p_path p))) in
      match detect thr (p_time p) k_packet_threshold (p_pn p) lg now with
      | Lost =>
          let c' := pc_on_lost c (fts (get_path m cpath)) cpath p in
          let '(ls, c'', lt) := detect_walk m lg now cpath t c' in
          (p :: ls, c'', lt)
      | NotLostYet lt => ([], c, Some lt)
      end
  end.

(* remove_lost_packets: ledger and persistent congestion per lost packet *)
Fixpoint remove_lost (m : mgr) (pcd cpath : N) (ls : list pkt) : mgr :=
  match ls with
  | [] => m
  | p :: t =>
      let path := get_path m (p_path p) in
      let persistent := (persistent_congestion_threshold (rt path) <? pcd) && (p_path p =? cpath) in
      let path1 := path_cc path 0 0 (p_bytes p) 0 in
      let path2 := if persistent
                   then {| rt := on_persistent_congestion (rt path1); fts := None; ccs := ccs path1 |}
                   else path1 in
      remove_lost (set_path m (p_path p) path2) pcd cpath t
  end.

Definition in_list (pn : N) (ls : list pkt) : bool := existsb (fun q => p_pn q =? pn) ls.

(* detect_and_remove_lost_packets; returns the lost packet numbers too *)
Definition detect_and_remove (m : mgr) (now cpath : N) : mgr * list N :=
  match largest m with
  | None => (m, [])            (* unreachable: `expect` in the source *)
  | Some lg =>
      let '(ls, c, lt) := detect_walk m lg now cpath (sentp m) {| cur := None; maxd := 0 |} in
      let pt := match lt with Some _ => cancel (ptos m) | None => ptos m end in
      let m1 := upd_core m (filter (fun q => negb (in_list (p_pn q) ls)) (sentp m)) (largest m) lt pt in
      (remove_lost m1 (maxd c) cpath ls, map p_pn ls)
  end.

(* ---- on_ack_frame ---- *)
Definition in_range (r : N * N) (p : pkt) : bool := (fst r <=? p_pn p) && (p_pn p <=? snd r).

(* process_ack_range: ranges in frame order; newly acked packets in removal order, hulls *)
Fixpoint ack_ranges (sp : list pkt) (rs : list (N * N)) : list pkt * list pkt * list (N * N) :=
  match rs with
  | [] => (sp, [], [])
  | r :: t =>
      let acked := filter (in_range r) sp in
      let sp1 := filter (fun p => negb (in_range r p)) sp in
      let '(sp2, acked2, hulls2) := ack_ranges sp1 t in
      (sp2, acked ++ acked2,
       match acked with
       | [] => hulls2
       | a :: _ => (p_pn a, p_pn (last acked a)) :: hulls2
       end)
  end.

(* the newly acked packet with the largest number (first maximum in collection order) *)
Fixpoint largest_newly (l : list pkt) (best : option pkt) : option pkt :=
  match l with
  | [] => best
  | p :: t => largest_newly t (match best with
                               | Some b => if p_pn b <? p_pn p then Some p else Some b
                               | None => Some p end)
  end.

Definition sum_bytes_on (l : list pkt) (path : N) : N :=
  fold_right (fun p acc => if p_path p =? path then p_bytes p + acc else acc) 0 l.

Definition on_ack_frame (m : mgr) (now : N) (rs : list (N * N)) (lgf ack_delay rxpath : N) : mgr * list N * list (N * N) :=
  let '(sp, acked, hulls) := ack_ranges (sentp m) rs in
  let lg' := match largest m with Some c => if lgf <? c then Some c else Some lgf | None => Some lgf end in
  let m1 := upd_core m sp lg' (loss_timer m) (ptos m) in
  match largest_newly acked None with
  | None => (m1, [], hulls)
  | Some ln =>
      (* update_congestion_control *)
      let should := (rxpath =? p_path ln) && (p_pn ln =? lgf) && existsb p_ae acked in
      let m2 :=
        if should then
          let path := get_path m1 (p_path ln) in
          set_path m1 (p_path ln)
            {| rt := update_rtt (rt path) ack_delay (ts_sub now (p_time ln)) (m_conf m1) (m_space m1);
               fts := match fts path with Some t => Some t | None => Some now end;
               ccs := ccs path |}
        else m1 in
      (* process_new_acked_packets *)
      let '(m3, lost) := detect_and_remove m2 now rxpath in
      let other := 1 - rxpath in
      let m4 := cc_path m3 other 0 (sum_bytes_on acked other) 0 0 in
      let reset := existsb (fun p => p_path p =? 0) acked in
      let m5 :=
        {| m_space := m_space m4; m_client := m_client m4; pv := pv m4; m_conf := m_conf m4; sentp := sentp m4; largest := largest m4;
           loss_timer := loss_timer m4; ptos := ptos m4; last_ae := last_ae m4; pend := pend m4;
           pa := pa m4; pb := pb m4; backoff := if reset && pv m4 then initial_pto_backoff else backoff m4;
           m_now := m_now m4; lastpn := lastpn m4; mp := mp m4 |} in
      let m6 := update_pto_timer m5 now in
      let m7 := cc_path m6 rxpath 0 (sum_bytes_on acked rxpath) 0 0 in
      (m7, lost, hulls)
  end.

(* ---- on_timeout ---- *)
Definition set_backoff (m : mgr) (b : N) (pt : pto) : mgr :=
  {| m_space := m_space m; m_client := m_client m; pv := pv m; m_conf := m_conf m; sentp := sentp m; largest := largest m;
     loss_timer := loss_timer m; ptos := pt; last_ae := last_ae m; pend := pend m;
     pa := pa m; pb := pb m; backoff := b; m_now := m_now m; lastpn := lastpn m; mp := mp m |}.

Definition on_timeout (m : mgr) (now maxb : N) : mgr * list N :=
  match loss_timer m with
  | Some lt =>
      if has_elapsed lt now then
        let m0 := upd_core m (sentp m) (largest m) None (ptos m) in
        let '(m1, lost) := detect_and_remove m0 now 0 in
        (update_pto_timer m1 now, lost)
      else (m, [])
  | None =>
      let '(pt, ready) := Pto.on_timeout (ptos m) (match sentp m with [] => false | _ => true end) now in
      if ready then (update_pto_timer (set_backoff m (backoff_next (backoff m) maxb) pt) now, [])
      else (set_backoff m (backoff m) pt, [])
  end.

Definition discard (m : mgr) : mgr :=
  cc_path m 0 0 0 0 (fold_right (fun p acc => p_bytes p + acc) 0 (sentp m)).

(* ---- what the manager hands to the congestion controller, call by call ----
   kind 1 on_packet_sent (a = time_sent, b = bytes, c = app_limited: 0 None)
        2 on_ack (a = send time of the newest acknowledged packet, b = bytes, c = ack receive time,
                  d = the path's estimator has a first RTT sample)
        3 on_packet_lost (a = lost bytes, b = persistent_congestion, c = new_loss_burst, d = timestamp)
        4 on_packet_discarded (a = bytes)
        5 Context::on_packet_ack (path = the path the ACK arrived on, a = range start, b = range end,
          c = timestamp): what the manager reports to the ACK manager / streams as acknowledged *)
Record call := { k_kind : N; k_path : N; k_a : N; k_b : N; k_c : N; k_d : N }.
Definition nb (b : bool) : N := if b then 1 else 0.

(* remove_lost_packets: one on_packet_lost per lost packet that carries bytes; the timestamp is the
   detection time; a loss burst starts at the first lost packet and after every packet number gap *)
Fixpoint lost_calls (m : mgr) (pcd cpath now : N) (prev : option N) (ls : list pkt) : list call :=
  match ls with
  | [] => []
  | p :: t =>
      let persistent := (persistent_congestion_threshold (rt (get_path m (p_path p))) <? pcd) && (p_path p =? cpath) in
      let burst := match prev with None => true | Some q => negb (p_pn p =? q + 1) end in
      (if 0 <? p_bytes p
       then [{| k_kind := 3; k_path := p_path p; k_a := p_bytes p; k_b := nb persistent; k_c := nb burst; k_d := now |}]
       else [])
      ++ lost_calls m pcd cpath now (Some (p_pn p)) t
  end.

Definition detect_calls (m : mgr) (now cpath : N) : list call :=
  match largest m with
  | None => []
  | Some lg =>
      let '(ls, c, _) := detect_walk m lg now cpath (sentp m) {| cur := None; maxd := 0 |} in
      lost_calls m (maxd c) cpath now None ls
  end.

(* the state on which on_ack_frame runs loss detection (see on_ack_frame) *)
Definition ack_pre_state (m : mgr) (now : N) (rs : list (N * N)) (lgf ack_delay rxpath : N) : option (mgr * list pkt) :=
  let '(sp, acked, hulls) := ack_ranges (sentp m) rs in
  let lg' := match largest m with Some c => if lgf <? c then Some c else Some lgf | None => Some lgf end in
  let m1 := upd_core m sp lg' (loss_timer m) (ptos m) in
  match largest_newly acked None with
  | None => None
  | Some ln =>
      let should := (rxpath =? p_path ln) && (p_pn ln =? lgf) && existsb p_ae acked in
      Some (if should then
              let path := get_path m1 (p_path ln) in
              set_path m1 (p_path ln)
                {| rt := update_rtt (rt path) ack_delay (ts_sub now (p_time ln)) (m_conf m1) (m_space m1);
                   fts := match fts path with Some t => Some t | None => Some now end;
                   ccs := ccs path |}
            else m1, acked)
  end.

Definition ack_calls (m : mgr) (now : N) (rs : list (N * N)) (lgf ack_delay rxpath : N) : list call :=
  match ack_pre_state m now rs lgf ack_delay rxpath with
  | None => []
  | Some (m2, acked) =>
      let mf := fst (fst (on_ack_frame m now rs lgf ack_delay rxpath)) in
      let other := filter (fun p => negb (p_path p =? rxpath) && (0 <? p_bytes p)) acked in
      let mine := filter (fun p => p_path p =? rxpath) acked in
      detect_calls m2 now rxpath
      ++ map (fun p => {| k_kind := 2; k_path := p_path p; k_a := p_time p; k_b := p_bytes p; k_c := now;
                          k_d := nb (first (rt (get_path mf (p_path p)))) |}) other
      ++ match largest_newly mine None with
         | Some ln => if 0 <? sum_bytes_on acked rxpath
                      then [{| k_kind := 2; k_path := rxpath; k_a := p_time ln; k_b := sum_bytes_on acked rxpath; k_c := now;
                               k_d := nb (first (rt (get_path mf rxpath))) |}]
                      else []
         | None => []
         end
  end.

(* process_ack_range notifies the Context of every range of the frame, as received, before anything else *)
Definition range_calls (rs : list (N * N)) (now rxpath : N) : list call :=
  map (fun r => {| k_kind := 5; k_path := rxpath; k_a := fst r; k_b := snd r; k_c := now; k_d := 0 |}) rs.

Definition timeout_calls (m : mgr) (now : N) : list call :=
  match loss_timer m with
  | Some lt => if has_elapsed lt now then detect_calls (upd_core m (sentp m) (largest m) None (ptos m)) now 0 else []
  | None => []
  end.

Definition total_bytes (l : list pkt) : N := fold_right (fun p acc => p_bytes p + acc) 0 l.

(* Initial/Handshake spaces and the client use one path only (the driver enforces it) *)
Definition single (m : mgr) : bool := m_client m || negb (m_space m =? 2).

(* on_retry_packet (client): every sent packet leaves flight through on_packet_discarded on path 0 and
   the manager is replaced by a new one; paths (RTT, backoff) are untouched *)
Definition retry (m : mgr) : mgr :=
  let m1 := cc_path m 0 0 0 0 (fold_right (fun p acc => p_bytes p + acc) 0 (sentp m)) in
  {| m_space := m_space m1; m_client := m_client m1; pv := pv m1; m_conf := m_conf m1; sentp := []; largest := None;
     loss_timer := None; ptos := pto_init; last_ae := None; pend := false;
     pa := pa m1; pb := pb m1; backoff := backoff m1; m_now := m_now m1; lastpn := lastpn m1; mp := mp m1 |}.

Definition peer_validated (m : mgr) : mgr :=
  {| m_space := m_space m; m_client := m_client m; pv := true; m_conf := m_conf m; sentp := sentp m; largest := largest m;
     loss_timer := loss_timer m; ptos := ptos m; last_ae := last_ae m; pend := pend m;
     pa := pa m; pb := pb m; backoff := backoff m; m_now := m_now m; lastpn := lastpn m; mp := mp m |}.

(* ---- harness protocol (see verif_hooks/recovery.rs) ---- *)
Definition set_now (m : mgr) (now : N) : mgr :=
  {| m_space := m_space m; m_client := m_client m; pv := pv m; m_conf := m_conf m; sentp := sentp m; largest := largest m;
     loss_timer := loss_timer m; ptos := ptos m; last_ae := last_ae m; pend := pend m;
     pa := pa m; pb := pb m; backoff := backoff m; m_now := now; lastpn := lastpn m; mp := mp m |}.

Definition mk_ranges (lgf len1 gap2 len2 : N) : list (N * N) :=
  let s1 := lgf - len1 in
  (s1, lgf) :: (if (0 <? len2) && (2 + gap2 <=? s1)
                then let e2 := s1 - 2 - gap2 in [(e2 - (len2 - 1), e2)] else []).

Definition minit (space : N) (conf client : bool) (mad_ms start : N) : mgr :=
  let r := on_max_ack_delay (rtt_new 0 default_initial_rtt_ns) mad_ms in
  let p := {| rt := r; fts := None; ccs := {| c_sent := 0; c_acked := 0; c_lost := 0; c_disc := 0 |} |} in
  {| m_space := if space =? 0 then 0 else if space =? 1 then 1 else 2; m_client := client; pv := negb client; m_conf := conf; sentp := []; largest := None; loss_timer := None;
     ptos := pto_init; last_ae := None; pend := false; pa := p; pb := p;
     backoff := initial_pto_backoff; m_now := N.max start 1; lastpn := None; mp := false |}.

(* one op: new state, result code, lost packet numbers, hulls, stop? *)
Definition mstep (m : mgr) (c a b d e f g : Z) : mgr * Z * list N * list (N * N) * bool :=
  if (c =? 1)%Z then
    let now := m_now m + zN e in
    let pn := match lastpn m with None => zN a - 1 | Some l => l + N.max (zN a) 1 end in
    (on_packet_sent (set_now m now) pn (zN b) (negb (d =? 0)%Z) now (if single m || (f =? 0)%Z then 0 else 1), 0%Z, [], [], false)
  else if (c =? 2)%Z then
    let now := m_now m + zN a in
    (burst_complete (set_now m now) now, 0%Z, [], [], false)
  else if ((c =? 3) || (c =? 4))%Z then
    let now := m_now m + zN a in
    let m0 := set_now m now in
    let m0 := if mp m0 then burst_complete m0 now else m0 in
    let ok := match lastpn m with Some l => zN b <=? l | None => false end in
    if ok then
      let '(m1, lost, hulls) := on_ack_frame m0 now (mk_ranges (zN b) (zN d) (zN e) (zN f)) (zN b) (zN g * 1000)
                                 (if (c =? 4)%Z && negb (single m) then 1 else 0) in
      (m1, 0%Z, lost, hulls, false)
    else (m0, 3%Z, [], [], false)
  else if (c =? 5)%Z then
    let now := m_now m + zN a in
    let m0 := set_now m now in
    let m1 := if mp m0 then burst_complete m0 now else m0 in
    match backoff_cap (backoff m1) with
    | Some maxb => let '(m2, lost) := on_timeout m1 now maxb in (m2, 0%Z, lost, [], false)
    | None => (m1, 2%Z, [], [], false)
    end
  else if (c =? 6)%Z then
    if m_space m =? 2 then (m, 0%Z, [], [], false)
    else (discard (if mp m then burst_complete m (m_now m) else m), 0%Z, [], [], true)
  else if (c =? 7)%Z then
    if m_client m then (retry (if mp m then burst_complete m (m_now m) else m), 0%Z, [], [], false)
    else (m, 0%Z, [], [], false)
  else if (c =? 8)%Z then (peer_validated m, 0%Z, [], [], false)
  else (m, 0%Z, [], [], false).

(* the controller calls of one op (computed from the state before the op) *)
Definition mcalls (m : mgr) (c a b d e f g : Z) : list call :=
  if (c =? 1)%Z then
    [{| k_kind := 1; k_path := if single m || (f =? 0)%Z then 0 else 1; k_a := m_now m + zN e; k_b := zN b; k_c := 0; k_d := 0 |}]
  else if (c =? 2)%Z then []
  else if ((c =? 3) || (c =? 4))%Z then
    let now := m_now m + zN a in
    let m0 := set_now m now in
    let m0 := if mp m0 then burst_complete m0 now else m0 in
    if match lastpn m with Some l => zN b <=? l | None => false end
    then range_calls (mk_ranges (zN b) (zN d) (zN e) (zN f)) now (if (c =? 4)%Z && negb (single m) then 1 else 0)
         ++ ack_calls m0 now (mk_ranges (zN b) (zN d) (zN e) (zN f)) (zN b) (zN g * 1000) (if (c =? 4)%Z && negb (single m) then 1 else 0)
    else []
  else if (c =? 5)%Z then
    let now := m_now m + zN a in
    let m0 := set_now m now in
    let m1 := if mp m0 then burst_complete m0 now else m0 in
    match backoff_cap (backoff m1) with Some _ => timeout_calls m1 now | None => [] end
  else if (c =? 6)%Z then
    if m_space m =? 2 then [] else [{| k_kind := 4; k_path := 0; k_a := total_bytes (sentp m); k_b := 0; k_c := 0; k_d := 0 |}]
  else if (c =? 7)%Z then
    if m_client m then [{| k_kind := 4; k_path := 0; k_a := total_bytes (sentp m); k_b := 0; k_c := 0; k_d := 0 |}] else []
  else [].

Definition call_z (k : call) : list Z := [Nz (k_kind k); Nz (k_path k); Nz (k_a k); Nz (k_b k); Nz (k_c k); Nz (k_d k)].
Definition calls_z (l : list call) : list Z := flat_map call_z l.

Definition hull_z (l : list (N * N)) : list Z := flat_map (fun h => [Nz (fst h); Nz (snd h)]) l.

Definition cc_z (c : cc) : list Z := [Nz (c_sent c); Nz (c_acked c); Nz (c_lost c); Nz (c_disc c)].
Definition rtt_z (p : pathst) : list Z :=
  [Nz (smoothed (rt p)); Nz (latest (rt p)); Nz (minr (rt p)); bz (first (rt p))].

Definition next_exp (m : mgr) : option N :=
  match loss_timer m with Some t => Some t | None => timer (ptos m) end.

(* insertion sort of hulls by (start, end), as the driver sorts them *)
Fixpoint ins_h (h : N * N) (l : list (N * N)) : list (N * N) :=
  match l with
  | [] => [h]
  | x :: t => if (fst h <? fst x) || ((fst h =? fst x) && (snd h <=? snd x)) then h :: l else x :: ins_h h t
  end.
Definition sort_h (l : list (N * N)) : list (N * N) := fold_right ins_h [] l.

Definition mobs (m : mgr) (code : Z) (lost : list N) (hulls : list (N * N)) (calls : list call) : list Z :=
  [code; Z.of_nat (length lost)] ++ map Nz lost ++ [Z.of_nat (length hulls)] ++ hull_z (sort_h hulls)
  ++ [Z.of_nat (length calls)] ++ calls_z calls
  ++ cc_z (ccs (pa m)) ++ cc_z (ccs (pb m))
  ++ [match next_exp m with Some _ => 1%Z | None => 0%Z end; match next_exp m with Some t => Nz t | None => 0%Z end;
      Nz (backoff m); bz (0 <? transmissions (ptos m))]
  ++ rtt_z (pa m) ++ rtt_z (pb m).

Fixpoint run_ops (m : mgr) (l : list Z) : list Z :=
  match l with
  | c :: a :: b :: d :: e :: f :: g :: _ :: t =>
      let '(m', code, lost, hulls, stop) := mstep m c a b d e f g in
      mobs m' code lost hulls (mcalls m c a b d e f g) ++ (if stop then [] else run_ops m' t)
  | _ => []
  end.

Definition run (case : list Z) : list Z :=
  match case with
  | sp :: cf :: mad :: st :: ops => run_ops (minit (zN sp) (N.odd (zN cf)) (N.odd (zN cf / 2)) (zN mad) (zN st)) ops
  | _ => []
  end.

(* ---- the property as an executable judgement on an implementation's output ----
   From the ops alone the judge keeps its own ledger: the packets sent and not yet resolved, the
   largest packet number any accepted ACK frame acknowledged, the clock.  Resolutions are taken from
   the implementation's callbacks: ACK ranges resolve what they cover, loss callbacks resolve what
   they name, a discard resolves everything.  It demands, after every op:
   - every packet reported lost is unresolved (so: sent, not acknowledged, not reported before, and not
     twice in one report), a larger packet number has been acknowledged, and it is at least 3 below
     the largest acknowledged or at least max(9/8 max(smoothed, latest) of its path, 1 ms) old (whole
     microseconds); in particular a timeout reports no loss unless that rule holds (a PTO expiry
     alone never does);
   - the newly-acknowledged hulls are exactly those of the unresolved packets inside each ACK range;
   - per path: bytes sent / acknowledged / lost / discarded move by exactly the sizes of the packets
     sent / newly acknowledged / reported lost / discarded, hence
     bytes in flight = sent - acked - lost - discarded = total size of the unresolved packets;
   - the PTO backoff only doubles on a timeout, only resets to 1 on an ACK, and is never 0;
   - a space discard (Initial/Handshake) and a Retry (client) take exactly the unresolved bytes out of
     flight and resolve every packet;
   - every congestion-controller call carries the op's time where the API means "now": on_packet_lost the
     detection time (RFC 9002 7.3.2: the recovery period starts when loss is detected), with positive bytes;
     on_packet_sent the send time; on_ack the receive time;
   - every range reported to the Context as acknowledged (on_packet_ack) lies inside one range of the ACK
     frame being processed and carries the op's time; no such report outside an accepted ACK frame. *)
Record jm := {
  j_un : list pkt;            (* unresolved packets, ascending *)
  j_lg : option N;
  j_now : N; j_last : option N;
  j_cc0 : cc; j_cc1 : cc;
  j_bo : N
}.

Definition jinit (start : N) : jm :=
  {| j_un := []; j_lg := None; j_now := N.max start 1; j_last := None;
     j_cc0 := {| c_sent := 0; c_acked := 0; c_lost := 0; c_disc := 0 |};
     j_cc1 := {| c_sent := 0; c_acked := 0; c_lost := 0; c_disc := 0 |}; j_bo := 1 |}.

Definition znth (l : list Z) (i : nat) : Z := nth i l 0%Z.

Fixpoint pairs (l : list Z) : list (N * N) :=
  match l with a :: b :: t => (zN a, zN b) :: pairs t | _ => [] end.

(* split one op's output: (code, lost, hulls, rest of 20, remaining output) *)
Definition parse_obs (o : list Z) : option (Z * list N * list (N * N) * list Z * list Z * list Z) :=
  match o with
  | code :: nl :: o1 =>
      if (nl <? 0)%Z then None else
      let n := Z.to_nat nl in
      let lost := map zN (firstn n o1) in
      match skipn n o1 with
      | nh :: o2 =>
          if (nh <? 0)%Z then None else
          let h := Z.to_nat nh in
          let hz := firstn (2 * h) o2 in
          match skipn (2 * h) o2 with
          | nc :: o4 =>
              if (nc <? 0)%Z then None else
              let k := Z.to_nat nc in
              let cz := firstn (6 * k) o4 in
              let o5 := skipn (6 * k) o4 in
              if negb (Nat.eqb (length (firstn n o1)) n && Nat.eqb (length hz) (2 * h) && Nat.eqb (length cz) (6 * k)
                       && Nat.leb 20 (length o5)) then None else
              Some (code, lost, pairs hz, cz, firstn 20 o5, skipn 20 o5)
          | [] => None
          end
      | [] => None
      end
  | _ => None
  end.

(* the controller calls of an op, checked against the op's time (RFC 9002 7.3.2 / 7.6: the recovery
   period starts when the loss is detected, so on_packet_lost must carry the detection time; a sent
   packet is reported with its send time; an ACK with the time it was received) *)
Definition in_some_range (rs : list (N * N)) (s e : N) : bool :=
  (s <=? e) && existsb (fun r => (fst r <=? s) && (e <=? snd r)) rs.

(* [rs]: the ranges of the ACK frame this op delivers ([] for any other op): a range reported to the
   Context as acknowledged must lie inside one range of the frame -- the frame's ranges are separated by
   at least one unacknowledged packet number, so this says: no packet number of a gap is ever reported *)
Fixpoint calls_ok (now : N) (rs : list (N * N)) (l : list Z) : bool :=
  match l with
  | [] => true
  | k :: _ :: a :: b :: c :: d :: t =>
      (if (k =? 1)%Z then zN a =? now
       else if (k =? 2)%Z then zN c =? now
       else if (k =? 3)%Z then (zN d =? now) && (0 <? zN a)
       else if (k =? 5)%Z then (zN c =? now) && in_some_range rs (zN a) (zN b)
       else true) && calls_ok now rs t
  | _ => false
  end.

(* the ranges of the frame an op delivers (accepted ACK frames only) *)
Definition op_ranges (last : option N) (c b d e f : Z) : list (N * N) :=
  if ((c =? 3) || (c =? 4))%Z
  then if match last with Some l => zN b <=? l | None => false end then mk_ranges (zN b) (zN d) (zN e) (zN f) else []
  else [].

(* the time of an op: the clock advanced by the op's delta *)
Definition op_now (t0 : N) (c a e : Z) : N :=
  if (c =? 1)%Z then t0 + zN e
  else if ((c =? 2) || ((c =? 3) || (c =? 4)) || (c =? 5))%Z then t0 + zN a
  else t0.

Definition cc_of (l : list Z) (i : nat) : cc :=
  {| c_sent := zN (znth l i); c_acked := zN (znth l (i + 1)); c_lost := zN (znth l (i + 2)); c_disc := zN (znth l (i + 3)) |}.
Definition cc_eqb (a b : cc) : bool :=
  (c_sent a =? c_sent b) && (c_acked a =? c_acked b) && (c_lost a =? c_lost b) && (c_disc a =? c_disc b).

Definition find_pkt (pn : N) (l : list pkt) : option pkt := find (fun q => p_pn q =? pn) l.
Definition remove_pn (pn : N) (l : list pkt) : list pkt := filter (fun q => negb (p_pn q =? pn)) l.

(* the RFC 9002 6.1 rule for one reported loss; thresholds from the reported RTT of the packet's path *)
Definition lost_ok (tol : bool) (lg : option N) (now : N) (rest : list Z) (p : pkt) : bool :=
  match lg with
  | None => false
  | Some l =>
      let sm := zN (znth rest (if p_path p =? 0 then 12 else 16)) in
      let la := zN (znth rest (if p_path p =? 0 then 13 else 17)) in
      let thr := rfc_threshold sm la in
      (p_pn p <? l) && ((3 <=? l - p_pn p)
                        || (if tol then p_time p + thr / 1000 <? now + 1000 else p_time p + thr / 1000 <=? now))
  end.

(* resolve the reported losses one by one: each must be unresolved and satisfy the rule *)
Fixpoint judge_lost (tol : bool) (un : list pkt) (lg : option N) (now : N) (rest : list Z) (lost : list N) (l0 l1 : N)
  : option (list pkt * N * N) :=
  match lost with
  | [] => Some (un, l0, l1)
  | pn :: t =>
      match find_pkt pn un with
      | None => None
      | Some p =>
          if lost_ok tol lg now rest p
          then judge_lost tol (remove_pn pn un) lg now rest t
                 (if p_path p =? 0 then l0 + p_bytes p else l0) (if p_path p =? 0 then l1 else l1 + p_bytes p)
          else None
      end
  end.

Fixpoint hulls_eqb (a b : list (N * N)) : bool :=
  match a, b with
  | [], [] => true
  | x :: s, y :: t => (fst x =? fst y) && (snd x =? snd y) && hulls_eqb s t
  | _, _ => false
  end.

Definition all_nonneg (l : list Z) : bool := forallb (fun z => (0 <=? z)%Z) l.

Definition jstep_m (tol : bool) (app client : bool) (j : jm) (c a b d e f g : Z) (o : list Z) : option (jm * list Z * bool) :=
  match parse_obs o with
  | None => None
  | Some (code, lost, hulls, calls, rest, remaining) =>
    if negb (all_nonneg (firstn (length o - length remaining) o)) then None else
    if negb (calls_ok (op_now (j_now j) c a e) (op_ranges (j_last j) c b d e f) calls) then None else
    let cc0 := cc_of rest 0 in let cc1 := cc_of rest 4 in
    let bo := zN (znth rest 10) in
    let bif_ok (un : list pkt) :=
      (bif cc0 =? Nz (sum_bytes_on un 0))%Z && (bif cc1 =? Nz (sum_bytes_on un 1))%Z in
    if (c =? 1)%Z then
      let now := j_now j + zN e in
      let pn := match j_last j with None => zN a - 1 | Some l => l + N.max (zN a) 1 end in
      let path := if (client || negb app) || (f =? 0)%Z then 0 else 1 in
      let p := {| p_pn := pn; p_bytes := zN b; p_time := now; p_ae := negb (d =? 0)%Z; p_path := path |} in
      let un := j_un j ++ [p] in
      let e0 := cc_add (j_cc0 j) (if path =? 0 then zN b else 0) 0 0 0 in
      let e1 := cc_add (j_cc1 j) (if path =? 0 then 0 else zN b) 0 0 0 in
      if (code =? 0)%Z && match lost with [] => true | _ => false end && match hulls with [] => true | _ => false end
         && cc_eqb cc0 e0 && cc_eqb cc1 e1 && bif_ok un && (bo =? j_bo j)
      then Some ({| j_un := un; j_lg := j_lg j; j_now := now; j_last := Some pn; j_cc0 := e0; j_cc1 := e1; j_bo := bo |}, remaining, false)
      else None
    else if ((c =? 3) || (c =? 4))%Z then
      let now := j_now j + zN a in
      let ok := match j_last j with Some l => zN b <=? l | None => false end in
      if negb ok then
        if (code =? 3)%Z && match lost with [] => true | _ => false end && match hulls with [] => true | _ => false end
           && cc_eqb cc0 (j_cc0 j) && cc_eqb cc1 (j_cc1 j) && (bo =? j_bo j)
        then Some ({| j_un := j_un j; j_lg := j_lg j; j_now := now; j_last := j_last j; j_cc0 := cc0; j_cc1 := cc1; j_bo := bo |}, remaining, false)
        else None
      else
        let '(un1, acked, ehulls) := ack_ranges (j_un j) (mk_ranges (zN b) (zN d) (zN e) (zN f)) in
        let lg := match j_lg j with Some cu => if zN b <? cu then Some cu else Some (zN b) | None => Some (zN b) end in
        match judge_lost tol un1 lg now rest lost 0 0 with
        | None => None
        | Some (un2, l0, l1) =>
            let e0 := cc_add (j_cc0 j) 0 (sum_bytes_on acked 0) l0 0 in
            let e1 := cc_add (j_cc1 j) 0 (sum_bytes_on acked 1) l1 0 in
            if (code =? 0)%Z && hulls_eqb hulls (sort_h ehulls)
               && cc_eqb cc0 e0 && cc_eqb cc1 e1 && bif_ok un2
               && ((bo =? j_bo j) || (bo =? 1))
            then Some ({| j_un := un2; j_lg := lg; j_now := now; j_last := j_last j; j_cc0 := e0; j_cc1 := e1; j_bo := bo |}, remaining, false)
            else None
        end
    else if (c =? 5)%Z then
      let now := j_now j + zN a in
      match judge_lost tol (j_un j) (j_lg j) now rest lost 0 0 with
      | None => None
      | Some (un2, l0, l1) =>
          let e0 := cc_add (j_cc0 j) 0 0 l0 0 in
          let e1 := cc_add (j_cc1 j) 0 0 l1 0 in
          if ((code =? 0) || (code =? 2))%Z && match hulls with [] => true | _ => false end
             && cc_eqb cc0 e0 && cc_eqb cc1 e1 && bif_ok un2
             && ((bo =? j_bo j) || (bo =? 2 * j_bo j)) && (1 <=? bo)
          then Some ({| j_un := un2; j_lg := j_lg j; j_now := now; j_last := j_last j; j_cc0 := e0; j_cc1 := e1; j_bo := bo |}, remaining, false)
          else None
      end
    else if (c =? 6)%Z && negb app then
      let e0 := cc_add (j_cc0 j) 0 0 0 (fold_right (fun p acc => p_bytes p + acc) 0 (j_un j)) in
      if (code =? 0)%Z && match lost with [] => true | _ => false end && match hulls with [] => true | _ => false end
         && cc_eqb cc0 e0 && cc_eqb cc1 (j_cc1 j) && bif_ok (filter (fun p => negb (p_path p =? 0)) (j_un j)) && (bo =? j_bo j)
      then Some ({| j_un := []; j_lg := j_lg j; j_now := j_now j; j_last := j_last j; j_cc0 := e0; j_cc1 := j_cc1 j; j_bo := bo |}, remaining, true)
      else None
    else if (c =? 7)%Z && client then
      (* Retry: every unresolved packet is discarded with the manager's state *)
      let e0 := cc_add (j_cc0 j) 0 0 0 (fold_right (fun p acc => p_bytes p + acc) 0 (j_un j)) in
      if (code =? 0)%Z && match lost with [] => true | _ => false end && match hulls with [] => true | _ => false end
         && cc_eqb cc0 e0 && cc_eqb cc1 (j_cc1 j) && bif_ok [] && (bo =? j_bo j)
      then Some ({| j_un := []; j_lg := None; j_now := j_now j; j_last := j_last j; j_cc0 := e0; j_cc1 := j_cc1 j; j_bo := bo |}, remaining, false)
      else None
    else
      let now := if (c =? 2)%Z then j_now j + zN a else j_now j in
      if (code =? 0)%Z && match lost with [] => true | _ => false end && match hulls with [] => true | _ => false end
         && cc_eqb cc0 (j_cc0 j) && cc_eqb cc1 (j_cc1 j) && bif_ok (j_un j) && (bo =? j_bo j)
      then Some ({| j_un := j_un j; j_lg := j_lg j; j_now := now; j_last := j_last j; j_cc0 := cc0; j_cc1 := cc1; j_bo := bo |}, remaining, false)
      else None
  end.

Fixpoint judge_ops (tol : bool) (app client : bool) (j : jm) (l out : list Z) : bool :=
  match l with
  | c :: a :: b :: d :: e :: f :: g :: _ :: t =>
      match jstep_m tol app client j c a b d e f g out with
      | Some (j', out', stop) =>
          if stop then match out' with [] => true | _ => false end else judge_ops tol app client j' t out'
      | None => false
      end
  | _ => match out with [] => true | _ => false end
  end.

Definition judge_g (tol : bool) (case out : list Z) : bool :=
  match case with
  | sp :: cf :: mad :: st :: ops =>
      judge_ops tol (negb ((zN sp =? 0) || (zN sp =? 1))) (N.odd (zN cf / 2)) (jinit (zN st)) ops out
  | _ => match out with [] => true | _ => false end
  end.

(* the property's rule, ages compared at 1 us resolution *)
Definition judge : list Z -> list Z -> bool := judge_g false.
(* the same with one timer granularity (1000 us) of slack on the age: used only to classify a failure of
   [judge] as the recorded finding (loss::detect is early by up to one granularity) *)
Definition judge_tol : list Z -> list Z -> bool := judge_g true.
