(* Model of dc/s2n-quic-dc/src/path/secret/sender.rs (State::{new, next_key_id,
   update_for_stale_key}).  Each operation is one atomic read-modify-write of `current_id`. *)
From SQ Require Import lib.Base.
Local Open Scope N_scope.

Definition sinit : N := 0.

(* fetch_update(|c| VarInt::try_from(c + 1).ok().filter(|id| id != VarInt::MAX)):
   the closure yields Some exactly when c + 1 < 2^62 - 1; the previous value is returned;
   None makes the `expect` panic *)
Definition next_key_id (cur : N) : option (N * N) :=
  if cur + 1 <? varint_max then Some (cur + 1, cur) else None.

(* fetch_max *)
Definition stale (cur m : N) : N := N.max cur m.

(* harness protocol: ops `0` = next_key_id, `1 m` = update_for_stale_key m;
   output = the issued ids, a panic is -1 and ends the case *)
Fixpoint run_from (fuel : nat) (cur : N) (ops : list Z) : list Z :=
  match fuel with O => [] | S fuel =>
  match ops with
  | [] => []
  | 0%Z :: t => match next_key_id cur with
                | Some (cur', id) => Nz id :: run_from fuel cur' t
                | None => [(-1)%Z]
                end
  | _ :: m :: t => run_from fuel (stale cur (zN m)) t
  | [_] => run_from fuel (stale cur 0) []
  end end.
Definition run (ops : list Z) : list Z := run_from (S (length ops)) sinit ops.

(* the property on an implementation's output: issued ids strictly increase (hence no id is
   issued twice); a trailing -1 (the documented panic at 2^62) issues nothing *)
Fixpoint incr_ok (lo : Z) (l : list Z) : bool :=
  match l with
  | [] => true
  | [(-1)%Z] => true
  | a :: t => (lo <=? a)%Z && incr_ok (a + 1) t
  end.
Definition judge (ops out : list Z) : bool := incr_ok 0 out.
Definition issued (out : list Z) : list Z := filter (fun z => (0 <=? z)%Z) out.
