(* C20 -- abstract ARQ model of an s2n-quic-dc stream (one direction), and the executable monitor
   [dcsim_judge] applied to the observations of the bach simulation (harness/h_dc/src/bin/C20.rs).

   Rust anchors (abstracted, see "Lim." at the end of this comment):
     dc/s2n-quic-dc/src/stream/send/state.rs   State::{flow_offset, on_transmit_segment, on_frame_ack,
                                               detect_lost_packets, try_transmit_retransmissions,
                                               poll_idle_timer / update_idle_timer / process_peer_activity}
     dc/s2n-quic-dc/src/stream/send/state/retransmission.rs   Segment (offset, payload_len, included_fin)
     dc/s2n-quic-dc/src/stream/recv/state.rs   State::{on_cleartext_stream_packet (filter.on_packet =
                                               dedupe by packet number, update_idle_timer), on_read_buffer,
                                               poll_idle_timer}
     quic/s2n-quic-core/src/buffer/reassembler.rs              (specified here as first-write-wins)

   The model follows the Rust at the level of "which byte range is in which set after which event":
     sender   : the written bytes, next packet number, max_sent_offset, in-flight segments keyed by packet
                number (sent_stream_packets + sent_recovery_packets), the retransmission queue, the acked
                ranges (complement of unacked_ranges), max_data / local window / congestion credit
     network  : the log of every packet ever transmitted; the oracle may deliver any logged packet at any
                time, any number of times (never = drop, twice = duplicate, later than a younger packet =
                delay / reorder); control packets (ACK ranges + MAX_DATA) likewise
     receiver : packet numbers seen (dedupe), a first-write-wins byte map, the final size, the bytes the
                application has read, liveness / knowledge of the path secret
     timers   : last peer activity, idle timeout, the error (kind, time) once reported.

   Lim.: packets are records, not wire images (C18 covers the codec); AEAD is ideal (only logged packets
   are ever processed); the congestion controller is an oracle ([Cwnd] events); PTO probing and the
   "3 packets later" loss rule are an oracle ([Lose] events may declare any in-flight packet lost at any
   time); the worker/application split of send (application transmits, worker tracks) is collapsed;
   concrete fields (slot maps, buffers, packet-number spaces) are not modelled. *)
From SQ Require Import lib.Base gen.Gen_C20.

(* ------------------------------------------------------------------------------------------ *)
(* timers                                                                                       *)
(* ------------------------------------------------------------------------------------------ *)

Inductive errk := EIdle | ESecret.

Record timer := mkTimer {
  t_now : N;                     (* virtual time *)
  t_last : N;                    (* last peer activity *)
  t_idle : N;                    (* idle timeout *)
  t_off : bool;                  (* the half has finished: timers cancelled *)
  t_err : option (errk * N)      (* error kind and the time it was reported *)
}.

Definition tm_init (idle : N) : timer := mkTimer 0 0 idle false None.

Definition tm_live (tm : timer) : bool :=
  negb (t_off tm) && match t_err tm with None => true | Some _ => false end.

(* virtual time advances to t; a discrete-event runtime wakes the stream at its armed deadline
   last_activity + idle on the way, where poll_idle_timer reports IdleTimeout *)
Definition tm_advance (tm : timer) (t : N) : timer :=
  let t' := N.max (t_now tm) t in
  if tm_live tm && (t_last tm + t_idle tm <=? t')%N
  then mkTimer t' (t_last tm) (t_idle tm) (t_off tm)
               (Some (EIdle, N.max (t_now tm) (t_last tm + t_idle tm)))
  else mkTimer t' (t_last tm) (t_idle tm) (t_off tm) (t_err tm).

(* an authenticated, non-duplicate packet from the peer was processed now *)
Definition tm_activity (tm : timer) : timer :=
  if tm_live tm then mkTimer (t_now tm) (t_now tm) (t_idle tm) (t_off tm) (t_err tm) else tm.

Definition tm_fail (tm : timer) (k : errk) : timer :=
  if tm_live tm then mkTimer (t_now tm) (t_last tm) (t_idle tm) (t_off tm) (Some (k, t_now tm)) else tm.

Definition tm_finish (tm : timer) : timer :=
  if tm_live tm then mkTimer (t_now tm) (t_last tm) (t_idle tm) true (t_err tm) else tm.

(* ------------------------------------------------------------------------------------------ *)
(* state                                                                                        *)
(* ------------------------------------------------------------------------------------------ *)

Record seg := mkSeg { s_off : nat; s_len : nat; s_fin : bool }.

Record pkt := mkPkt {
  p_pn : N;
  p_seg : seg;
  p_bytes : list N;
  p_retx : bool;        (* a retransmission (recovery packet space) *)
  p_limit : nat         (* ghost: flow_offset() at the moment of transmission *)
}.

Definition p_end (p : pkt) : nat := s_off (p_seg p) + s_len (p_seg p).

Record sender := mkS {
  sd_data : list N;                (* bytes the application has written so far *)
  sd_closed : bool;                (* the application has shut the stream down: final size = length *)
  sd_next_pn : N;
  sd_next_off : nat;               (* max_sent_offset *)
  sd_fin_sent : bool;
  sd_inflight : list (N * seg);
  sd_retx : list seg;
  sd_acked : list seg;
  sd_max_data : nat;               (* the peer's window *)
  sd_local_win : nat;              (* local_max_data_window *)
  sd_cwnd : nat;                   (* congestion window minus bytes in flight (oracle) *)
  sd_tm : timer
}.

Record receiver := mkR {
  rc_alive : bool;
  rc_secret : bool;
  rc_seen : list N;
  rc_buf : list (nat * N);         (* first-write-wins byte map *)
  rc_final : option nat;
  rc_read : list N;                (* bytes handed to the application *)
  rc_eof : bool;
  rc_win : nat;
  rc_tm : timer
}.

Record world := mkW {
  w_s : sender;
  w_r : receiver;
  w_net : list pkt;                (* every stream packet ever transmitted, oldest first *)
  w_ctl : list (list N * nat)      (* every control packet: acked packet numbers, max_data *)
}.

Inductive ev :=
| AppWrite (bs : list N)
| AppShutdown
| Transmit (k : nat)
| Retransmit
| Lose (pn : N)
| Cwnd (n : nat)
| Deliver (i : nat)
| EmitAck
| DeliverAck (j : nat)
| DeliverReject
| AppRead (k : nat)
| Tick (t : N)
| Vanish
| ForgetSecret.

(* ------------------------------------------------------------------------------------------ *)
(* sender                                                                                       *)
(* ------------------------------------------------------------------------------------------ *)

Definition covers (o : nat) (sg : seg) : bool :=
  (s_off sg <=? o)%nat && (o <? s_off sg + s_len sg)%nat.

Definition covered (o : nat) (l : list seg) : bool := existsb (covers o) l.

(* lowest offset at or above [o] that is not acknowledged (unacked_ranges.min_value()) *)
Fixpoint una_from (fuel : nat) (acked : list seg) (o : nat) : nat :=
  match fuel with
  | O => o
  | S f => match find (covers o) acked with
           | Some sg => una_from f acked (s_off sg + s_len sg)
           | None => o
           end
  end.
Definition una (s : sender) : nat := una_from (length (sd_acked s)) (sd_acked s) 0.

(* State::flow_offset *)
Definition flow_offset (s : sender) : nat :=
  let cca := match sd_retx s with [] => sd_next_off s + sd_cwnd s | _ => sd_next_off s end in
  Nat.min (Nat.min cca (una s + sd_local_win s)) (sd_max_data s).

Definition slice (data : list N) (off len : nat) : list N := firstn len (skipn off data).

Definition s_write (s : sender) (bs : list N) : sender :=
  if sd_closed s || negb (tm_live (sd_tm s)) then s else
  mkS (sd_data s ++ bs) (sd_closed s) (sd_next_pn s) (sd_next_off s) (sd_fin_sent s) (sd_inflight s)
      (sd_retx s) (sd_acked s) (sd_max_data s) (sd_local_win s) (sd_cwnd s) (sd_tm s).

Definition s_shutdown (s : sender) : sender :=
  if negb (tm_live (sd_tm s)) then s else
  mkS (sd_data s) true (sd_next_pn s) (sd_next_off s) (sd_fin_sent s) (sd_inflight s)
      (sd_retx s) (sd_acked s) (sd_max_data s) (sd_local_win s) (sd_cwnd s) (sd_tm s).

(* new data: at most k bytes, never beyond flow_offset(); carries the fin once everything is out *)
Definition s_transmit (s : sender) (k : nat) : sender * option pkt :=
  if negb (tm_live (sd_tm s)) then (s, None) else
  let limit := flow_offset s in
  let len := Nat.min k (Nat.min (length (sd_data s) - sd_next_off s) (limit - sd_next_off s)) in
  let fin := sd_closed s && (sd_next_off s + len =? length (sd_data s))%nat in
  if (len =? 0)%nat && negb (fin && negb (sd_fin_sent s)) then (s, None) else
  let sg := mkSeg (sd_next_off s) len fin in
  let p := mkPkt (sd_next_pn s) sg (slice (sd_data s) (sd_next_off s) len) false limit in
  (mkS (sd_data s) (sd_closed s) (sd_next_pn s + 1)%N (sd_next_off s + len) (sd_fin_sent s || fin)
       ((sd_next_pn s, sg) :: sd_inflight s) (sd_retx s) (sd_acked s) (sd_max_data s) (sd_local_win s)
       (sd_cwnd s - len) (sd_tm s),
   Some p).

(* try_transmit_retransmissions: the stored segment goes out again under a fresh packet number *)
Definition s_retransmit (s : sender) : sender * option pkt :=
  if negb (tm_live (sd_tm s)) then (s, None) else
  match sd_retx s with
  | [] => (s, None)
  | sg :: rest =>
      let p := mkPkt (sd_next_pn s) sg (slice (sd_data s) (s_off sg) (s_len sg)) true (sd_next_off s) in
      (mkS (sd_data s) (sd_closed s) (sd_next_pn s + 1)%N (sd_next_off s) (sd_fin_sent s)
           ((sd_next_pn s, sg) :: sd_inflight s) rest (sd_acked s) (sd_max_data s) (sd_local_win s)
           (sd_cwnd s) (sd_tm s),
       Some p)
  end.

Fixpoint take_pn (pn : N) (l : list (N * seg)) : option seg * list (N * seg) :=
  match l with
  | [] => (None, [])
  | (q, sg) :: t => if (q =? pn)%N then (Some sg, t)
                    else let (r, t') := take_pn pn t in (r, (q, sg) :: t')
  end.

(* detect_lost_packets: the segment moves from the in-flight map to the retransmission queue *)
Definition s_lose (s : sender) (pn : N) : sender :=
  if negb (tm_live (sd_tm s)) then s else
  match take_pn pn (sd_inflight s) with
  | (Some sg, rest) =>
      mkS (sd_data s) (sd_closed s) (sd_next_pn s) (sd_next_off s) (sd_fin_sent s) rest
          (sd_retx s ++ [sg]) (sd_acked s) (sd_max_data s) (sd_local_win s) (sd_cwnd s) (sd_tm s)
  | (None, _) => s
  end.

Definition s_cwnd (s : sender) (n : nat) : sender :=
  mkS (sd_data s) (sd_closed s) (sd_next_pn s) (sd_next_off s) (sd_fin_sent s) (sd_inflight s)
      (sd_retx s) (sd_acked s) (sd_max_data s) (sd_local_win s) n (sd_tm s).

Fixpoint ack_all (pns : list N) (infl : list (N * seg)) (acked : list seg) : list (N * seg) * list seg :=
  match pns with
  | [] => (infl, acked)
  | pn :: t => match take_pn pn infl with
               | (Some sg, rest) => ack_all t rest (sg :: acked)
               | (None, _) => ack_all t infl acked
               end
  end.

Definition all_acked (s : sender) (infl : list (N * seg)) (retx : list seg) : bool :=
  sd_closed s && sd_fin_sent s && match infl, retx with [], [] => true | _, _ => false end.

(* on_control_packet: ACK ranges free in-flight segments, MAX_DATA only ever raises the window *)
Definition s_on_ctl (s : sender) (c : list N * nat) : sender :=
  if negb (tm_live (sd_tm s)) then s else
  let (infl, acked) := ack_all (fst c) (sd_inflight s) (sd_acked s) in
  let tm := tm_activity (sd_tm s) in
  let tm := if all_acked s infl (sd_retx s) then tm_finish tm else tm in
  mkS (sd_data s) (sd_closed s) (sd_next_pn s) (sd_next_off s) (sd_fin_sent s) infl
      (sd_retx s) acked (Nat.max (sd_max_data s) (snd c)) (sd_local_win s) (sd_cwnd s) tm.

Definition s_set_tm (s : sender) (tm : timer) : sender :=
  mkS (sd_data s) (sd_closed s) (sd_next_pn s) (sd_next_off s) (sd_fin_sent s) (sd_inflight s)
      (sd_retx s) (sd_acked s) (sd_max_data s) (sd_local_win s) (sd_cwnd s) tm.

(* ------------------------------------------------------------------------------------------ *)
(* receiver                                                                                     *)
(* ------------------------------------------------------------------------------------------ *)

Fixpoint lookup (o : nat) (m : list (nat * N)) : option N :=
  match m with
  | [] => None
  | (k, b) :: t => if (k =? o)%nat then Some b else lookup o t
  end.

(* first write wins *)
Fixpoint buf_write (m : list (nat * N)) (off : nat) (bs : list N) : list (nat * N) :=
  match bs with
  | [] => m
  | b :: t => let m' := match lookup off m with Some _ => m | None => (off, b) :: m end in
              buf_write m' (S off) t
  end.

(* the contiguous run starting at [off], at most k bytes *)
Fixpoint contig (m : list (nat * N)) (off k : nat) : list N :=
  match k with
  | O => []
  | S k' => match lookup off m with
            | Some b => b :: contig m (S off) k'
            | None => []
            end
  end.

Definition r_set_tm (r : receiver) (tm : timer) : receiver :=
  mkR (rc_alive r) (rc_secret r) (rc_seen r) (rc_buf r) (rc_final r) (rc_read r) (rc_eof r) (rc_win r) tm.

(* on_cleartext_stream_packet: duplicates by packet number are refused before anything else *)
Definition r_on_pkt (r : receiver) (p : pkt) : receiver :=
  if negb (rc_alive r && rc_secret r && tm_live (rc_tm r)) then r else
  if mem_N (p_pn p) (rc_seen r) then r else
  let final := if s_fin (p_seg p) then Some (p_end p) else rc_final r in
  mkR (rc_alive r) (rc_secret r) (p_pn p :: rc_seen r)
      (buf_write (rc_buf r) (s_off (p_seg p)) (p_bytes p)) final (rc_read r) (rc_eof r) (rc_win r)
      (tm_activity (rc_tm r)).

Definition r_read (r : receiver) (k : nat) : receiver :=
  if negb (rc_alive r && tm_live (rc_tm r)) then r else
  let got := contig (rc_buf r) (length (rc_read r)) k in
  let rd := rc_read r ++ got in
  let eof := match rc_final r with Some f => (length rd =? f)%nat | None => false end in
  mkR (rc_alive r) (rc_secret r) (rc_seen r) (rc_buf r) (rc_final r) rd (rc_eof r || eof) (rc_win r)
      (if eof then tm_finish (rc_tm r) else rc_tm r).

Definition r_vanish (r : receiver) : receiver :=
  mkR false (rc_secret r) (rc_seen r) (rc_buf r) (rc_final r) (rc_read r) (rc_eof r) (rc_win r) (rc_tm r).
Definition r_forget (r : receiver) : receiver :=
  mkR (rc_alive r) false (rc_seen r) (rc_buf r) (rc_final r) (rc_read r) (rc_eof r) (rc_win r) (rc_tm r).

(* ------------------------------------------------------------------------------------------ *)
(* the world                                                                                    *)
(* ------------------------------------------------------------------------------------------ *)

Definition emit (w : world) (sp : sender * option pkt) : world :=
  match snd sp with
  | Some p => mkW (fst sp) (w_r w) (w_net w ++ [p]) (w_ctl w)
  | None => mkW (fst sp) (w_r w) (w_net w) (w_ctl w)
  end.

Definition step (w : world) (e : ev) : world :=
  match e with
  | AppWrite bs => mkW (s_write (w_s w) bs) (w_r w) (w_net w) (w_ctl w)
  | AppShutdown => mkW (s_shutdown (w_s w)) (w_r w) (w_net w) (w_ctl w)
  | Transmit k => emit w (s_transmit (w_s w) k)
  | Retransmit => emit w (s_retransmit (w_s w))
  | Lose pn => mkW (s_lose (w_s w) pn) (w_r w) (w_net w) (w_ctl w)
  | Cwnd n => mkW (s_cwnd (w_s w) n) (w_r w) (w_net w) (w_ctl w)
  | Deliver i => match nth_error (w_net w) i with
                 | Some p => mkW (w_s w) (r_on_pkt (w_r w) p) (w_net w) (w_ctl w)
                 | None => w
                 end
  | EmitAck => if rc_alive (w_r w) && rc_secret (w_r w)
               then mkW (w_s w) (w_r w) (w_net w)
                        (w_ctl w ++ [(rc_seen (w_r w), length (rc_read (w_r w)) + rc_win (w_r w))])
               else w
  | DeliverAck j => match nth_error (w_ctl w) j with
                    | Some c => mkW (s_on_ctl (w_s w) c) (w_r w) (w_net w) (w_ctl w)
                    | None => w
                    end
  | DeliverReject => if rc_alive (w_r w) && negb (rc_secret (w_r w))
                     then mkW (s_set_tm (w_s w) (tm_fail (sd_tm (w_s w)) ESecret)) (w_r w) (w_net w) (w_ctl w)
                     else w
  | AppRead k => mkW (w_s w) (r_read (w_r w) k) (w_net w) (w_ctl w)
  | Tick t => mkW (s_set_tm (w_s w) (tm_advance (sd_tm (w_s w)) t))
                  (r_set_tm (w_r w) (tm_advance (rc_tm (w_r w)) t)) (w_net w) (w_ctl w)
  | Vanish => mkW (w_s w) (r_vanish (w_r w)) (w_net w) (w_ctl w)
  | ForgetSecret => mkW (w_s w) (r_forget (w_r w)) (w_net w) (w_ctl w)
  end.

Definition run_from (w : world) (evs : list ev) : world := fold_left step evs w.

Record cfg := mkCfg { c_idle : N; c_max_data : nat; c_local_win : nat; c_cwnd : nat; c_rwin : nat }.

Definition init (c : cfg) : world :=
  mkW (mkS [] false 0%N 0 false [] [] [] (c_max_data c) (c_local_win c) (c_cwnd c) (tm_init (c_idle c)))
      (mkR true true [] [] None [] false (c_rwin c) (tm_init (c_idle c)))
      [] [].

Definition run (c : cfg) (evs : list ev) : world := run_from (init c) evs.

(* observables *)
Definition written (w : world) : list N := sd_data (w_s w).
Definition read (w : world) : list N := rc_read (w_r w).
Definition eof (w : world) : Prop := rc_eof (w_r w) = true.
Definition error_reported (w : world) : Prop :=
  t_err (sd_tm (w_s w)) <> None \/ t_err (rc_tm (w_r w)) <> None.

Definition is_prefix (a b : list N) : Prop := exists c, b = a ++ c.

(* ------------------------------------------------------------------------------------------ *)
(* the monitor applied to the simulation's observations                                         *)
(* ------------------------------------------------------------------------------------------ *)

(* one direction of a simulated exchange, as printed by the harness (18 integers) *)
Record dobs := mkD {
  d_intended : Z; d_written : Z; d_wdone : Z; d_werr : Z; d_werr_t : Z; d_wpend : Z; d_wwait : Z;
  d_read : Z; d_correct : Z; d_bad : Z; d_eof : Z; d_rerr : Z; d_rerr_t : Z; d_rpend : Z; d_rwait : Z;
  d_stopped : Z; d_wstarted : Z; d_rstarted : Z
}.

Definition nthz (l : list Z) (i : nat) : Z := nth i l 0%Z.

Definition dobs_at (l : list Z) (b : nat) : dobs :=
  mkD (nthz l b) (nthz l (b + 1)) (nthz l (b + 2)) (nthz l (b + 3)) (nthz l (b + 4)) (nthz l (b + 5))
      (nthz l (b + 6)) (nthz l (b + 7)) (nthz l (b + 8)) (nthz l (b + 9)) (nthz l (b + 10))
      (nthz l (b + 11)) (nthz l (b + 12)) (nthz l (b + 13)) (nthz l (b + 14)) (nthz l (b + 15))
      (nthz l (b + 16)) (nthz l (b + 17)).

(* the bytes read are the position-keyed bytes of a prefix of what was written; equal at EOF;
   a reader that neither saw EOF nor stopped on its own was given an error (a read half that never
   came to exist -- the peer never accepted the stream -- has nothing to report, one that is still
   pending is judged by [dir_nohang]) *)
Definition dir_ok (d : dobs) : bool :=
  (d_correct d =? 1)%Z && (d_bad d =? -1)%Z &&
  (0 <=? d_read d)%Z && (d_read d <=? d_written d)%Z && (d_written d <=? d_intended d)%Z &&
  (if (d_eof d =? 1)%Z then (d_read d =? d_written d)%Z && (d_rerr d =? 0)%Z
   else (d_stopped d =? 1)%Z || negb (d_rerr d =? 0)%Z || (d_rstarted d =? 0)%Z || (d_rpend d =? 1)%Z).

(* no operation was still pending at the hang limit (20 x the idle timeout of virtual time) *)
Definition dir_nohang (d : dobs) : bool := (d_wpend d =? 0)%Z && (d_rpend d =? 0)%Z.

(* no operation of this direction stayed blocked longer than the idle timeout (+ slack) once
   the peer had vanished / forgotten the secret *)
Definition dir_prompt (d : dobs) (bound : Z) : bool :=
  (d_wwait d <=? bound)%Z && (d_rwait d <=? bound)%Z.

(* peer alive, secret known, both applications read to the end: the exchange must complete --
   every intended byte written and read, EOF seen, no error on either half ("complete at end of
   stream, under packet loss, duplication and reordering") *)
Definition dir_complete (d : dobs) : bool :=
  (d_eof d =? 1)%Z && (d_read d =? d_intended d)%Z && (d_written d =? d_intended d)%Z &&
  (d_werr d =? 0)%Z && (d_rerr d =? 0)%Z && (d_wstarted d =? 1)%Z && (d_rstarted d =? 1)%Z.

(* case: element 1 = scenario (mod 3): 0 normal, 1 peer vanishes, 2 unknown path secret;
         element 19 = reader-stop bits (a reader that walks away half way; then only safety is demanded).
   output: stalled, idle_us, ref_time, slack_us, end_time, connect_err, then two directions,
           then ghost_streams, ghost_bytes. *)
Definition dcsim_judge (case out : list Z) : bool :=
  let scenario := (nthz case 1 mod 3)%Z in
  let stalled := nthz out 0 in
  let idle := nthz out 1 in
  let reft := nthz out 2 in
  let slack := nthz out 3 in
  let d0 := dobs_at out 6 in
  let d1 := dobs_at out 24 in
  (length out =? 44)%nat &&
  (* a stream accepted from a duplicated first datagram never yields bytes *)
  (nthz out 43 =? 0)%Z &&
  (stalled =? 0)%Z && (0 <? idle)%Z && (0 <=? slack)%Z &&
  (* the idle timeout the real parameters report is the one the source declares *)
  (idle =? Z.of_N (Gen_C20.test_idle_timeout_secs * 1000000))%Z &&
  dir_ok d0 && dir_ok d1 &&
  (* a live peer whose application walked away from its read half may leave the other side blocked
     on flow control for ever: that is not a hang of the transport; everywhere else nothing may be pending *)
  (if (scenario =? 0)%Z
   then (if (nthz case 19 =? 0)%Z
         then dir_nohang d0 && dir_nohang d1 &&
              (* completion is demanded up to 10% configured loss per direction; above that the sender's
                 exponential PTO backoff may legitimately starve a stream until its idle timer fires
                 (measured: about 0.5% of exchanges at 30% loss both ways), and an error is accepted *)
              (if (nthz case 6 <=? 100)%Z && (nthz case 7 <=? 100)%Z
               then dir_complete d0 && dir_complete d1 else true)
         else true)
   else (0 <=? reft)%Z && dir_nohang d0 && dir_nohang d1 &&
        dir_prompt d0 (idle + slack) && dir_prompt d1 (idle + slack)) &&
  (* a stream whose peer does not know the secret must fail: the client's read half reports an error *)
  (if (scenario =? 2)%Z
   then (d_rstarted d1 =? 1)%Z && (d_eof d1 =? 0)%Z && ((d_stopped d1 =? 1)%Z || negb (d_rerr d1 =? 0)%Z)
   else true).

(* the correspondence protocol wants a [run]; the simulation has no executable model counterpart
   (component registered with "model": False), the abstract model is related to the monitor by
   DcStreamProofs.monitor_accepts_model *)
Definition dcsim_run (case : list Z) : list Z := [].

(* ------------------------------------------------------------------------------------------ *)
(* the monitor applied to the receiver state machine driven alone (component dcrecv)            *)
(* ------------------------------------------------------------------------------------------ *)

(* output: ops, then (expected_duplicate, code) per packet fed, then -1, then
   read, correct, dup_changed_state, acks_subset, acked_count, max_data_monotone, eof, total.
   code: 0 accepted, 1 refused as Duplicate, 2 other error.
   A packet whose (space, number) was accepted before must leave the buffered bytes unchanged
   (dup_changed_state = 0), whatever it returns: Duplicate when it reaches the packet-number filter,
   another non-fatal error when the duplicate is first noticed inside the reassembler's read, or Ok when
   its bytes are already buffered (the reassembler skips it without even decrypting) or the stream has
   finished.  While the stream is still receiving (marker <> 2) a packet with a fresh number (authentic,
   within the window) must be accepted. *)
Fixpoint recv_pairs_ok (l : list Z) : option (list Z) :=
  match l with
  | [] => None
  | d :: t =>
      if (d =? -1)%Z then Some t else
      match t with
      | [] => None
      | code :: t' =>
          if (if (d =? 1)%Z then true else if (d =? 2)%Z then true else (d =? 0)%Z && (code =? 0)%Z)
          then recv_pairs_ok t' else None
      end
  end.

Definition dcrecv_judge (case out : list Z) : bool :=
  match out with
  | [] => false
  | _ :: rest =>
      match recv_pairs_ok rest with
      | Some [rd; correct; dupchg; subset; _acked; mono; eofz; total] =>
          (correct =? 1)%Z && (dupchg =? 0)%Z && (subset =? 1)%Z && (mono =? 1)%Z &&
          (0 <=? rd)%Z && (rd <=? total)%Z && (if (eofz =? 1)%Z then (rd =? total)%Z else true)
      | _ => false
      end
  end.

Definition dcrecv_run (case : list Z) : list Z := [].
