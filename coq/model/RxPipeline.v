(* Abstract model of the 1-RTT receive pipeline:
   s2n-quic-transport/src/space/application.rs (validate_and_decrypt_packet, is_duplicate,
   on_processed_packet), s2n-quic-core/src/crypto/application/keyset.rs (decrypt_packet: failure
   counter, AEAD_LIMIT_REACHED), crypto/mod.rs (unprotect -> expand -> decrypt) and the stateless
   reset lookup of s2n-quic-transport/src/endpoint/mod.rs (close_on_matching_stateless_reset) over
   connection_id_mapper.rs (StatelessResetMap).
   Header protection, packet number expansion and the AEAD are Section variables; the AEAD is ideal
   (hypothesis in proofs/RxPipelineProofs.v).  Executable definitions only. *)
From SQ Require Import lib.Base gen.Gen_C06.
Local Open Scope N_scope.

(* ---- SlidingWindow as the set of inserted packet numbers (its bit-level refinement is C16's) ---- *)
Inductive wres := WOk | WDup | WOld.

Definition sw_check (w : list N) (pn : N) : wres :=
  match max_list w with
  | None => WOk                                        (* WindowPosition::Empty *)
  | Some m =>
      if m <? pn then WOk                              (* Right *)
      else if sw_window_width <=? m - pn then WOld     (* Left *)
      else if mem_N pn w then WDup else WOk            (* RightEdge / Within *)
  end.

Record state := mk {
  window : list N;                 (* processed_packet_numbers *)
  largest : N;                     (* packet number the expansion is relative to *)
  delivered : list (N * list N);   (* frames handed to handle_cleartext_payload: application-visible *)
  acked : list N;                  (* ack_manager.on_processed_packet *)
  failures : N;                    (* KeySet.packet_decryption_failures *)
  closed : bool                    (* connection closed (AEAD_LIMIT_REACHED) *)
}.

Definition init : state :=
  {| window := []; largest := 0; delivered := []; acked := []; failures := 0; closed := false |}.

(* result codes of one datagram: 0 processed, 1 dropped before decryption (not a 1-RTT packet /
   header protection sample missing), 2 decrypt failed, 3 duplicate, 4 too old, 5 connection already
   closed, 6 decrypt failed and the connection is closed with AEAD_LIMIT_REACHED (8, implementation
   only: closed with any other connection error) *)
Section Rx.
  Variable D : Type.                                                   (* datagrams *)
  Variable unprot : D -> option (N * nat * list N * list N).           (* truncated pn, pn len, header, ciphertext *)
  Variable expand : N -> N -> nat -> N.                                (* largest, truncated pn, pn len *)
  Variable aead_open : N -> list N -> list N -> option (list N).       (* packet number (nonce), header (aad), ciphertext *)
  Variable integrity_limit : N.

  Definition bump (s : state) (close : bool) : state :=
    {| window := window s; largest := largest s; delivered := delivered s; acked := acked s;
       failures := failures s + 1; closed := close |}.

  Definition rx (s : state) (d : D) : state * (Z * option (N * list N)) :=
    if closed s then (s, (5%Z, None)) else
    match unprot d with
    | None => (s, (1%Z, None))
    | Some (tpn, n, hdr, ct) =>
        let pn := expand (largest s) tpn n in
        (* key_set.decrypt_packet: decrypt first, count a failure, AEAD_LIMIT_REACHED once the counter
           reaches the limit; validate_and_decrypt_packet then checks for duplicates, but a connection
           error of decrypt_packet is returned from the duplicate branch as well *)
        match aead_open pn hdr ct with
        | None =>
            if integrity_limit <=? failures s + 1 then (bump s true, (6%Z, None)) else
            match sw_check (window s) pn with
            | WDup => (bump s false, (3%Z, None))
            | WOld => (bump s false, (4%Z, None))
            | WOk => (bump s false, (2%Z, None))
            end
        | Some p =>
            match sw_check (window s) pn with
            | WDup => (s, (3%Z, None))
            | WOld => (s, (4%Z, None))
            | WOk =>
                (* handle_cleartext_payload, then on_processed_packet: ack manager + window insert *)
                ({| window := pn :: window s; largest := N.max (largest s) pn;
                    delivered := delivered s ++ [(pn, p)]; acked := pn :: acked s;
                    failures := failures s; closed := false |}, (0%Z, Some (pn, p)))
            end
        end
    end.

  Fixpoint rx_all (s : state) (ds : list D) : state :=
    match ds with
    | [] => s
    | d :: t => rx_all (fst (rx s d)) t
    end.
End Rx.

(* ---- stateless reset: close_on_matching_stateless_reset ---- *)
Definition token_len : nat := N.to_nat reset_token_len.

(* the last 16 bytes of the datagram, None when it is shorter *)
Definition last16 (d : list N) : option (list N) :=
  if Nat.ltb (length d) token_len then None else Some (skipn (length d - token_len) d).

Fixpoint eqb_bytes (a b : list N) : bool :=
  match a, b with
  | [], [] => true
  | x :: a', y :: b' => (x =? y) && eqb_bytes a' b'
  | _, _ => false
  end.

(* StatelessResetMap: peer token -> internal connection id; remove returns the mapping *)
Fixpoint map_remove (t : list N) (m : list (list N * N)) : option N * list (list N * N) :=
  match m with
  | [] => (None, [])
  | (t', c) :: r =>
      if eqb_bytes t t' then (Some c, r)
      else let '(o, r') := map_remove t r in (o, (t', c) :: r')
  end.

(* returns the connection that is closed with connection::Error::stateless_reset, if any *)
Definition on_stateless_reset (m : list (list N * N)) (d : list N) : option N * list (list N * N) :=
  match last16 d with
  | None => (None, m)
  | Some t => map_remove t m
  end.

(* harness protocol (component reset): case = ntok :: ntok*16 token bytes ++ datagram bytes;
   output = [index+1 of the token the real code matched, 0 when none] *)
Fixpoint chunks (k : nat) (l : list N) : list (list N) :=
  match k with
  | O => []
  | S k' => firstn token_len l :: chunks k' (skipn token_len l)
  end.
Fixpoint number_from (i : N) (ts : list (list N)) : list (list N * N) :=
  match ts with [] => [] | t :: r => (t, i) :: number_from (i + 1) r end.

Definition reset_run (c : list Z) : list Z :=
  let k := Z.to_nat (nth 0 c 0%Z) in
  let body := map zN (skipn 1 c) in
  let toks := chunks k body in
  let d := skipn (k * token_len) body in
  match fst (on_stateless_reset (number_from 1 toks) d) with
  | None => [0%Z]
  | Some i => [Nz i]
  end.

(* the property: a datagram closes a connection as a stateless reset only if its last 16 bytes are
   one of the registered tokens (and then it names that token) *)
Definition reset_judge (c o : list Z) : bool :=
  let k := Z.to_nat (nth 0 c 0%Z) in
  let body := map zN (skipn 1 c) in
  let toks := chunks k body in
  let d := skipn (k * token_len) body in
  match o with
  | [0%Z] => true
  | [i] =>
      (0 <? i)%Z && (Z.to_nat i <=? k)%nat &&
      match last16 d with
      | None => false
      | Some t => eqb_bytes t (nth (Z.to_nat i - 1) toks [])
      end
  | _ => false
  end.

(* ---- harness protocol (component rxpipe) -------------------------------------------------------
   case = seed :: dcid_len :: integrity_limit :: ops
     0 pn n plen b1..b_plen : the peer seals a packet (packet number, pn length, payload); no output
     1 k                    : packet #k is delivered unmodified
     2 k pos x              : packet #k with byte pos XORed with x (1..255)
     3 k newlen             : packet #k truncated
     4 k j cut cut2         : first cut (>= 1) bytes of #k followed by #j from cut2 on
     5 len b1..b_len        : arbitrary bytes
   (the generator keeps every garbled datagram different from every sealed packet)
   output per delivery: unmodified copy: result code, and when processed (0): pn, payload length, payload;
                        anything else: 1 when dropped, 6 when dropped and the connection is closed
                        with AEAD_LIMIT_REACHED, 5 when the connection was closed before, full dump
                        if it were processed; 9 when k does not name a sealed packet.
   The executable instance is the ideal AEAD itself: a datagram is either a byte-identical copy of a
   sealed packet (its "ciphertext" is the tuple pn :: payload, which opens iff it is in the table)
   or something else, which never opens. *)
Inductive item := ISkip | IGen (pn : N) (pay : list N) | IForged (r : option N).
(* IForged None: dropped before decryption; IForged (Some pn): reaches decryption with that packet number *)

Definition pkt_len (hlen : nat) (e : N * nat * list N) : nat :=
  let '(_, n, pay) := e in (hlen + n + length pay + 16)%nat.

Fixpoint parse (fuel hlen : nat) (c : list Z) (tbl : list (N * nat * list N)) : list item :=
  match fuel with
  | O => []
  | S f =>
      match c with
      | 0%Z :: pn :: n :: plen :: r =>
          let k := Z.to_nat plen in
          parse f hlen (skipn k r) (tbl ++ [(zN pn, Nat.max 1 (Nat.min 4 (Z.to_nat n)), map zN (firstn k r))])
      | 1%Z :: k :: r =>
          (match nth_error tbl (Z.to_nat k) with Some (pn, _, pay) => IGen pn pay | None => ISkip end) :: parse f hlen r tbl
      | 2%Z :: k :: pos :: x :: r =>
          (match nth_error tbl (Z.to_nat k) with
           | Some e =>
               let len := pkt_len hlen e in
               let p := Nat.modulo (Z.to_nat pos) len in
               IForged (if Nat.eqb p 0 && negb (N.land (zN x) 192 =? 0) then None else Some (fst (fst e)))
           | None => ISkip end) :: parse f hlen r tbl
      | 3%Z :: k :: newlen :: r =>
          (match nth_error tbl (Z.to_nat k) with
           | Some e =>
               let nl := Nat.min (Z.to_nat newlen) (pkt_len hlen e) in
               IForged (if Nat.leb (hlen + 20) nl then Some (fst (fst e)) else None)
           | None => ISkip end) :: parse f hlen r tbl
      | 4%Z :: k :: j :: cut :: cut2 :: r =>
          (match nth_error tbl (Z.to_nat k), nth_error tbl (Z.to_nat j) with
           | Some e, Some e' =>
               let c1 := Nat.min (Z.to_nat cut) (pkt_len hlen e) in
               let c2 := Nat.min (Z.to_nat cut2) (pkt_len hlen e') in
               let res := (c1 + (pkt_len hlen e' - c2))%nat in
               IForged (if Nat.leb 1 c1 && Nat.leb (hlen + 20) res then Some 0 else None)
           | _, _ => ISkip end) :: parse f hlen r tbl
      | 5%Z :: len :: r =>
          let b := firstn (Z.to_nat len) r in
          IForged (if Nat.leb (hlen + 20) (length b) && (N.land (zN (hd 0%Z b)) 192 =? 64) then Some 0 else None)
          :: parse f hlen (skipn (Z.to_nat len) r) tbl
      | _ => []
      end
  end.

Definition case_hlen (c : list Z) : nat := S (Nat.min (Z.to_nat (nth 1 c 0%Z)) 20).
Definition case_limit (c : list Z) : N := zN (nth 2 c 0%Z).
Definition items_of (c : list Z) : list item := parse (length c) (case_hlen c) (skipn 3 c) [].

(* symbolic datagrams of the executable instance *)
Inductive sdg := SCopy (pn : N) (pay : list N) | SOther (r : option N).

Definition x_seal (n : N) (a p : list N) : list N := n :: p.
Definition x_unprot (d : sdg) : option (N * nat * list N * list N) :=
  match d with
  | SCopy pn pay => Some (pn, 4%nat, [], x_seal pn [] pay)
  | SOther (Some pn) => Some (pn, 4%nat, [], [])
  | SOther None => None
  end.
Definition x_expand (lg t : N) (n : nat) : N := t.
Definition in_table (tbl : list (N * list N)) (pn : N) (p : list N) : bool :=
  existsb (fun e => (fst e =? pn) && eqb_bytes (snd e) p) tbl.
Definition x_open (tbl : list (N * list N)) (pn : N) (hdr ct : list N) : option (list N) :=
  match hdr, ct with
  | [], c0 :: p => if (c0 =? pn) && in_table tbl pn p then Some p else None
  | _, _ => None
  end.
(* everything the peer sealed, as (pn, header, payload) *)
Definition x_sealed (tbl : list (N * list N)) : list (N * list N * list N) :=
  map (fun e => (fst e, [], snd e)) tbl.

Definition dump (r : Z * option (N * list N)) : list Z :=
  match r with
  | (0%Z, Some (pn, p)) => 0%Z :: Nz pn :: Z.of_nat (length p) :: map Nz p
  | (code, _) => [code]
  end.
Definition dump_forged (r : Z * option (N * list N)) : list Z :=
  match r with
  | (0%Z, Some _) => dump r
  | (5%Z, _) => [5%Z]
  | (6%Z, _) => [6%Z]
  | _ => [1%Z]
  end.

Fixpoint run_items (tbl : list (N * list N)) (lim : N) (s : state) (its : list item) : list Z :=
  match its with
  | [] => []
  | ISkip :: t => 9%Z :: run_items tbl lim s t
  | IGen pn pay :: t =>
      let '(s', r) := rx sdg x_unprot x_expand (x_open tbl) lim s (SCopy pn pay) in
      dump r ++ run_items tbl lim s' t
  | IForged f :: t =>
      let '(s', r) := rx sdg x_unprot x_expand (x_open tbl) lim s (SOther f) in
      dump_forged r ++ run_items tbl lim s' t
  end.

Definition table_of (its : list item) : list (N * list N) :=
  flat_map (fun i => match i with IGen pn pay => [(pn, pay)] | _ => [] end) its.

Definition run (c : list Z) : list Z :=
  let its := items_of c in run_items (table_of its) (case_limit c) init its.

(* ---- the property as an executable judgement ----
   a garbled / forged datagram never yields a payload, and closes the connection only when at least
   integrity_limit non-authentic datagrams have been delivered; an unmodified copy yields exactly
   the sealed packet number and payload, and no packet number is processed twice; a copy whose
   packet number is above everything processed so far is processed (while the connection is open) *)
Fixpoint judge_items (lim : N) (proc : list N) (nf : N) (cl : bool) (its : list item) (o : list Z) : bool :=
  match its with
  | [] => match o with [] => true | _ => false end
  | ISkip :: t => match o with 9%Z :: o' => judge_items lim proc nf cl t o' | _ => false end
  | IForged _ :: t =>
      match o with
      | 1%Z :: o' => negb cl && judge_items lim proc (nf + 1) cl t o'
      | 6%Z :: o' => negb cl && (lim <=? nf + 1) && judge_items lim proc (nf + 1) true t o'
      | 5%Z :: o' => cl && judge_items lim proc nf cl t o'
      | _ => false
      end
  | IGen pn pay :: t =>
      match o with
      | 0%Z :: pn' :: plen :: o' =>
          let k := Z.to_nat plen in
          negb cl && (zN pn' =? pn) && Nat.eqb k (length pay) && Nat.leb k (length o')
          && eqb_bytes (map zN (firstn k o')) pay
          && negb (mem_N pn proc)
          && judge_items lim (pn :: proc) nf cl t (skipn k o')
      | 5%Z :: o' => cl && judge_items lim proc nf cl t o'
      | 6%Z :: _ => false
      | 8%Z :: _ => false
      | code :: o' =>
          negb (code =? 0)%Z && negb cl && (match max_list proc with None => false | Some m => pn <=? m end)
          && judge_items lim proc nf cl t o'
      | [] => false
      end
  end.

Definition judge (c o : list Z) : bool := judge_items (case_limit c) [] 0 false (items_of c) o.
