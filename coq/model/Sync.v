(* Model of quic/s2n-quic-transport/src/sync/{mod.rs (DeliveryState), incremental_value_sync.rs,
   once_sync.rs, periodic_sync.rs}.  Executable definitions only.

   Values are VarInts (N, below 2^62), packet numbers N, times N microseconds
   (Timestamp = NonZeroU64 microseconds: a zero is rounded up to 1).
   Transmission constraint codes: 0 None, 1 RetransmissionOnly, 2 CongestionLimited,
   3 AmplificationLimited.  Interest codes: 0 None, 1 NewData, 2 LostData. *)
From SQ Require Import lib.Base gen.Gen_C02.
Local Open Scope N_scope.

(* ---------------------------------------------------------------- DeliveryState (mod.rs) *)

Inductive delivery :=
| NotRequested
| Requested (v : N)
| Lost (v : N)
| InFlight (v pn ts : N)          (* InFlightDelivery { value, packet: { packet_nr, timestamp } } *)
| Delivered (v : N)
| Cancelled (o : option N).

Definition cancel (d : delivery) : delivery :=
  match d with
  | NotRequested => Cancelled None
  | Requested v | Lost v | Delivered v | InFlight v _ _ => Cancelled (Some v)
  | Cancelled o => Cancelled o
  end.

Definition is_cancelled (d : delivery) : bool := match d with Cancelled _ => true | _ => false end.
Definition is_inflight (d : delivery) : bool := match d with InFlight _ _ _ => true | _ => false end.

(* transmission::Constraint::{can_transmit, can_retransmit} *)
Definition can_transmit (c : N) : bool := c =? 0.
Definition can_retransmit (c : N) : bool := (c =? 0) || (c =? 1).

(* DeliveryState::try_transmit(..).is_some() *)
Definition try_transmit (d : delivery) (c : N) : bool :=
  match d with
  | Requested _ => can_transmit c
  | Lost _ => can_retransmit c
  | _ => false
  end.

(* transmission::interest::Provider for DeliveryState *)
Definition interest (d : delivery) : N :=
  match d with Requested _ => 1 | Lost _ => 2 | _ => 0 end.

(* ack::Set::contains for an inclusive packet number range *)
Definition in_range (pn lo hi : N) : bool := (lo <=? pn) && (pn <=? hi).

(* ---------------------------------------------------------------- operations *)

Inductive op :=
| OUpdate (d : N)                       (* ivs: update_latest_value(latest + d); psync: request_delivery(latest + d) *)
| OTransmit (c : N) (cap : bool) (t : N)  (* on_transmit: constraint, room for the frame, current time *)
| OAck (lo hi : N)
| OLoss (lo hi : N)
| OStop
| ORequest (v : N)                      (* osync: request_delivery(v) *)
| OForce (v : N)                        (* osync: force_delivery(v) *)
| OSkip (t : N)                         (* psync: skip_delivery(now) *)
| OTimeout (t : N)                      (* psync: on_timeout(now) *)
| OPeriod (p : N).                      (* psync: update_sync_period(p) *)

(* what an on_transmit call did: written value (if a frame was written), result code
   (0 Ok, 1 CouldNotWriteFrame) *)
Definition txres := (option N * N)%type.
Definition no_tx : txres := (None, 0).

Definition cap_add (a d : N) : N := N.min (a + d) varint_max.

(* ---------------------------------------------------------------- IncrementalValueSync *)

Record ivs := mkIvs { latest : N; ackd : N; thr : N; idel : delivery; ipn : N }.

Definition should_send (s : ivs) : bool :=
  if is_cancelled (idel s) then false else
  if negb (latest s =? ackd s) then
    match idel s with
    | InFlight v _ _ => thr s <=? latest s - v
    | _ => thr s <=? latest s - ackd s
    end
  else false.

Definition request_if (s : ivs) : ivs :=
  if should_send s then mkIvs (latest s) (ackd s) (thr s) (Requested (latest s)) (ipn s) else s.

Definition ivs_new (l a t : N) : ivs := request_if (mkIvs l a t NotRequested 0).

Definition ivs_step (s : ivs) (o : op) : ivs * txres :=
  match o with
  | OUpdate d =>
      (request_if (mkIvs (cap_add (latest s) d) (ackd s) (thr s) (idel s) (ipn s)), no_tx)
  | OTransmit c cap t =>
      if try_transmit (idel s) c then
        if cap then
          (mkIvs (latest s) (ackd s) (thr s) (InFlight (latest s) (ipn s) t) (ipn s + 1),
           (Some (latest s), 0))
        else (mkIvs (latest s) (ackd s) (thr s) (idel s) (ipn s + 1), (None, 1))
      else (mkIvs (latest s) (ackd s) (thr s) (idel s) (ipn s + 1), no_tx)
  | OAck lo hi =>
      match idel s with
      | InFlight v pn _ =>
          if in_range pn lo hi then (mkIvs (latest s) v (thr s) NotRequested (ipn s), no_tx)
          else (s, no_tx)
      | _ => (s, no_tx)
      end
  | OLoss lo hi =>
      match idel s with
      | InFlight v pn _ =>
          if in_range pn lo hi then (mkIvs (latest s) (ackd s) (thr s) (Lost (latest s)) (ipn s), no_tx)
          else (s, no_tx)
      | _ => (s, no_tx)
      end
  | OStop => (mkIvs (latest s) (ackd s) (thr s) (cancel (idel s)) (ipn s), no_tx)
  | _ => (s, no_tx)
  end.

Definition tx_ints (r : txres) : list Z :=
  match fst r with
  | Some v => [1%Z; Nz v; Nz (snd r)]
  | None => [0%Z; 0%Z; Nz (snd r)]
  end.

Definition ivs_obs (s : ivs) : list Z :=
  [Nz (interest (idel s)); bz (is_inflight (idel s)); bz (is_cancelled (idel s)); Nz (latest s)].

Fixpoint ivs_run_ops (s : ivs) (ops : list op) : list Z :=
  match ops with
  | [] => []
  | o :: t => let '(s', r) := ivs_step s o in tx_ints r ++ ivs_obs s' ++ ivs_run_ops s' t
  end.

(* ---------------------------------------------------------------- decoding of a case *)

(* argument decoding shared with the Rust driver: negative -> 0, capped *)
Definition argN (cap : N) (z : Z) : N := N.min (zN z) cap.
Definition arg (cap : N) (i : nat) (l : list Z) : N := argN cap (nth i l 0%Z).
Definition tmax : N := 1099511627776.      (* 2^40 us *)
Definition pmax : N := 4294967296.         (* 2^32 us *)
Definition rng_hi (lo n : N) : N := cap_add lo (n mod 4).

(* m = number of operation codes of the component (5 ivs, 6 osync, 8 psync); [timed] = whether
   on_transmit carries a time argument *)
Fixpoint parse (m : Z) (timed : bool) (fuel : nat) (l : list Z) : list op :=
  match fuel with O => [] | S fuel =>
  match l with
  | [] => []
  | c :: t =>
      match (c mod m)%Z with
      | 0%Z => (if (m =? 6)%Z then ORequest (arg varint_max 0 t) else OUpdate (arg varint_max 0 t))
               :: parse m timed fuel (skipn 1 t)
      | 1%Z => if timed
               then OTransmit (arg 3 0 t) (negb (arg 1 1 t =? 0)) (arg tmax 2 t) :: parse m timed fuel (skipn 3 t)
               else OTransmit (arg 3 0 t) (negb (arg 1 1 t =? 0)) 1000 :: parse m timed fuel (skipn 2 t)
      | 2%Z => OAck (arg varint_max 0 t) (rng_hi (arg varint_max 0 t) (arg varint_max 1 t))
               :: parse m timed fuel (skipn 2 t)
      | 3%Z => OLoss (arg varint_max 0 t) (rng_hi (arg varint_max 0 t) (arg varint_max 1 t))
               :: parse m timed fuel (skipn 2 t)
      | 4%Z => OStop :: parse m timed fuel t
      | 5%Z => if (m =? 6)%Z then OForce (arg varint_max 0 t) :: parse m timed fuel (skipn 1 t)
               else OSkip (arg tmax 0 t) :: parse m timed fuel (skipn 1 t)
      | 6%Z => OTimeout (arg tmax 0 t) :: parse m timed fuel (skipn 1 t)
      | _ => OPeriod (arg pmax 0 t) :: parse m timed fuel (skipn 1 t)
      end
  end end.

(* ivs case = [ackd; d0; threshold; ops..] *)
Definition ivs_init (l : list Z) : ivs :=
  let a := arg varint_max 0 l in
  ivs_new (cap_add a (arg varint_max 1 l)) a (arg varint_max 2 l).
Definition ivs_ops (l : list Z) : list op := parse 5 false (length l) (skipn 3 l).

Definition ivs_run (l : list Z) : list Z :=
  ivs_obs (ivs_init l) ++ ivs_run_ops (ivs_init l) (ivs_ops l).

(* ---- the property as an executable judgement on an implementation's output (ivs) ----
   The judge recomputes from the operations alone: the latest set value, the next packet number,
   the one outstanding frame (packet number, value) of the most recent write that has been neither
   acknowledged nor declared lost, whether the sync was stopped.  From the implementation's own
   previous record it takes the interest and in-flight flag.  The acknowledged value moves only
   when the implementation was in flight on the acknowledged packet. *)

Record ij := mkIj {
  jl : N; ja : N; jth : N; jout : option (N * N); jpn : N; jstop : bool; jint : Z; jinf : Z }.

Definition needs (l a th : N) : bool := negb (l =? a) && (th <=? l - a).

Definition zb (z : Z) : bool := (z =? 1)%Z.
Definition is01 (z : Z) : bool := (z =? 0)%Z || (z =? 1)%Z.

(* the demands that hold after every operation *)
Definition ivs_always (j : ij) (int inf can lat : Z) : bool :=
  (lat =? Nz (jl j))%Z && (can =? bz (jstop j))%Z && is01 inf
  && ((int =? 0) || (int =? 1) || (int =? 2))%Z
  (* in flight means: a frame this component wrote is outstanding *)
  && (if zb inf then match jout j with Some _ => true | None => false end else true)
  (* never stuck: an unacknowledged significant value is in flight or wanted *)
  && (if negb (jstop j) && needs (jl j) (ja j) (jth j) then negb (int =? 0)%Z || zb inf else true)
  (* an acknowledged value is not requested again *)
  && (if jl j =? ja j then (int =? 0)%Z && (inf =? 0)%Z else true).

Definition hit (o : option (N * N)) (lo hi : N) : bool :=
  match o with Some (p, _) => in_range p lo hi | None => false end.

Definition ivs_jstep (j : ij) (o : op) (f val res int inf can lat : Z) : option ij :=
  let '(ok, j') :=
    match o with
    | OUpdate d =>
        ((f =? 0)%Z, mkIj (cap_add (jl j) d) (ja j) (jth j) (jout j) (jpn j) (jstop j) int inf)
    | OTransmit c cap _ =>
        let opportunity :=
          negb (jstop j) && (((jint j =? 1)%Z && can_transmit c) || ((jint j =? 2)%Z && can_retransmit c)) in
        let wrote := (f =? 1)%Z in
        ((* a transmit opportunity makes progress *)
         (if opportunity && cap then wrote && (res =? 0)%Z && zb inf && (int =? 0)%Z else true)
         && (if opportunity && negb cap then (f =? 0)%Z && negb (int =? 0)%Z else true)
         (* what is transmitted is the latest set value; nothing is written without room *)
         && (if wrote then (val =? Nz (jl j))%Z && cap else (f =? 0)%Z),
         mkIj (jl j) (ja j) (jth j) (if wrote then Some (jpn j, jl j) else jout j) (jpn j + 1) (jstop j) int inf)
    | OAck lo hi =>
        if hit (jout j) lo hi then
          ((f =? 0)%Z,
           mkIj (jl j) (if zb (jinf j) then match jout j with Some (_, v) => N.max (ja j) v | None => ja j end else ja j)
                (jth j) None (jpn j) (jstop j) int inf)
        else ((f =? 0)%Z, mkIj (jl j) (ja j) (jth j) (jout j) (jpn j) (jstop j) int inf)
    | OLoss lo hi =>
        if hit (jout j) lo hi then
          ((f =? 0)%Z
           (* the loss of the frame in flight brings the interest back *)
           && (if zb (jinf j) && negb (jstop j) then negb (int =? 0)%Z && (inf =? 0)%Z else true),
           mkIj (jl j) (ja j) (jth j) None (jpn j) (jstop j) int inf)
        else ((f =? 0)%Z, mkIj (jl j) (ja j) (jth j) (jout j) (jpn j) (jstop j) int inf)
    | OStop => ((f =? 0)%Z, mkIj (jl j) (ja j) (jth j) (jout j) (jpn j) true int inf)
    | _ => ((f =? 0)%Z, mkIj (jl j) (ja j) (jth j) (jout j) (jpn j) (jstop j) int inf)
    end in
  if ok && ivs_always j' int inf can lat then Some j' else None.

Fixpoint ivs_judge_ops (j : ij) (ops : list op) (out : list Z) : bool :=
  match ops, out with
  | [], [] => true
  | o :: t, f :: val :: res :: int :: inf :: can :: lat :: out' =>
      match ivs_jstep j o f val res int inf can lat with
      | Some j' => ivs_judge_ops j' t out'
      | None => false
      end
  | _, _ => false
  end.

Definition ivs_judge (l out : list Z) : bool :=
  let a := arg varint_max 0 l in
  match out with
  | int :: inf :: can :: lat :: out' =>
      let j := mkIj (cap_add a (arg varint_max 1 l)) a (arg varint_max 2 l) None 0 false int inf in
      ivs_always j int inf can lat && (inf =? 0)%Z && ivs_judge_ops j (ivs_ops l) out'
  | _ => false
  end.

(* ---------------------------------------------------------------- OnceSync *)

Record osy := mkOsy { odel : delivery; opn : N }.
Definition osy_init : osy := mkOsy NotRequested 0.

(* returns the new state, the transmit result and whether on_packet_ack returned Ready *)
Definition osy_step (s : osy) (o : op) : osy * txres * bool :=
  match o with
  | ORequest v =>
      (match odel s with NotRequested => mkOsy (Requested v) (opn s) | _ => s end, no_tx, false)
  | OForce v => (mkOsy (Requested v) (opn s), no_tx, false)
  | OTransmit c cap t =>
      if try_transmit (odel s) c then
        match odel s with
        | Requested v | Lost v =>
            if cap then (mkOsy (InFlight v (opn s) t) (opn s + 1), (Some v, 0), false)
            else (mkOsy (odel s) (opn s + 1), (None, 1), false)
        | _ => (mkOsy (odel s) (opn s + 1), no_tx, false)
        end
      else (mkOsy (odel s) (opn s + 1), no_tx, false)
  | OAck lo hi =>
      match odel s with
      | InFlight v pn _ =>
          if in_range pn lo hi then (mkOsy (Delivered v) (opn s), no_tx, true) else (s, no_tx, false)
      | _ => (s, no_tx, false)
      end
  | OLoss lo hi =>
      match odel s with
      | InFlight v pn _ =>
          if in_range pn lo hi then (mkOsy (Lost v) (opn s), no_tx, false) else (s, no_tx, false)
      | _ => (s, no_tx, false)
      end
  | OStop => (mkOsy (cancel (odel s)) (opn s), no_tx, false)
  | _ => (s, no_tx, false)
  end.

Definition osy_obs (s : osy) : list Z :=
  [Nz (interest (odel s)); bz (is_inflight (odel s)); bz (is_cancelled (odel s))].

Fixpoint osy_run_ops (s : osy) (ops : list op) : list Z :=
  match ops with
  | [] => []
  | o :: t => let '(s', r, rdy) := osy_step s o in
              tx_ints r ++ osy_obs s' ++ [bz rdy] ++ osy_run_ops s' t
  end.

Definition osy_ops (l : list Z) : list op := parse 6 false (length l) l.
Definition osy_run (l : list Z) : list Z := osy_obs osy_init ++ osy_run_ops osy_init (osy_ops l).

(* judge: phase of the one delivery as the operations determine it *)
Inductive ophase := PIdle | PPending (v : N) | PDone | PStopped.

Record oj := mkOj { jph : ophase; oout : option (N * N); ojpn : N; oint : Z; oinf : Z }.

Definition osy_always (j : oj) (int inf can : Z) : bool :=
  is01 inf && is01 can && ((int =? 0) || (int =? 1) || (int =? 2))%Z
  && (if zb inf then match oout j with Some _ => true | None => false end else true)
  && match jph j with
     | PPending _ => (negb (int =? 0)%Z || zb inf) && (can =? 0)%Z   (* a requested delivery is never forgotten *)
     | PDone => (int =? 0)%Z && (inf =? 0)%Z && (can =? 0)%Z         (* nor repeated once acknowledged *)
     | PIdle => (int =? 0)%Z && (inf =? 0)%Z && (can =? 0)%Z
     | PStopped => (can =? 1)%Z
     end.

Definition osy_jstep (j : oj) (o : op) (f val res int inf can rdy : Z) : option oj :=
  let '(ok, j') :=
    match o with
    | ORequest v =>
        ((f =? 0)%Z && (rdy =? 0)%Z,
         mkOj (match jph j with PIdle => PPending v | p => p end) (oout j) (ojpn j) int inf)
    | OForce v => ((f =? 0)%Z && (rdy =? 0)%Z, mkOj (PPending v) (oout j) (ojpn j) int inf)
    | OTransmit c cap _ =>
        let opportunity :=
          match jph j with
          | PPending _ => ((oint j =? 1)%Z && can_transmit c) || ((oint j =? 2)%Z && can_retransmit c)
          | _ => false
          end in
        let wrote := (f =? 1)%Z in
        ((if opportunity && cap then wrote && (res =? 0)%Z && zb inf && (int =? 0)%Z else true)
         && (if opportunity && negb cap then (f =? 0)%Z && negb (int =? 0)%Z else true)
         && (if wrote then match jph j with PPending v => (val =? Nz v)%Z && cap | _ => false end else (f =? 0)%Z)
         && (rdy =? 0)%Z,
         mkOj (jph j) (if wrote then Some (ojpn j, 0) else oout j) (ojpn j + 1) int inf)
    | OAck lo hi =>
        if hit (oout j) lo hi then
          let done := zb (oinf j) && match jph j with PPending _ => true | _ => false end in
          ((f =? 0)%Z && (rdy =? bz done)%Z,
           mkOj (if done then PDone else jph j) None (ojpn j) int inf)
        else ((f =? 0)%Z && (rdy =? 0)%Z, mkOj (jph j) (oout j) (ojpn j) int inf)
    | OLoss lo hi =>
        if hit (oout j) lo hi then
          ((f =? 0)%Z && (rdy =? 0)%Z
           && (if zb (oinf j) && match jph j with PPending _ => true | _ => false end
               then (int =? 2)%Z && (inf =? 0)%Z else true),
           mkOj (jph j) None (ojpn j) int inf)
        else ((f =? 0)%Z && (rdy =? 0)%Z, mkOj (jph j) (oout j) (ojpn j) int inf)
    | OStop => ((f =? 0)%Z && (rdy =? 0)%Z, mkOj PStopped (oout j) (ojpn j) int inf)
    | _ => ((f =? 0)%Z && (rdy =? 0)%Z, mkOj (jph j) (oout j) (ojpn j) int inf)
    end in
  if ok && osy_always j' int inf can then Some j' else None.

Fixpoint osy_judge_ops (j : oj) (ops : list op) (out : list Z) : bool :=
  match ops, out with
  | [], [] => true
  | o :: t, f :: val :: res :: int :: inf :: can :: rdy :: out' =>
      match osy_jstep j o f val res int inf can rdy with
      | Some j' => osy_judge_ops j' t out'
      | None => false
      end
  | _, _ => false
  end.

Definition osy_judge (l out : list Z) : bool :=
  match out with
  | int :: inf :: can :: out' =>
      let j := mkOj PIdle None 0 int inf in
      osy_always j int inf can && osy_judge_ops j (osy_ops l) out'
  | _ => false
  end.

(* ---------------------------------------------------------------- PeriodicSync *)

Definition default_sync_period : N := Gen_C02.default_sync_period_ms * 1000.   (* DEFAULT_SYNC_PERIOD (999 ms), in us *)
Definition granularity : N := Gen_C02.granularity_ms * 1000.   (* K_GRANULARITY (1 ms) in us, Timestamp::has_elapsed *)
Definition tsn (t : N) : N := if t =? 0 then 1 else t.
Definition double16 (b : N) : N :=                          (* Counter<u16, Saturating> *= 2u16 *)
  N.min (b * Gen_C02.backoff_factor) (2 ^ Gen_C02.backoff_bits - 1).

Record psy := mkPsy {
  platest : N; pperiod : N; ptimer : option N; pdel : delivery; pdelivered : bool;
  pbackoff : N; ppn : N }.

Definition psy_init : psy := mkPsy 0 default_sync_period None NotRequested false Gen_C02.initial_backoff 0.

(* update_timer(now): delivery_timer.set(now + sync_period * backoff) *)
Definition arm (now period backoff : N) : option N := Some (tsn (now + period * backoff)).

(* Timer::poll_expiration(now).is_ready() *)
Definition expired (timer : option N) (now : N) : bool :=
  match timer with Some e => e <? now + granularity | None => false end.

Definition psy_step (s : psy) (o : op) : psy * txres :=
  match o with
  | OUpdate d =>
      let v := cap_add (platest s) d in
      let del := match pdel s with NotRequested | Cancelled _ => Requested v | x => x end in
      (mkPsy v (pperiod s) (ptimer s) del (pdelivered s) (pbackoff s) (ppn s), no_tx)
  | OSkip t =>
      match pdel s with
      | Requested _ | Lost _ =>
          let b := double16 (pbackoff s) in
          (mkPsy (platest s) (pperiod s) (arm (tsn t) (pperiod s) b) NotRequested (pdelivered s) b (ppn s), no_tx)
      | Delivered _ =>
          let b := double16 (pbackoff s) in
          (mkPsy (platest s) (pperiod s) (arm (tsn t) (pperiod s) b) (pdel s) (pdelivered s) b (ppn s), no_tx)
      | _ => (s, no_tx)
      end
  | OTimeout t =>
      if expired (ptimer s) (tsn t)
      then (mkPsy (platest s) (pperiod s) None (Requested (platest s)) (pdelivered s) (pbackoff s) (ppn s), no_tx)
      else (s, no_tx)
  | OStop => (mkPsy (platest s) (pperiod s) None (cancel (pdel s)) false Gen_C02.initial_backoff (ppn s), no_tx)
  | OAck lo hi =>
      match pdel s with
      | InFlight v pn t0 =>
          if in_range pn lo hi
          then (mkPsy (platest s) (pperiod s) (arm t0 (pperiod s) (pbackoff s)) (Delivered v) true (pbackoff s) (ppn s), no_tx)
          else (s, no_tx)
      | _ => (s, no_tx)
      end
  | OPeriod p => (mkPsy (platest s) p (ptimer s) (pdel s) (pdelivered s) (pbackoff s) (ppn s), no_tx)
  | OLoss lo hi =>
      match pdel s with
      | InFlight v pn _ =>
          if in_range pn lo hi
          then (mkPsy (platest s) (pperiod s) (ptimer s) (Lost v) (pdelivered s) (pbackoff s) (ppn s), no_tx)
          else (s, no_tx)
      | _ => (s, no_tx)
      end
  | OTransmit c cap t =>
      if try_transmit (pdel s) c then
        if cap then
          (mkPsy (platest s) (pperiod s) (ptimer s) (InFlight (platest s) (ppn s) (tsn t)) (pdelivered s)
                 (double16 (pbackoff s)) (ppn s + 1), (Some (platest s), 0))
        else (mkPsy (platest s) (pperiod s) (ptimer s) (pdel s) (pdelivered s) (pbackoff s) (ppn s + 1), (None, 1))
      else (mkPsy (platest s) (pperiod s) (ptimer s) (pdel s) (pdelivered s) (pbackoff s) (ppn s + 1), no_tx)
  | _ => (s, no_tx)
  end.

Definition psy_obs (s : psy) : list Z :=
  [Nz (interest (pdel s));
   bz (match ptimer s with Some _ => true | None => false end);
   Nz (match ptimer s with Some e => e | None => 0 end);
   bz (pdelivered s)].

Fixpoint psy_run_ops (s : psy) (ops : list op) : list Z :=
  match ops with
  | [] => []
  | o :: t => let '(s', r) := psy_step s o in tx_ints r ++ psy_obs s' ++ psy_run_ops s' t
  end.

Definition psy_ops (l : list Z) : list op := parse 8 true (length l) l.
Definition psy_run (l : list Z) : list Z := psy_obs psy_init ++ psy_run_ops psy_init (psy_ops l).

(* judge: active = request_delivery was called since the start / the last stop_sync *)
Record pj := mkPj {
  pjl : N; pjact : bool; pjout : option (N * N); pjpn : N; pjint : Z; pjarm : Z; pjexp : Z }.

Definition psy_always (j : pj) (int arm : Z) : bool :=
  is01 arm && ((int =? 0) || (int =? 1) || (int =? 2))%Z
  (* a pending periodic delivery is wanted, in flight, or waits for an armed timer *)
  && (if pjact j then negb (int =? 0)%Z || zb arm || match pjout j with Some _ => true | None => false end
      else true).

Definition psy_jstep (j : pj) (o : op) (f val res int arm exp dlv : Z) : option pj :=
  let '(ok, j') :=
    match o with
    | OUpdate d =>
        ((f =? 0)%Z, mkPj (cap_add (pjl j) d) true (pjout j) (pjpn j) int arm exp)
    | OTransmit c cap _ =>
        let opportunity := ((pjint j =? 1)%Z && can_transmit c) || ((pjint j =? 2)%Z && can_retransmit c) in
        let wrote := (f =? 1)%Z in
        ((if opportunity && cap then wrote && (res =? 0)%Z && (int =? 0)%Z else true)
         && (if opportunity && negb cap then (f =? 0)%Z && negb (int =? 0)%Z else true)
         && (if wrote then (val =? Nz (pjl j))%Z && cap else (f =? 0)%Z),
         mkPj (pjl j) (pjact j) (if wrote then Some (pjpn j, 0) else pjout j) (pjpn j + 1) int arm exp)
    | OAck lo hi =>
        if hit (pjout j) lo hi then
          (* acknowledged: the next period's timer is armed *)
          ((f =? 0)%Z && zb arm && zb dlv, mkPj (pjl j) (pjact j) None (pjpn j) int arm exp)
        else ((f =? 0)%Z, mkPj (pjl j) (pjact j) (pjout j) (pjpn j) int arm exp)
    | OLoss lo hi =>
        if hit (pjout j) lo hi then
          ((f =? 0)%Z && (int =? 2)%Z, mkPj (pjl j) (pjact j) None (pjpn j) int arm exp)
        else ((f =? 0)%Z, mkPj (pjl j) (pjact j) (pjout j) (pjpn j) int arm exp)
    | OStop => ((f =? 0)%Z && (int =? 0)%Z && (arm =? 0)%Z, mkPj (pjl j) false None (pjpn j) int arm exp)
    | OSkip _ =>
        if (pjint j =? 0)%Z then ((f =? 0)%Z, mkPj (pjl j) (pjact j) (pjout j) (pjpn j) int arm exp)
        else ((f =? 0)%Z && zb arm, mkPj (pjl j) (pjact j) None (pjpn j) int arm exp)
    | OTimeout t =>
        (* the timer the implementation reported fires: the value is requested again *)
        if zb (pjarm j) && (pjexp j <? Nz (tsn t + granularity))%Z
        then ((f =? 0)%Z && (int =? 1)%Z, mkPj (pjl j) (pjact j) None (pjpn j) int arm exp)
        else ((f =? 0)%Z, mkPj (pjl j) (pjact j) (pjout j) (pjpn j) int arm exp)
    | _ => ((f =? 0)%Z, mkPj (pjl j) (pjact j) (pjout j) (pjpn j) int arm exp)
    end in
  if ok && psy_always j' int arm then Some j' else None.

Fixpoint psy_judge_ops (j : pj) (ops : list op) (out : list Z) : bool :=
  match ops, out with
  | [], [] => true
  | o :: t, f :: val :: res :: int :: arm :: exp :: dlv :: out' =>
      match psy_jstep j o f val res int arm exp dlv with
      | Some j' => psy_judge_ops j' t out'
      | None => false
      end
  | _, _ => false
  end.

Definition psy_judge (l out : list Z) : bool :=
  match out with
  | int :: arm :: exp :: dlv :: out' =>
      let j := mkPj 0 false None 0 int arm exp in
      psy_always j int arm && psy_judge_ops j (psy_ops l) out'
  | _ => false
  end.
