(* Model of the receive half of space/crypto_stream.rs (CryptoStream::on_crypto_frame before
   `finish`, over the Reassembler), the reads of the TLS session context (rx.pop_watermarked), and
   the property as an executable judgement.  Executable definitions only. *)
From SQ Require Import lib.Base gen.Gen_C04 model.FlowRecv.
Local Open Scope N_scope.

Definition LIMIT : N := crypto_rx_limit.           (* MAX_CRYPTO_BUFFER_SIZE *)
Definition E_CRYPTO : N := code_crypto_buffer_exceeded.

Record cst := { ccon : N;            (* Reassembler consumed_len: bytes TLS has taken *)
                cmax : N;            (* highest offset accepted so far (max_recv_offset) *)
                csegs : list seg }.  (* buffered bytes, as in model/FlowRecv.v *)

Definition cinit : cst := {| ccon := 0; cmax := 0; csegs := [] |}.

(* on_crypto_frame: None = CRYPTO_BUFFER_EXCEEDED *)
Definition on_crypto (s : cst) (off len : N) : option cst :=
  let e := off + len in
  if varint_max <? e then None                          (* checked_add_usize fails *)
  else if LIMIT <? e - ccon s then None                 (* end_offset.saturating_sub(consumed_len) > MAX *)
  else Some {| ccon := ccon s; cmax := N.max (cmax s) e;
               csegs := ins (N.max off (ccon s)) e 0 (csegs s) |}.

Definition consume (s : cst) (n : N) : N * cst :=
  let '(_, pos, l) := take (ccon s) n (csegs s) in
  (pos - ccon s, {| ccon := pos; cmax := cmax s; csegs := l |}).

Definition buffered_in_order (s : cst) : N := contig (ccon s) (csegs s) - ccon s.

Inductive cop := CFrame (off len : N) | CConsume (n : N).

Fixpoint cparse (fuel : nat) (l : list Z) : list cop :=
  match fuel with
  | O => []
  | S f =>
    match l with
    | [] => []
    | k :: r =>
      let a := hd 0%Z r in let r1 := tl r in
      let b := hd 0%Z r1 in let r2 := tl r1 in
      if (k =? 1)%Z then CFrame (N.min (zN a) varint_max) (N.min (zN b) max_len) :: cparse f r2
      else if (k =? 2)%Z then CConsume (zN a) :: cparse f r1
      else []
    end
  end.

(* output per frame: code, and when accepted the in-order bytes now waiting and the bytes consumed;
   per read: bytes taken.  A rejected frame ends the case (the connection is closed). *)
Fixpoint csteps (s : cst) (ops : list cop) : list Z :=
  match ops with
  | [] => []
  | CFrame off len :: r =>
      match on_crypto s off len with
      | None => [Nz E_CRYPTO]
      | Some s' => 0%Z :: Nz (buffered_in_order s') :: csteps s' r
      end
  | CConsume n :: r => let '(k, s') := consume s n in Nz k :: csteps s' r
  end.

Definition crun (c : list Z) : list Z := csteps cinit (cparse (length c) c).

(* ---- judgement, from the operations and the implementation's answers alone ----
   RFC 9000 7.5: "Implementations MUST support buffering at least 4096 bytes of data received in
   out-of-order CRYPTO frames.  Endpoints MAY choose to allow more data to be buffered during the
   handshake. ... If an endpoint does not expand its buffer, it MUST close the connection with a
   CRYPTO_BUFFER_EXCEEDED error code."  Property: no peer can make the endpoint buffer more than
   the configured window (LIMIT, read from the source).
   * a frame reaching beyond consumed + LIMIT (or beyond 2^62-1) must be rejected, with
     CRYPTO_BUFFER_EXCEEDED (0x0d), FRAME_ENCODING_ERROR for the overflow, or a generic code;
   * a frame within consumed + 4096 must be accepted; in between the endpoint may choose;
   * the in-order bytes reported as waiting never exceed LIMIT nor what was accepted;
   * a read takes at most what was asked for and what was accepted. *)
Definition rfc_min_buffer : N := 4096.

Fixpoint cjudge_ops (con hi : N) (ops : list cop) (out : list Z) : bool :=
  match ops with
  | [] => match out with [] => true | _ => false end
  | CFrame off len :: r =>
      let e := off + len in
      let over := (varint_max <? e) || (con + LIMIT <? e) in
      match out with
      | [] => false
      | c :: out' =>
          if (c =? 0)%Z then
            match out' with
            | b :: out'' =>
                negb over && (0 <=? b)%Z && (zN b <=? LIMIT) && (zN b <=? N.max hi e - con)
                && cjudge_ops con (N.max hi e) r out''
            | [] => false
            end
          else
            (* rejected: not a frame the RFC obliges every endpoint to buffer, and a permitted code *)
            negb ((e <=? con + rfc_min_buffer) && (e <=? varint_max))
            && ((c =? 13)%Z || (c =? 10)%Z || (c =? 1)%Z || ((varint_max <? e) && (c =? 7)%Z))
            && match out' with [] => true | _ => false end
      end
  | CConsume n :: r =>
      match out with
      | k :: out' => (0 <=? k)%Z && (zN k <=? n) && (con + zN k <=? hi) && cjudge_ops (con + zN k) hi r out'
      | [] => false
      end
  end.

Definition cjudge (c out : list Z) : bool := cjudge_ops 0 0 (cparse (length c) c) out.
