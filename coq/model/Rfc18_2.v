(* RFC 9000 sections 7.4, 16, 18 and 18.2 as an acceptance table for a block of transport parameters,
   written from the RFC text (and specs/www.rfc-editor.org/rfc/rfc9000/18.2.toml), not from the code:
   nothing here mentions a generated constant or a definition of model/TransportParams.v.

   The verdict is three-valued: the RFC obliges the receiver to accept (MustAccept), obliges it to fail
   the handshake (MustReject), or says nothing (Unspecified).  Unspecified is used for exactly:
     - max_udp_payload_size above 65527 ("the maximum permitted UDP payload"; only values below 1200
       are declared invalid),
     - a preferred_address whose IPv4 and IPv6 parts are both all-zero,
     - a repeated parameter the receiver does not know (7.4: duplicates SHOULD be treated as an error,
       7.4.2: unknown parameters MUST be ignored).
   Parameters of extensions this endpoint supports (RFC 9221 max_datagram_frame_size 0x20; the private
   s2n-quic ids 0xdc0000, 0xdc0002) follow the extension's format.

   Executable definitions only. *)
From SQ Require Import lib.Base lib.C14Fmt.
Local Open Scope N_scope.

Inductive verdict := MustAccept | MustReject | Unspecified.

(* RFC 9000 section 16: the two most significant bits of the first byte give the length 1, 2, 4, 8;
   the value is the remaining bits in network byte order.  No minimal-encoding requirement. *)
Definition rvi (b : list N) : option (N * list N) :=
  match b with
  | [] => None
  | h :: _ =>
      let n := 2 ^ (h / 64) in
      if len b <? n then None
      else Some (be (take n b) mod 2 ^ (8 * n - 2), drop n b)
  end.

(* Figure 20/21: a sequence of (id (i), length (i), value (length bytes)) *)
Fixpoint rfc_entries (fuel : nat) (b : list N) : option (list (N * list N)) :=
  match fuel with
  | O => None
  | S k =>
      if is_nil b then Some [] else
      match rvi b with
      | None => None
      | Some (id, b1) =>
          match rvi b1 with
          | None => None
          | Some (l, b2) =>
              if len b2 <? l then None else
              match rfc_entries k (drop l b2) with
              | None => None
              | Some es => Some ((id, take l b2) :: es)
              end
          end
      end
  end.

(* an integer-valued parameter: the value field is exactly one variable-length integer *)
Definition rint (v : list N) : option N :=
  match rvi v with Some (x, []) => Some x | _ => None end.

Definition int_rule (ok : N -> bool) (v : list N) : verdict :=
  match rint v with
  | None => MustReject
  | Some x => if ok x then MustAccept else MustReject
  end.

Definition cid_rule (lo hi : N) (v : list N) : verdict :=
  if (lo <=? len v) && (len v <=? hi) then MustAccept else MustReject.

Definition flag_rule (v : list N) : verdict := if is_nil v then MustAccept else MustReject.

Definition server_only (from_server : bool) (r : verdict) : verdict :=
  if from_server then r else MustReject.

(* 18.2 preferred_address: IPv4 (32) port (16) IPv6 (128) port (16) cid length (8) cid (..) token (128) *)
Definition pref_cid_len (v : list N) : N := nth 24 v 0.
Definition pref_wellformed (v : list N) : bool :=
  (25 <=? len v) && (len v =? 25 + pref_cid_len v + 16) && (pref_cid_len v <=? 20).
Definition pref_rule (v : list N) : verdict :=
  if negb (pref_wellformed v) then MustReject
  else if pref_cid_len v =? 0 then MustReject            (* MUST NOT include a zero-length connection ID *)
  else if all_zero (take 24 v) then Unspecified
  else MustAccept.

(* 0xdc0000 (s2n-quic dc versions): variable-length integers, each a 32-bit version; a receiver
   reads the first four and ignores what follows *)
Fixpoint dc_rule (fuel : nat) (n : nat) (v : list N) : verdict :=
  match fuel with
  | O => MustReject
  | S k =>
      if is_nil v then MustAccept else
      match n with
      | O => MustAccept
      | S n' =>
          match rvi v with
          | None => MustReject
          | Some (x, r) => if x <=? 4294967295 then dc_rule k n' r else MustReject
          end
      end
  end.

Inductive rule :=
  | RInt (lo hi : N) (soft_hi : bool)   (* lo <= x <= hi accepted; above hi: rejected, or unspecified when soft *)
  | RCid (lo hi : N) (server : bool)
  | RToken (server : bool)
  | RFlag
  | RPref
  | RDc.

Definition two62 : N := 4611686018427387903.   (* the largest variable-length integer *)

(* id -> rule; RFC 9000 section 18.2 in the order of the RFC *)
Definition rfc_table : list (N * rule) :=
  [ (0,  RCid 8 20 true)                (* original_destination_connection_id; 7.2: the first Initial's
                                           Destination Connection ID is at least 8 bytes; 17.2: at most 20 *)
  ; (1,  RInt 0 two62 false)            (* max_idle_timeout *)
  ; (2,  RToken true)                   (* stateless_reset_token: 16 bytes, server only *)
  ; (3,  RInt 1200 65527 true)          (* max_udp_payload_size: below 1200 invalid *)
  ; (4,  RInt 0 two62 false)            (* initial_max_data *)
  ; (5,  RInt 0 two62 false)            (* initial_max_stream_data_bidi_local *)
  ; (6,  RInt 0 two62 false)            (* initial_max_stream_data_bidi_remote *)
  ; (7,  RInt 0 two62 false)            (* initial_max_stream_data_uni *)
  ; (8,  RInt 0 1152921504606846976 false)   (* initial_max_streams_bidi: greater than 2^60 is an error *)
  ; (9,  RInt 0 1152921504606846976 false)   (* initial_max_streams_uni *)
  ; (10, RInt 0 20 false)               (* ack_delay_exponent: above 20 invalid *)
  ; (11, RInt 0 16383 false)            (* max_ack_delay: 2^14 or greater invalid *)
  ; (12, RFlag)                         (* disable_active_migration: zero-length *)
  ; (13, RPref)                         (* preferred_address: server only *)
  ; (14, RInt 2 two62 false)            (* active_connection_id_limit: at least 2 *)
  ; (15, RCid 0 20 false)               (* initial_source_connection_id *)
  ; (16, RCid 0 20 true)                (* retry_source_connection_id: server only *)
  ; (32, RInt 0 two62 false)            (* RFC 9221 max_datagram_frame_size *)
  ; (14417920, RDc)                     (* 0xdc0000 *)
  ; (14417922, RFlag)                   (* 0xdc0002 *)
  ].

Definition rfc_rule (id : N) : option rule :=
  match find (fun e => fst e =? id) rfc_table with Some e => Some (snd e) | None => None end.

Definition apply_rule (from_server : bool) (r : rule) (v : list N) : verdict :=
  match r with
  | RInt lo hi soft =>
      match rint v with
      | None => MustReject
      | Some x => if x <? lo then MustReject else if x <=? hi then MustAccept
                  else if soft then Unspecified else MustReject
      end
  | RCid lo hi so => (if so then server_only from_server else fun r => r) (cid_rule lo hi v)
  | RToken so => (if so then server_only from_server else fun r => r)
                   (if len v =? 16 then MustAccept else MustReject)
  | RFlag => flag_rule v
  | RPref => server_only from_server (pref_rule v)
  | RDc => dc_rule (S (length v)) 4 v
  end.

(* 7.4.2: an endpoint MUST ignore transport parameters that it does not support *)
Definition entry_verdict (from_server : bool) (e : N * list N) : verdict :=
  match rfc_rule (fst e) with
  | Some r => apply_rule from_server r (snd e)
  | None => MustAccept
  end.

Definition known (id : N) : bool := match rfc_rule id with Some _ => true | None => false end.

(* 7.4: an endpoint MUST NOT send a parameter more than once *)
Fixpoint dup_known (es : list (N * list N)) : bool :=
  match es with
  | [] => false
  | e :: t => (known (fst e) && existsb (fun x => fst x =? fst e) t) || dup_known t
  end.
Fixpoint dup_unknown (es : list (N * list N)) : bool :=
  match es with
  | [] => false
  | e :: t => (negb (known (fst e)) && existsb (fun x => fst x =? fst e) t) || dup_unknown t
  end.

Definition is_reject (v : verdict) : bool := match v with MustReject => true | _ => false end.
Definition is_unspec (v : verdict) : bool := match v with Unspecified => true | _ => false end.

Definition entries_verdict (from_server : bool) (es : list (N * list N)) : verdict :=
  if dup_known es || existsb (fun e => is_reject (entry_verdict from_server e)) es then MustReject
  else if dup_unknown es || existsb (fun e => is_unspec (entry_verdict from_server e)) es then Unspecified
  else MustAccept.

Definition rfc_verdict (from_server : bool) (blk : list N) : verdict :=
  match rfc_entries (S (length blk)) blk with
  | None => MustReject
  | Some es => entries_verdict from_server es
  end.

(* ---- the values a receiver must operate under: declared, or the RFC default ---- *)
Definition declared (id : N) (es : list (N * list N)) : option (list N) :=
  match find (fun e => fst e =? id) es with Some e => Some (snd e) | None => None end.

Definition int_or (id dflt : N) (es : list (N * list N)) : N :=
  match declared id es with
  | Some v => match rint v with Some x => x | None => dflt end
  | None => dflt
  end.

Definition present (id : N) (es : list (N * list N)) : bool :=
  match declared id es with Some _ => true | None => false end.

Definition exp_bytes (id : N) (es : list (N * list N)) : list Z :=
  match declared id es with
  | Some v => [1%Z; Nz (len v); Nz (ck v)]
  | None => [0; 0; 0]%Z
  end.

Definition exp_pref (es : list (N * list N)) : list Z :=
  match declared 13 es with
  | Some v =>
      let a4 := take 6 v in let a6 := take 18 (drop 6 v) in
      let l := pref_cid_len v in
      [1%Z]
      ++ (if all_zero a4 then [0; 0; 0]%Z else [1%Z; Nz (be (take 4 a4)); Nz (be (drop 4 a4))])
      ++ (if all_zero a6 then [0; 0; 0]%Z else [1%Z; Nz (ck (take 16 a6)); Nz (be (drop 16 a6))])
      ++ [Nz l; Nz (ck (take l (drop 25 v))); Nz (ck (take 16 (drop (25 + l) v)))]
  | None => [0; 0; 0; 0; 0; 0; 0; 0; 0; 0]%Z
  end.

Fixpoint dc_versions (fuel : nat) (n : nat) (v : list N) : list N :=
  match fuel, n with
  | S k, S n' => match rvi v with Some (x, r) => x :: dc_versions k n' r | None => [] end
  | _, _ => []
  end.
Definition exp_vers (es : list (N * list N)) : list Z :=
  let l := match declared 14417920 es with Some v => dc_versions (S (length v)) 4 v | None => [] end in
  Nz (len l) :: map (fun i => Nz (nth i l 0)) [0; 1; 2; 3]%nat.

(* 10.1: the effective idle timeout is the minimum of the two advertised values, or the sole
   non-zero one *)
Definition effective_idle (mine peer : N) : N :=
  if peer =? 0 then mine else if mine =? 0 then peer else N.min mine peer.

(* what an accepting receiver must report for the block, in the harness' output format; [mine] is
   the receiver's own idle timeout before the peer's value is loaded *)
Definition expected (es : list (N * list N)) (mine : N) : list Z :=
  let idle := int_or 1 0 es in
  let udp := int_or 3 65527 es in
  let max_data := int_or 4 0 es in
  let sdbl := int_or 5 0 es in let sdbr := int_or 6 0 es in let sdu := int_or 7 0 es in
  let sbidi := int_or 8 0 es in let suni := int_or 9 0 es in
  let dgram := int_or 32 0 es in
  let ade := int_or 10 3 es in
  let mad := int_or 11 25 es in
  let acl := int_or 14 2 es in
  [1%Z; Nz idle; Nz udp; Nz max_data; Nz sdbl; Nz sdbr; Nz sdu; Nz sbidi; Nz suni; Nz dgram; Nz ade; Nz mad;
   bz (present 12 es); Nz acl]
  ++ exp_bytes 0 es ++ exp_bytes 2 es ++ exp_pref es ++ exp_bytes 15 es ++ exp_bytes 16 es
  ++ exp_vers es ++ [bz (present 14417922 es)]
  ++ [Nz max_data; Nz sdbl; Nz sdbr; Nz sdu; Nz sbidi; Nz suni]
  ++ [Nz (mad * 1000); Nz ade]
  ++ [Nz (N.min dgram udp)]
  ++ [Nz acl; Nz dgram]
  ++ [Nz mine; Nz (effective_idle mine idle)].

Fixpoint list_Z_eqb (a b : list Z) : bool :=
  match a, b with
  | [], [] => true
  | x :: a', y :: b' => (x =? y)%Z && list_Z_eqb a' b'
  | _, _ => false
  end.

(* position of the receiver's own idle timeout in the output *)
Definition mine_of (out : list Z) : N := zN (nth 53 out 0%Z).

Definition rejected (out : list Z) : bool := (hd 1%Z out =? 0)%Z.

(* the property as a judgement on an implementation's output for the case (role :: block bytes) *)
Definition judge (c out : list Z) : bool :=
  let from_server := negb (hd 0%Z c =? 0)%Z in
  let blk := map zN (tl c) in
  match rfc_entries (S (length blk)) blk with
  | None => rejected out
  | Some es =>
      let ok := list_Z_eqb out (expected es (mine_of out)) in
      match entries_verdict from_server es with
      | MustReject => rejected out
      | MustAccept => ok
      | Unspecified => rejected out || ok
      end
  end.

(* ---- RFC 9000 section 7.3: authenticating connection ids (component `sess`) ----
   case = role :: retry_flag :: retry_len :: retry.. :: odcid_len :: odcid.. :: peer_len :: peer.. :: block..
   role 0: a server receives a client's block; otherwise a client receives a server's block.
   "An endpoint MUST treat the following as a connection error of type TRANSPORT_PARAMETER_ERROR or
    PROTOCOL_VIOLATION: absence of initial_source_connection_id from either endpoint; absence of
    original_destination_connection_id from the server; absence of retry_source_connection_id from the
    server after receiving a Retry; presence of retry_source_connection_id when no Retry was received;
    a mismatch between values received in these parameters and the value sent in the corresponding
    Destination or Source Connection ID fields of Initial packets." *)
Definition pad_take (n : nat) (l : list Z) : list Z := firstn n (l ++ repeat 0%Z n).
Definition field_bytes (l : list Z) : list N * list Z :=
  let n := N.to_nat (N.min (zN (hd 0%Z l)) 64) in
  (map zN (pad_take n (tl l)), skipn n (tl l)).

Fixpoint bytes_eqb (a b : list N) : bool :=
  match a, b with
  | [], [] => true
  | x :: a', y :: b' => (x =? y) && bytes_eqb a' b'
  | _, _ => false
  end.

Definition declared_is (id : N) (es : list (N * list N)) (v : list N) : bool :=
  match declared id es with Some d => bytes_eqb d v | None => false end.

(* does 7.3 oblige the receiver to fail the handshake? *)
Definition auth_fails (from_server : bool) (es : list (N * list N))
    (retry : option (list N)) (odcid peer : list N) : bool :=
  negb (declared_is 15 es peer)
  || (from_server &&
      (negb (declared_is 0 es odcid)
       || match retry with
          | Some r => negb (declared_is 16 es r)
          | None => present 16 es
          end)).

Definition failed_with_permitted_code (out : list Z) : bool :=
  match out with
  | [1%Z; code] => (code =? 8)%Z || (code =? 10)%Z    (* TRANSPORT_PARAMETER_ERROR / PROTOCOL_VIOLATION *)
  | _ => false
  end.

Definition judge_sess (c out : list Z) : bool :=
  let from_server := negb (hd 0%Z c =? 0)%Z in
  let c1 := tl c in
  let retry_flag := negb (hd 0%Z c1 =? 0)%Z in
  let '(retry, c2) := field_bytes (tl c1) in
  let '(odcid, c3) := field_bytes c2 in
  let '(peer, c4) := field_bytes c3 in
  let blk := map zN c4 in
  match rfc_entries (S (length blk)) blk with
  | None => failed_with_permitted_code out
  | Some es =>
      let continues := list_Z_eqb out [0%Z] in
      if auth_fails from_server es (if retry_flag then Some retry else None) odcid peer
      then failed_with_permitted_code out
      else match entries_verdict from_server es with
           | MustReject => failed_with_permitted_code out
           | MustAccept => continues
           | Unspecified => continues || failed_with_permitted_code out
           end
  end.
