(* Model, at operation granularity, of the platform socket ring and the rx socket task that feeds it:
   quic/s2n-quic-platform/src/socket/ring.rs (pair, Producer/Consumer::{poll_acquire, release,
   release_no_wake, wake, data, is_open}, the two atomic_waker pairs and their drop behaviour) over
   sync/cursor.rs (CursorRing.v), and quic/s2n-quic-platform/src/socket/task/rx.rs
   (Receiver::poll with its poll_ring!/drain_socket! loop and the deferred `pending_wake`).
   The socket is a script: each recv call either fills min(v, free entries) messages or reports
   `blocked`.  Cooldown::default() (limit 0: always Sleep), normal (single socket) mode.
   The deferred consumer wake-up on the early-return path of poll_ring! is generated from the source
   (Gen_C17.rx_early_return_wakes).  Sequential model: the wakers are AtomicWakers used from one
   thread (register = fill the cell, wake = take it and invoke).  Executable definitions only. *)
From SQ Require Import lib.Base gen.Gen_C17.
From SQ Require Import model.CursorRing.
Local Open Scope N_scope.

Record rst := mkR {
  cur : cst;                 (* the shared cursor ring *)
  cw : bool;                 (* consumer's waker registered (wakers pair, consumer side) *)
  pw : bool;                 (* task's waker registered (wakers pair, producer side) *)
  dw : bool;                 (* task's waker registered on the drop-waker pair *)
  ropen : bool;              (* wakers.is_open(): the consumer has not been dropped *)
  has_dw : bool;             (* Receiver::has_registered_drop_waker *)
  cwakes : N; twakes : N;
  released : N               (* ghost: total messages released into the ring by the task *)
}.

Definition rinit (size : N) : rst := mkR (cinit size) false false false true false 0 0 0.

Definition early_wakes : bool := match Gen_C17.rx_early_return_wakes with 1 => true | _ => false end.

(* Producer::wake(): wake the consumer's registered waker *)
Definition wake_consumer (s : rst) : rst :=
  if cw s then mkR (cur s) false (pw s) (dw s) (ropen s) (has_dw s) (cwakes s + 1) (twakes s) (released s) else s.
Definition wake_task (s : rst) : rst :=
  if pw s then mkR (cur s) (cw s) false (dw s) (ropen s) (has_dw s) (cwakes s) (twakes s + 1) (released s) else s.
Definition set_cur (c : cst) (s : rst) : rst :=
  mkR c (cw s) (pw s) (dw s) (ropen s) (has_dw s) (cwakes s) (twakes s) (released s).

Definition u32max : N := 4294967295.

(* Producer::poll_acquire(u32::MAX, cx) as used by poll_ring: Some count / None = Pending *)
Definition producer_poll_acquire (size : N) (s : rst) : rst * N :=
  let '(c1, n1) := acquire_producer size u32max (cur s) in
  if 0 <? n1 then (set_cur c1 s, n1) else
  let s1 := mkR c1 (cw s) true (dw s) (ropen s) (has_dw s) (cwakes s) (twakes s) (released s) in   (* register *)
  let '(c2, n2) := acquire_producer size u32max c1 in
  (set_cur c2 s1, n2).

(* the loop of Receiver::poll (normal mode): result code 0 = Pending, 1 = Ready(None) *)
Fixpoint rx_loop (fuel : nat) (size : N) (script : list N) (pending_wake : bool) (s : rst) : rst * N :=
  match fuel with
  | O => (s, 7)
  | S f =>
    (* poll_ring!() *)
    let '(s1, n) := producer_poll_acquire size s in
    if n =? 0 then
      if negb (ropen s1) then (s1, 1)                                   (* Pending && !is_open => return None *)
      else ((if pending_wake && early_wakes then wake_consumer s1 else s1), 0)
    else
    (* drain_socket!(): entries = ring.data() *)
    let free := p_len (cur s1) in
    match script with
    | [] | 0 :: _ =>                                                    (* events.blocked() *)
        let s2 := if pending_wake then wake_consumer s1 else s1 in
        (s2, if ropen s2 then 0 else 1)
    | v :: rest =>
        let cnt := N.min v free in
        let '(c2, _) := produce size cnt (cur s1) in                    (* release_no_wake(count) *)
        let s2 := mkR c2 (cw s1) (pw s1) (dw s1) (ropen s1) (has_dw s1) (cwakes s1) (twakes s1) (released s1 + cnt) in
        rx_loop f size rest true s2
    end
  end.

Definition task_poll (size : N) (script : list N) (s : rst) : rst * N :=
  let s0 := if has_dw s then s
            else mkR (cur s) (cw s) (pw s) true (ropen s) true (cwakes s) (twakes s) (released s) in
  rx_loop (S (S (length script))) size script false s0.

(* Consumer::poll_acquire(watermark, cx) *)
Definition consumer_poll_acquire (size w : N) (s : rst) : rst * N * N :=
  let '(c1, n1) := acquire_consumer size w (cur s) in
  if 0 <? n1 then (set_cur c1 s, 1, n1) else
  let s1 := mkR c1 true (pw s) (dw s) (ropen s) (has_dw s) (cwakes s) (twakes s) (released s) in
  let '(c2, n2) := acquire_consumer size w c1 in
  if 0 <? n2 then (set_cur c2 s1, 1, n2) else (set_cur c2 s1, 0, 0).

(* Consumer::release(n): release_no_wake(n); wake() *)
Definition consumer_release (size n : N) (s : rst) : rst :=
  let n := N.min n (c_len (cur s)) in
  let '(c1, _) := consume size n (cur s) in
  wake_task (set_cur c1 s).

(* drop(consumer): wakers handle (is_open := false, wake the task's waker), then the drop-waker handle *)
Definition consumer_drop (s : rst) : rst :=
  let s1 := wake_task (mkR (cur s) (cw s) (pw s) (dw s) false (has_dw s) (cwakes s) (twakes s) (released s)) in
  if dw s1 then mkR (cur s1) (cw s1) (pw s1) false (ropen s1) (has_dw s1) (cwakes s1) (twakes s1 + 1) (released s1) else s1.

(* case = [log2 entries; (op, a, b)*]:
   0 a b  task poll, the socket delivers a then b messages (0 = blocked), then is blocked
          -> code, messages released in this poll, consumer wakes, task wakes
   1 w _  consumer poll_acquire(max w 1) -> code (0 Pending, 1 Ready), count, wakes
   2 n _  consumer release(min n acquired) -> 0, n, wakes
   3 _ _  drop the consumer (9 when already gone) *)
Fixpoint rrun (fuel : nat) (size : N) (ops : list Z) (alive : bool) (s : rst) : list Z :=
  match fuel with O => [] | S f =>
  match ops with
  | [] => []
  | op :: r =>
    let a := N.min (zN (hd 0%Z r)) 100000 in
    let b := N.min (zN (hd 0%Z (tl r))) 100000 in
    let r' := tl (tl r) in
    match op with
    | 0%Z =>
        let '(s', code) := task_poll size [a; b] s in
        [Nz code; Nz (released s' - released s); Nz (cwakes s'); Nz (twakes s')] ++ rrun f size r' alive s'
    | 1%Z =>
        if negb alive then [9%Z; 0%Z; Nz (cwakes s); Nz (twakes s)] ++ rrun f size r' alive s else
        let '(s', code, n) := consumer_poll_acquire size (N.max a 1) s in
        [Nz code; Nz n; Nz (cwakes s'); Nz (twakes s')] ++ rrun f size r' alive s'
    | 2%Z =>
        if negb alive then [9%Z; 0%Z; Nz (cwakes s); Nz (twakes s)] ++ rrun f size r' alive s else
        let n := N.min a (c_len (cur s)) in
        let s' := consumer_release size a s in
        [0%Z; Nz n; Nz (cwakes s'); Nz (twakes s')] ++ rrun f size r' alive s'
    | _ =>
        if negb alive then [9%Z; 0%Z; Nz (cwakes s); Nz (twakes s)] ++ rrun f size r' alive s else
        let s' := consumer_drop s in
        [0%Z; 0%Z; Nz (cwakes s'); Nz (twakes s')] ++ rrun f size r' false s'
    end
  end end.

Definition rsize (case : list Z) : N := 2 ^ (N.min (zN (hd 0%Z case)) 6).
Definition run (case : list Z) : list Z := rrun (S (length case)) (rsize case) (tl case) true (rinit (rsize case)).

(* the property on an implementation's output: a consumer whose last poll_acquire returned Pending is
   woken no later than the end of the first task poll that releases a message into the ring; what the
   consumer is handed never exceeds what was released and not yet consumed *)
Fixpoint rjudge (fuel : nat) (ops : list Z) (wait : option Z) (avail : Z) (out : list Z) : bool :=
  match fuel with O => false | S f =>
  match ops with
  | [] => match out with [] => true | _ => false end
  | op :: r =>
    let r' := tl (tl r) in
    match out with
    | code :: n :: cwk :: twk :: out' =>
      match op with
      | 0%Z =>
          let ok := if (0 <? n)%Z then (match wait with Some w0 => (w0 <? cwk)%Z | None => true end) else true in
          (0 <=? n)%Z && ok && rjudge f r' (if (0 <? n)%Z then None else wait) (avail + n) out'
      | 1%Z =>
          if (code =? 9)%Z then rjudge f r' wait avail out' else
          if (code =? 0)%Z then (avail =? 0)%Z && rjudge f r' (Some cwk) avail out'
          else (0 <? n)%Z && (n <=? avail)%Z && rjudge f r' None avail out'
      | 2%Z =>
          if (code =? 9)%Z then rjudge f r' wait avail out' else
          (0 <=? n)%Z && (n <=? avail)%Z && rjudge f r' wait (avail - n) out'
      | _ => rjudge f r' None avail out'
      end
    | _ => false
    end
  end end.
Definition judge (case out : list Z) : bool := rjudge (S (length case)) (tl case) None 0 out.
