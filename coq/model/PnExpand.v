(* C05 component "pnx": packet number reconstruction, transcribed from RFC 9000 appendix A.3
   (DecodePacketNumber), and the encoder/decoder round trip through the wire bytes.
   Not derived from packet/number/mod.rs. *)
From SQ Require Import lib.Base model.Varint model.PacketHeader.
Import Varint PacketHeader.
Local Open Scope N_scope.

Definition pn_limit : N := 4611686018427387904.     (* 2^62 *)

(* A.3, with (expected_pn & ~pn_mask) | truncated_pn written arithmetically (truncated < pn_win)
   and the two comparisons against possibly negative right-hand sides moved to the left *)
Definition rfc_decode (largest truncated nbits : N) : N :=
  let expected := largest + 1 in
  let win := 2 ^ nbits in
  let hwin := win / 2 in
  let candidate := (expected / win) * win + truncated in
  if (candidate + hwin <=? expected) && (candidate + win <? pn_limit) then candidate + win
  else if (expected + hwin <? candidate) && (win <=? candidate) then candidate - win
  else candidate.

(* CHOICE: packet numbers are below 2^62 (17.1); A.3 can name a larger candidate only when the
   largest received number is 2^62 - 1 itself; such a value is reported as 2^62 - 1 *)
Definition expand (largest truncated nbits : N) : N :=
  N.min (rfc_decode largest truncated nbits) (pn_limit - 1).

(* the condition under which A.3 promises to return the sender's number *)
Definition in_window (largest pn nbits : N) : bool :=
  let hwin := 2 ^ nbits / 2 in
  (largest + 1 <? pn + hwin) && (pn <=? largest + 1 + hwin).

(* case = 0 :: largest :: tag bits :: truncated        -> [expanded]
   case = 1 :: largest_acked :: pn :: largest_received -> [1; n; expanded] | [0]
   (n is the length the encoder chose; the bytes on the wire are the n low-order bytes of pn) *)
Definition run (case : list Z) : list Z :=
  match case with
  | 0%Z :: l :: tag :: t :: _ =>
      let n := N.to_nat (zN tag mod 4) in
      let tr := zN t mod 256 ^ N.of_nat (S n) in
      [Nz (expand (zN l) tr (8 * N.of_nat (S n)))]
  | 1%Z :: la :: pn :: l :: _ =>
      match pn_choice (zN la) (zN pn) with
      | None => [0%Z]
      | Some n => [1%Z; Z.of_nat n; Nz (expand (zN l) (pn_value (pn_bytes n (zN pn))) (8 * N.of_nat n))]
      end
  | _ => [0%Z]
  end.

Definition judge (case out : list Z) : bool :=
  match case with
  | 1%Z :: la :: pn :: l :: _ =>
      match out with
      | [0%Z] => true
      | [1%Z; n; x] =>
          let k := Z.to_nat n in
          (1 <=? n)%Z && (n <=? 4)%Z
          && (x =? Nz (expand (zN l) (pn_value (pn_bytes k (zN pn))) (8 * N.of_nat k)))%Z
      | _ => false
      end
  | _ => zlist_eqb out (run case)
  end.
