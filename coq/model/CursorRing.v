(* Model of quic/s2n-quic-core/src/sync/cursor.rs (the xsk-style ring cursor shared between a
   producer and a consumer): Builder::{build_producer, build_consumer}, Cursor::{acquire_producer,
   release_producer, acquire_consumer, release_consumer, producer_data, consumer_data}.

   Every public operation performs at most ONE access to shared memory (an Acquire load of the peer's
   index, or a Release fetch_add of the own index; the slot accesses of producer_data/consumer_data
   touch only slots the cursor owns), so the interleaving product of a producer thread and a consumer
   thread under sequential consistency is exactly the set of sequences of whole operations: the
   schedule of the case IS the interleaving.  Same partiality as Spsc.v: SC only.
   Executable definitions only. *)
From SQ Require Import lib.Base gen.Gen_C17.
Local Open Scope N_scope.

Definition two32 : N := 4294967296.
Definition wadd32 (a b : N) : N := (a + b) mod two32.
Definition wsub32 (a b : N) : N := (a + two32 - b) mod two32.

Record cst := mkC {
  g_prod : N; g_cons : N;            (* the two shared AtomicU32 *)
  slots : list N;                    (* the ring entries *)
  p_cp : N; p_cc : N; p_len : N;     (* producer's Cursor: cached_producer, cached_consumer (+ size), cached_len *)
  c_cp : N; c_cc : N; c_len : N;     (* consumer's Cursor *)
  (* ghost: totals written / read, and each side's last view of the peer *)
  tw : N; tr : N; pcg : N; cpg : N
}.

Definition cinit (size : N) : cst :=
  (* build(): cached 0, cached_len 0; init_producer: cached_consumer += size; cached_len = size *)
  mkC 0 0 (repeat 0 (N.to_nat size)) 0 (wadd32 0 size) size 0 0 0 0 0 0 0.

Definition acquire_producer (size w : N) (s : cst) : cst * N :=
  let w := N.min w size in
  let free := p_len s in
  if w <=? free then (s, free) else
  let nv := wadd32 (g_cons s) size in                  (* consumer().load(Acquire) + size *)
  if p_cc s =? nv then (s, free) else
  let len := wsub32 nv (p_cp s) in
  (mkC (g_prod s) (g_cons s) (slots s) (p_cp s) nv len (c_cp s) (c_cc s) (c_len s) (tw s) (tr s) (tr s) (cpg s), len).

Definition acquire_consumer (size w : N) (s : cst) : cst * N :=
  let w := N.min w size in
  let filled := c_len s in
  if w <=? filled then (s, filled) else
  let nv := g_prod s in                                (* producer().load(Acquire) *)
  if c_cp s =? nv then (s, filled) else
  let len := wsub32 nv (c_cc s) in
  (mkC (g_prod s) (g_cons s) (slots s) (p_cp s) (p_cc s) (p_len s) nv (c_cc s) len (tw s) (tr s) (pcg s) (tw s), len).

(* the harness writes the next k sequence numbers into producer_data() (k clamped to cached_len),
   then release_producer(k) *)
Fixpoint write_slots (k : nat) (idx size v : N) (sl : list N) : list N :=
  match k with
  | O => sl
  | S k' => write_slots k' ((idx + 1) mod size) size (v + 1) (set_nth (N.to_nat idx) sl v)
  end.
Definition produce (size k : N) (s : cst) : cst * N :=
  let k := N.min k (p_len s) in
  let idx := (p_cp s) mod size in                      (* cached_producer & mask *)
  let sl := write_slots (N.to_nat k) idx size (tw s + 1) (slots s) in
  (mkC (wadd32 (g_prod s) k) (g_cons s) sl (wadd32 (p_cp s) k) (p_cc s) (p_len s - k)
       (c_cp s) (c_cc s) (c_len s) (tw s + k) (tr s) (pcg s) (cpg s), k).

Fixpoint read_slots (k : nat) (idx size : N) (sl : list N) : list N :=
  match k with
  | O => []
  | S k' => nth (N.to_nat idx) sl 0 :: read_slots k' ((idx + 1) mod size) size sl
  end.
Definition consume (size k : N) (s : cst) : cst * list N :=
  let k := N.min k (c_len s) in
  let idx := (c_cc s) mod size in                      (* cached_consumer & mask *)
  let vals := read_slots (N.to_nat k) idx size (slots s) in
  (mkC (g_prod s) (wadd32 (g_cons s) k) (slots s) (p_cp s) (p_cc s) (p_len s)
       (c_cp s) (wadd32 (c_cc s) k) (c_len s - k) (tw s) (tr s + k) (pcg s) (cpg s), vals).

(* case = [log2 size; (op, arg)*]: 0 acquire_producer(arg) -> len; 1 write + release_producer(min arg len) -> k;
   2 acquire_consumer(arg) -> len; 3 read + release_consumer(min arg len) -> k, values *)
Fixpoint crun (fuel : nat) (size : N) (ops : list Z) (s : cst) : list Z :=
  match fuel with O => [] | S f =>
  match ops with
  | [] => []
  | op :: r =>
    let arg := N.min (zN (hd 0%Z r)) 100000 in
    match op with
    | 0%Z => let '(s', n) := acquire_producer size arg s in Nz n :: crun f size (tl r) s'
    | 1%Z => let '(s', n) := produce size arg s in Nz n :: crun f size (tl r) s'
    | 2%Z => let '(s', n) := acquire_consumer size arg s in Nz n :: crun f size (tl r) s'
    | _ => let '(s', vs) := consume size arg s in Z.of_nat (length vs) :: map Nz vs ++ crun f size (tl r) s'
    end
  end end.

Definition csize (case : list Z) : N := 2 ^ (N.min (zN (hd 0%Z case)) 10).
Definition run (case : list Z) : list Z := crun (S (length case)) (csize case) (tl case) (cinit (csize case)).

(* the property on an implementation's output: what is read is exactly what was written, in order, each
   once; the producer is never granted a slot that still holds an unread entry; the consumer is never
   granted a slot that was not written *)
Fixpoint consecutive (from : Z) (l : list Z) : bool :=
  match l with [] => true | x :: t => (x =? from)%Z && consecutive (from + 1) t end.

Fixpoint cjudge (fuel : nat) (size : Z) (ops : list Z) (written read : Z) (out : list Z) : bool :=
  match fuel with O => false | S f =>
  match ops with
  | [] => match out with [] => true | _ => false end
  | op :: r =>
    match op, out with
    | 0%Z, n :: out' => (0 <=? n)%Z && (n <=? size - (written - read))%Z && cjudge f size (tl r) written read out'
    | 1%Z, n :: out' => (0 <=? n)%Z && (written + n - read <=? size)%Z && cjudge f size (tl r) (written + n) read out'
    | 2%Z, n :: out' => (0 <=? n)%Z && (n <=? written - read)%Z && cjudge f size (tl r) written read out'
    | 0%Z, [] | 1%Z, [] | 2%Z, [] => false
    | _, n :: out' =>
        if (n <? 0)%Z then false else
        let k := Z.to_nat n in
        if (length out' <? k)%nat then false else
        consecutive (read + 1) (firstn k out') && (read + n <=? written)%Z
        && cjudge f size (tl r) written (read + n) (skipn k out')
    | _, [] => false
    end
  end end.

Definition judge (case out : list Z) : bool :=
  cjudge (S (length case)) (Nz (csize case)) (tl case) 0 0 out.
