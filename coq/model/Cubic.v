(* Model of quic/s2n-quic-core/src/recovery/cubic.rs (CubicCongestionController) together with the
   parts of hybrid_slow_start.rs it uses (threshold, on_congestion_event, cwnd_increment).
   Executable definitions only.

   The f32 congestion window is represented exactly as an integer number of 1/4096 bytes
   ([FX] units): every finite f32 >= 2048 is a multiple of 2^-12, and the window never drops
   below 2 * 1200.  An f32 operation whose exact result is x yields [round24 x] (round to
   nearest even at 24 significant bits; scale-free for power-of-two units).

   Oracle: the cubic / Reno-friendly curve of [congestion_avoidance] is not computed; each step
   takes an answer [a] (the implementation's own window after that step, fed back by the
   harness) which the model uses at that site only, after applying the clamps the code applies
   itself.  Everything else, including the f32 rescale of [on_mtu_update], is computed. *)
From SQ Require Import lib.Base gen.Gen_C10.
Local Open Scope N_scope.

Definition FX : N := 4096.

(* round to nearest, ties to even, at 24 significant bits *)
Definition round24 (x : N) : N :=
  let b := N.size x in
  if b <=? 24 then x else
  let p := 2 ^ (b - 24) in
  let q := x / p in
  let r := x mod p in
  if (p <? 2 * r) || ((2 * r =? p) && N.odd q) then (q + 1) * p else q * p.

(* `x as f32` for an unsigned integer, in FX units *)
Definition fx_of_int (n : N) : N := FX * round24 n.

(* `x as u32` for a non-negative f32 in FX units (truncation, saturating) *)
Definition to_u32 (x : N) : N := N.min (x / FX) u32_max.

(* (x / old as f32) * new as f32 for an f32 x (any power-of-two unit) and integers old, new < 2^24:
   the quotient is formed with 40 extra bits and a sticky bit, so that [round24] sees the exact
   rounding position; the result is the floor in x's unit *)
Definition fdivmul (x old new : N) : N :=
  let n := x * 2 ^ 40 in
  let q := round24 (2 * (n / old) + (if n mod old =? 0 then 0 else 1)) in
  round24 (q * new) / 2 ^ 41.

Inductive ckind := SlowStart | Recovery (start : N) (req : bool) | CongAvoid.

(* HybridSlowStart's delay sampling state (hystart++ is off: the environment switch is unset), and
   the controller's time_of_last_sent_packet; durations in nanoseconds, times in microseconds *)
Record hstate := mkH {
  tls : option N;     (* time_of_last_sent_packet *)
  sc : N;             (* sample_count *)
  lmin : option N;    (* last_min_rtt *)
  cmin : option N;    (* cur_min_rtt *)
  rend : option N     (* rtt_round_end_time *)
}.
Definition hinit : hstate := {| tls := None; sc := 0; lmin := None; cmin := None; rend := None |}.

Record cstate := mkC {
  mds : N;            (* max_datagram_size (also cubic.max_datagram_size) *)
  mds0 : N;           (* slow_start.max_datagram_size: set at construction, never updated *)
  cwnd : N;           (* congestion_window, FX units *)
  bif : N;            (* bytes_in_flight *)
  bif_hi : N;         (* bytes_in_flight_hi *)
  kind : ckind;       (* state (the congestion-avoidance timing is not modelled) *)
  uu : bool;          (* under_utilized *)
  thr : option N;     (* slow_start.threshold, FX units; None = f32::MAX *)
  hs : hstate
}.

(* Cubic::minimum_window: 2.0 * max_datagram_size as f32 (exact: below 2^24) *)
Definition min_window (m : N) : N := FX * (cubic_min_window_mult_man * m) / 2 ^ cubic_min_window_mult_sh.
(* HybridSlowStart::low_ssthresh *)
Definition low_ssthresh (m0 : N) : N := FX * (low_ssthresh_man * m0) / 2 ^ low_ssthresh_sh.

(* CubicCongestionController::initial_window with default application settings (u32 arithmetic) *)
Definition initial_window (m : N) : N :=
  N.max (N.min (initial_window_packets * m) (N.max initial_window_limit (initial_window_floor_packets * m)))
        (to_u32 (min_window m)).

Definition cinit (m : N) : cstate :=
  {| mds := m; mds0 := m; cwnd := fx_of_int (initial_window m); bif := 0; bif_hi := 0;
     kind := SlowStart; uu := true; thr := None; hs := hinit |}.

Definition wnd (s : cstate) : N := to_u32 (cwnd s).
Definition is_ss (s : cstate) : bool := match kind s with SlowStart => true | _ => false end.

Definition congestion_limited (s : cstate) : bool := wnd s - bif s <? mds s.

Definition under_utilized (s : cstate) : bool :=
  if congestion_limited s then false
  else if is_ss s && (wnd s / 2 <=? bif s) then false
  else mds s * max_burst_multiplier <? wnd s - bif s.

(* Cubic::multiplicative_decrease (the returned window only): (cwnd * BETA_CUBIC).max(minimum_window) *)
Definition mult_decrease (c m : N) : N :=
  N.max (round24 (c * beta_cubic_man) / 2 ^ beta_cubic_sh) (min_window m).

Inductive op :=
  | Sent (bytes app now : N)             (* app: 0 = None, 1 = Some(false), 2 = Some(true) *)
  | Ack (bytes sent_time now : N)
  | Lost (bytes : N) (persistent : bool) (now : N)
  | Ecn (now : N)
  | Mtu (m : N)
  | Discard (bytes : N)
  | RttUpd (sent_time now rtt : N)       (* on_rtt_update; rtt = latest_rtt in nanoseconds *)
  | Nop.

Definition set_bif (s : cstate) (b : N) : cstate :=
  {| mds := mds s; mds0 := mds0 s; cwnd := cwnd s; bif := b; bif_hi := bif_hi s; kind := kind s; uu := uu s; thr := thr s; hs := hs s |}.
Definition set_kind (s : cstate) (k : ckind) : cstate :=
  {| mds := mds s; mds0 := mds0 s; cwnd := cwnd s; bif := bif s; bif_hi := bif_hi s; kind := k; uu := uu s; thr := thr s; hs := hs s |}.
Definition set_cwnd (s : cstate) (c : N) : cstate :=
  {| mds := mds s; mds0 := mds0 s; cwnd := c; bif := bif s; bif_hi := bif_hi s; kind := kind s; uu := uu s; thr := thr s; hs := hs s |}.
Definition set_uu (s : cstate) (u : bool) : cstate :=
  {| mds := mds s; mds0 := mds0 s; cwnd := cwnd s; bif := bif s; bif_hi := bif_hi s; kind := kind s; uu := u; thr := thr s; hs := hs s |}.
Definition set_hi (s : cstate) (h : N) : cstate :=
  {| mds := mds s; mds0 := mds0 s; cwnd := cwnd s; bif := bif s; bif_hi := h; kind := kind s; uu := uu s; thr := thr s; hs := hs s |}.

Definition set_hs (s : cstate) (h : hstate) : cstate :=
  {| mds := mds s; mds0 := mds0 s; cwnd := cwnd s; bif := bif s; bif_hi := bif_hi s; kind := kind s; uu := uu s; thr := thr s; hs := h |}.
Definition set_thr (s : cstate) (t : option N) : cstate :=
  {| mds := mds s; mds0 := mds0 s; cwnd := cwnd s; bif := bif s; bif_hi := bif_hi s; kind := kind s; uu := uu s; thr := t; hs := hs s |}.

Definition clear_req (s : cstate) : cstate :=
  match kind s with Recovery t true => set_kind s (Recovery t false) | _ => s end.

(* on_congestion_event *)
Definition congestion_event (s : cstate) (now : N) : cstate :=
  let s1 := set_hi s 0 in
  match kind s with
  | Recovery _ _ => s1
  | _ =>
      let c' := mult_decrease (cwnd s) (mds s) in
      let t' := N.max (match thr s with None => c' | Some t => N.min t c' end) (low_ssthresh (mds0 s)) in
      {| mds := mds s; mds0 := mds0 s; cwnd := c'; bif := bif s; bif_hi := 0;
         kind := Recovery now true; uu := uu s; thr := Some t'; hs := hs s |}
  end.

(* the cap on the window in on_ack, after the recovery-exit check *)
Definition max_cwnd (s : cstate) : N :=
  N.max (match kind s with
         | SlowStart => fx_of_int (bif_hi s) * ss_max_cwnd_mult_man / 2 ^ ss_max_cwnd_mult_sh
         | Recovery _ _ => cwnd s
         | CongAvoid => FX * round24 (round24 (bif_hi s) * max_cwnd_mult_man) / 2 ^ max_cwnd_mult_sh
         end) (min_window (mds s)).

Definition ca_clamp (s : cstate) (bytes : N) : N :=
  N.min (round24 (cwnd s + FX * round24 bytes * 2 ^ ca_ack_divisor_sh / ca_ack_divisor_man)) (max_cwnd s).

(* on_ack up to the under_utilized early return: bytes_in_flight_hi, bytes_in_flight *)
Definition ack1 (s : cstate) (bytes : N) : cstate :=
  set_bif (set_hi s (N.max (bif_hi s) (bif s))) (bif s - bytes).
(* the recovery-exit check *)
Definition ack2 (s1 : cstate) (sent_time : N) : cstate :=
  match kind s1 with
  | Recovery t _ => if t <? sent_time then set_kind s1 CongAvoid else s1
  | _ => s1
  end.
(* does on_ack reach congestion_avoidance(), the only place where the oracle's answer is used? *)
Definition ca_site (s : cstate) (bytes sent_time : N) : bool :=
  let s1 := ack1 s bytes in
  negb (uu s1) &&
  (let s2 := ack2 s1 sent_time in
   negb (max_cwnd s2 <=? cwnd s2) && match kind s2 with CongAvoid => true | _ => false end).

Definition on_ack (s : cstate) (bytes sent_time a : N) : cstate :=
  let s1 := ack1 s bytes in
  if uu s1 then s1 else
  let s2 := ack2 s1 sent_time in
  if max_cwnd s2 <=? cwnd s2 then s2 else
  match kind s2 with
  | SlowStart =>
      let c' := N.min (round24 (cwnd s2 + fx_of_int bytes)) (max_cwnd s2) in
      let s3 := set_cwnd s2 c' in
      match thr s2 with
      | Some t => if t <=? c' then set_kind s3 CongAvoid else s3
      | None => s3
      end
  | Recovery _ _ => s2
  | CongAvoid => set_cwnd s2 (N.min a (ca_clamp s2 bytes))
  end.

(* HybridSlowStart::on_rtt_update followed by the slow-start exit check of
   CubicCongestionController::on_rtt_update; [last] = time_of_last_sent_packet *)
Definition hss_delay_min : N := 4000000.    (* MIN_DELAY_THRESHOLD 4 ms *)
Definition hss_delay_max : N := 16000000.   (* MAX_DELAY_THRESHOLD 16 ms *)
Definition on_rtt_update (s : cstate) (sent_time now rtt last : N) : cstate :=
  let above := match thr s with Some t => t <=? cwnd s | None => false end in
  let s1 :=
    if above then s else
    let h := hs s in
    let over := match rend h with None => true | Some e => e <=? sent_time end in
    let h1 := if over then {| tls := tls h; sc := 0; lmin := cmin h; cmin := None; rend := Some last |} else h in
    let h2 := if sc h1 <? hss_n_sampling
              then {| tls := tls h1; sc := sc h1; lmin := lmin h1;
                      cmin := Some (match cmin h1 with Some c => N.min rtt c | None => rtt end); rend := rend h1 |}
              else h1 in
    let h3 := {| tls := tls h2; sc := sc h2 + 1; lmin := lmin h2; cmin := cmin h2; rend := rend h2 |} in
    let s2 := set_hs s h3 in
    match lmin h3, cmin h3 with
    | Some l, Some c =>
        if sc h3 =? hss_n_sampling then
          let d := N.max (N.min (l / hss_threshold_dividend) hss_delay_max) hss_delay_min in
          if (l + d <=? c) && (low_ssthresh (mds0 s) <=? cwnd s) then set_thr s2 (Some (cwnd s)) else s2
        else s2
    | _, _ => s2
    end in
  match kind s1, thr s1 with
  | SlowStart, Some t => if t <=? cwnd s1 then set_kind s1 CongAvoid else s1
  | _, _ => s1
  end.

(* None = the implementation panics (checked counter / expect / debug_assert) *)
Definition step (s : cstate) (o : op) (a : N) : option cstate :=
  match o with
  | Sent bytes app now =>
      if bytes =? 0 then Some s else
      if u32_max <? bif s + bytes then None else
      let s1 := set_bif s (bif s + bytes) in
      let u := match app with
               | 0 => under_utilized s1
               | 1 => false
               | _ => under_utilized s1
               end in
      let h := hs s in
      Some (set_hs (clear_req (set_uu s1 u))
                   {| tls := Some now; sc := sc h; lmin := lmin h; cmin := cmin h; rend := rend h |})
  | Ack bytes sent_time now =>
      if bif s <? bytes then None else Some (on_ack s bytes sent_time a)
  | Lost bytes persistent now =>
      if (bytes =? 0) || (bif s <? bytes) then None else
      let s1 := congestion_event (set_bif s (bif s - bytes)) now in
      if persistent
      then Some (set_kind (set_cwnd s1 (min_window (mds s1))) SlowStart)
      else Some s1
  | Ecn now => Some (congestion_event s now)
  | Mtu m =>
      Some {| mds := m; mds0 := mds0 s; cwnd := fx_of_int (N.max (to_u32 (fdivmul (cwnd s) (mds s) m)) (initial_window m));
              bif := bif s; bif_hi := bif_hi s; kind := kind s; uu := uu s; thr := thr s; hs := hs s |}
  | Discard bytes =>
      if bif s <? bytes then None else Some (clear_req (set_bif s (bif s - bytes)))
  | RttUpd sent_time now rtt =>
      match tls (hs s) with
      | None => None                      (* expect("At least one packet must be sent to update RTT") *)
      | Some last => Some (on_rtt_update s sent_time now rtt last)
      end
  | Nop => Some s
  end.

(* ---- harness protocol ------------------------------------------------------------------
   case  = mds0 :: groups [code; a; b; c; dt]   (time advances by dt microseconds before the op)
     1 Sent    a = bytes, b = app_limited (0 None, 1 Some(false), 2 Some(true))
     2 Ack     a = bytes, b = how long before now the newest acked packet was sent, c = rtt sample
     3 Lost    a = bytes, b = persistent congestion, c = new loss burst
     4 Ecn     a = ce count
     5 Mtu     a = new max datagram size
     6 Discard a = bytes
     7 RttUpd  b = how long before now the packet was sent, c = latest rtt sample (microseconds)
   rows  = 9 integers after construction and after every op:
           congestion_window(), bytes_in_flight(), window in FX units (-1 unknown), state kind
           (0 slow start, 1 recovery idle, 2 recovery requiring transmission, 3 avoidance),
           under_utilized, requires_fast_retransmission(), is_congestion_limited(),
           slow start threshold in FX units (-1 = f32::MAX), hybrid slow start sample_count *)

Fixpoint decode (now : N) (l : list Z) : list op :=
  match l with
  | c :: a :: b :: d :: dt :: t =>
      let now' := now + zN dt in
      let a := zN a in let b := zN b in
      (match c with
       | 1%Z => Sent a b now'
       | 2%Z => Ack a (now' - b) now'
       | 3%Z => Lost a (negb (b =? 0)) now'
       | 4%Z => Ecn now'
       | 5%Z => Mtu a
       | 6%Z => Discard a
       | 7%Z => RttUpd (now' - b) now' (1000 * N.max (zN d) 1)
       | _ => Nop
       end) :: decode now' t
  | _ => []
  end.

Definition kind_code (k : ckind) : Z :=
  match k with SlowStart => 0 | Recovery _ false => 1 | Recovery _ true => 2 | CongAvoid => 3 end%Z.

Definition row (s : cstate) : list Z :=
  [Nz (wnd s); Nz (bif s); Nz (cwnd s); kind_code (kind s); bz (uu s);
   bz (match kind s with Recovery _ true => true | _ => false end); bz (congestion_limited s);
   (match thr s with Some t => Nz t | None => (-1)%Z end); Nz (sc (hs s))].

(* the answer for a step is the window (FX units) of the implementation's row after that step *)
Definition next_answer (rows : list Z) : N * list Z :=
  match rows with
  | _ :: _ :: a :: _ :: _ :: _ :: _ :: _ :: _ :: t => (zN a, t)
  | _ => (0, [])
  end.

Fixpoint replay_from (s : cstate) (ops : list op) (rows : list Z) : list Z :=
  match ops with
  | [] => []
  | o :: t =>
      let '(a, rows') := next_answer rows in
      match step s o a with
      | None => [(-1)%Z]
      | Some s' => row s' ++ replay_from s' t rows'
      end
  end.

(* model trace for a case, given the implementation's rows as the oracle's answers *)
Definition replay (case rows : list Z) : list Z :=
  match case with
  | [] => []
  | m :: t =>
      let s := cinit (zN m) in
      row s ++ replay_from s (decode 0 t) (snd (next_answer rows))
  end.

(* one list: case ++ [-1] ++ rows *)
Fixpoint split_at_neg (l : list Z) : list Z * list Z :=
  match l with
  | [] => ([], [])
  | x :: t => if (x <? 0)%Z then ([], t) else let '(a, b) := split_at_neg t in (x :: a, b)
  end.
Definition run (l : list Z) : list Z := let '(c, r) := split_at_neg l in replay c r.

(* ---- the property as an executable judgement on an implementation's rows ------------------
   Only the trait observables are used: congestion_window() and bytes_in_flight().          *)

Record jstate := mkJ {
  jm : N;             (* max datagram size in force *)
  jw : N;             (* window reported after the previous step *)
  jb : N;             (* bytes outstanding according to the operations *)
  jshrunk : option N; (* time of the last loss/ECN event that shrank the window, until a packet
                         sent after it is acknowledged (or persistent congestion) *)
  jsent : bool;       (* a packet has been sent (on_rtt_update `expect`s it) *)
  japp : bool         (* the last send was flagged application-limited and left more than
                         MAX_BURST packets of room with less than half the window in use *)
}.

Definition floor_u32 (m : N) : N := cubic_min_window_mult_man * m / 2 ^ cubic_min_window_mult_sh.

(* is the operation valid for the history so far (never removes more bytes than are outstanding,
   keeps the counter within u32, a lost packet has a size)?  The code `expect`s this of its caller;
   nothing is demanded after an invalid operation. *)
Definition jvalid (j : jstate) (o : op) : bool :=
  match o with
  | Sent bytes _ _ => (bytes =? 0) || (jb j + bytes <=? u32_max)
  | Ack bytes _ _ => bytes <=? jb j
  | Lost bytes _ _ => negb (bytes =? 0) && (bytes <=? jb j)
  | Discard bytes => bytes <=? jb j
  | RttUpd _ _ _ => jsent j
  | _ => true
  end.

Definition jstep (j : jstate) (o : op) (w b : N) : bool * jstate :=
  let common m := (floor_u32 m <=? w) && (w <? u32_max) in
  match o with
  | Sent bytes app _ =>
      let b' := jb j + bytes in
      let app' := if bytes =? 0 then japp j
                  else (app =? 2) && (jm j * max_burst_multiplier <? w - b') && (b' <? w / 2) in
      (common (jm j) && (b =? b'),
       {| jm := jm j; jw := w; jb := b'; jshrunk := jshrunk j; jsent := jsent j || negb (bytes =? 0); japp := app' |})
  | Ack bytes sent_time now =>
      let b' := jb j - bytes in
      let ok := common (jm j) && (b =? b') && (if japp j then w <=? jw j else true) in
      let sh := match jshrunk j with Some t => if t <? sent_time then None else Some t | None => None end in
      (ok, {| jm := jm j; jw := w; jb := b'; jshrunk := sh; jsent := jsent j; japp := japp j |})
  | Lost bytes persistent now =>
      let b' := jb j - bytes in
      let ok := common (jm j) && (b =? b') && (w <=? jw j)
                && (if persistent then w =? floor_u32 (jm j)
                    else match jshrunk j with Some _ => w =? jw j | None => true end) in
      let sh := if persistent then None else if w <? jw j then Some now else jshrunk j in
      (ok, {| jm := jm j; jw := w; jb := b'; jshrunk := sh; jsent := jsent j; japp := japp j |})
  | Ecn now =>
      let ok := common (jm j) && (b =? jb j) && (w <=? jw j)
                && match jshrunk j with Some _ => w =? jw j | None => true end in
      let sh := if w <? jw j then Some now else jshrunk j in
      (ok, {| jm := jm j; jw := w; jb := jb j; jshrunk := sh; jsent := jsent j; japp := japp j |})
  | Mtu m =>
      (common m && (b =? jb j), {| jm := m; jw := w; jb := jb j; jshrunk := jshrunk j; jsent := jsent j; japp := japp j |})
  | Discard bytes =>
      let b' := jb j - bytes in
      (common (jm j) && (b =? b'),
       {| jm := jm j; jw := w; jb := b'; jshrunk := jshrunk j; jsent := jsent j; japp := japp j |})
  | RttUpd _ _ _ | Nop =>
           (common (jm j) && (b =? jb j),
            {| jm := jm j; jw := w; jb := jb j; jshrunk := jshrunk j; jsent := jsent j; japp := japp j |})
  end.

Fixpoint judge_from (j : jstate) (ops : list op) (rows : list Z) : bool :=
  match ops with
  | [] => match rows with [] => true | _ => false end
  | o :: t =>
      if negb (jvalid j o) then true else
      match rows with
      | w :: b :: _ :: _ :: _ :: _ :: _ :: _ :: _ :: rows' =>
          if (w <? 0)%Z || (b <? 0)%Z then false else
          let '(ok, j') := jstep j o (zN w) (zN b) in
          ok && judge_from j' t rows'
      | _ => false
      end
  end.

Definition judge (case rows : list Z) : bool :=
  match case with
  | [] => true
  | m :: t =>
      match rows with
      | w :: b :: _ :: _ :: _ :: _ :: _ :: _ :: _ :: rows' =>
          let m := zN m in
          (* a new controller: at least the minimum window, nothing in flight *)
          (0 <=? w)%Z && (floor_u32 m <=? zN w) && (zN w <? u32_max) && (b =? 0)%Z
          && judge_from {| jm := m; jw := zN w; jb := 0; jshrunk := None; jsent := false; japp := false |} (decode 0 t) rows'
      | _ => false
      end
  end.
