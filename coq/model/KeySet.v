(* Model of quic/s2n-quic-core/src/crypto/application/{keyset.rs, limited.rs}
   (KeySet::{new, rotate_phase, derive_and_store_next_key, set_derivation_timer,
   key_update_in_progress, decrypt_packet, encryption_phase, encrypt_packet, on_timeout} and
   limited::Key) under the ideal-AEAD view: a key is its generation number plus its usage
   counters; a packet is (generation it was sealed under, key phase bit, packet number); opening
   succeeds iff the slot tried holds that generation.  Executable definitions only. *)
From SQ Require Import lib.Base gen.Gen_C15.
Local Open Scope N_scope.

(* ---------------- limited::Key ---------------- *)
Record key := { k_gen : N; k_enc : N; k_dec : N; k_limit : N }.

(* limited::Key::new(key): counters start at 0, the limit is the key's aead_confidentiality_limit *)
Definition key_new (g cl : N) : key := {| k_gen := g; k_enc := 0; k_dec := 0; k_limit := cl |}.
(* encrypted_packets >= confidentiality_limit *)
Definition expired (k : key) : bool := k_limit k <=? k_enc k.
(* encrypted_packets > confidentiality_limit.saturating_sub(key_update_window) *)
Definition needs_update (k : key) (win : N) : bool := (k_limit k - win) <? k_enc k.
Definition on_enc (k : key) : key :=
  {| k_gen := k_gen k; k_enc := k_enc k + 1; k_dec := k_dec k; k_limit := k_limit k |}.
Definition on_dec (k : key) : key :=
  {| k_gen := k_gen k; k_enc := k_enc k; k_dec := k_dec k + 1; k_limit := k_limit k |}.
(* OneRttKey::derive_next_key: same cipher suite (same limits), next generation *)
Definition derive_next (k : key) : key := key_new (k_gen k + 1) (k_limit k).

(* ---------------- KeySet ---------------- *)
(* key_phase: false = KeyPhase::Zero.  timer = key_derivation_timer.expiration (microseconds).
   derives is a ghost counter of derive_and_store_next_key calls (observed by the harness). *)
Record keyset := {
  phase : bool; timer : option N; failures : N; integ : N; generation : N;
  slot0 : key; slot1 : key; window : N; derives : N }.

Definition slot (s : keyset) (p : bool) : key := if p then slot1 s else slot0 s.
Definition set_slot (s : keyset) (p : bool) (k : key) : keyset :=
  {| phase := phase s; timer := timer s; failures := failures s; integ := integ s;
     generation := generation s;
     slot0 := if p then slot0 s else k; slot1 := if p then k else slot1 s;
     window := window s; derives := derives s |}.
Definition active (s : keyset) : key := slot s (phase s).

(* KeySet::new(crypto, limits) *)
Definition ks_new (cl il win : N) : keyset :=
  let k0 := key_new 0 cl in
  {| phase := false; timer := None; failures := 0; integ := il; generation := 0;
     slot0 := k0; slot1 := derive_next k0; window := win; derives := 0 |}.

(* self.generation = self.generation.wrapping_add(1) on a u16; the key phase toggles *)
Definition rotate_phase (s : keyset) : keyset :=
  {| phase := negb (phase s); timer := timer s; failures := failures s; integ := integ s;
     generation := (generation s + 1) mod 65536; slot0 := slot0 s; slot1 := slot1 s;
     window := window s; derives := derives s |}.

Definition derive_and_store_next_key (s : keyset) : keyset :=
  let s1 := set_slot s (negb (phase s)) (derive_next (active s)) in
  {| phase := phase s1; timer := timer s1; failures := failures s1; integ := integ s1;
     generation := generation s1; slot0 := slot0 s1; slot1 := slot1 s1;
     window := window s1; derives := derives s1 + 1 |}.

Definition set_timer (s : keyset) (t : option N) : keyset :=
  {| phase := phase s; timer := t; failures := failures s; integ := integ s;
     generation := generation s; slot0 := slot0 s; slot1 := slot1 s;
     window := window s; derives := derives s |}.

Definition in_progress (s : keyset) : bool := match timer s with Some _ => true | None => false end.

(* KeySet::encryption_phase *)
Definition encryption_phase (s : keyset) : bool :=
  if needs_update (active s) (window s) && negb (in_progress s)
  then negb (phase s) else phase s.

Inductive enc_res := EncOk (ph : bool) (g : N) | EncLimit (ph : bool).

(* KeySet::encrypt_packet (the sealing closure itself never fails here) *)
Definition encrypt_packet (s : keyset) : keyset * enc_res :=
  let ph := encryption_phase s in
  if expired (slot s ph) then (s, EncLimit ph)
  else (set_slot s ph (on_enc (slot s ph)), EncOk ph (k_gen (slot s ph))).

Inductive dec_res := DecOk (rot : option N) | DecErr | DecLimit.

Definition with_failures (s : keyset) (f : N) : keyset :=
  {| phase := phase s; timer := timer s; failures := f; integ := integ s;
     generation := generation s; slot0 := slot0 s; slot1 := slot1 s;
     window := window s; derives := derives s |}.

(* the slot selection of decrypt_packet, written as in the source *)
Definition phase_to_use (s : keyset) (p : bool) (pn la : N) : bool :=
  let ptu := phase s in
  let phase_switch := negb (Bool.eqb ptu p) in
  let ptu := xorb ptu phase_switch in
  if in_progress s && phase_switch then (if pn <? la then p else ptu) else ptu.

(* KeySet::decrypt_packet for a packet sealed under generation g carrying phase bit p *)
Definition decrypt_packet (s : keyset) (g : N) (p : bool) (pn la pto : N) : keyset * dec_res :=
  let ptu := phase_to_use s p pn la in
  let k := slot s ptu in
  let ok := k_gen k =? g in
  let s := set_slot s ptu (on_dec k) in
  if ok then
    if negb (Bool.eqb p (phase s)) && negb (in_progress s)
    then let s := rotate_phase s in
         let s := set_timer s (Some pto) in
         (s, DecOk (Some (generation s)))
    else (s, DecOk None)
  else
    let s := with_failures s (failures s + 1) in
    if integ s <=? failures s then (s, DecLimit) else (s, DecErr).

(* Timestamp::has_elapsed adds the timer granularity to `now` *)
Definition has_elapsed (exp now : N) : bool := exp <? now + Gen_C15.granularity_us.

(* KeySet::on_timeout *)
Definition on_timeout (s : keyset) (now : N) : keyset :=
  match timer s with
  | Some e => if has_elapsed e now then derive_and_store_next_key (set_timer s None) else s
  | None => s
  end.

(* ---------------- operations of one endpoint ---------------- *)
Inductive kop := KEnc | KDec (g : N) (p : bool) (pn la pto : N) | KTimeout (now : N).

Definition enc_out (r : enc_res) : list Z :=
  match r with
  | EncOk ph g => [0%Z; bz ph; Nz g]
  | EncLimit ph => [1%Z; bz ph; 0%Z]
  end.
Definition dec_out (r : dec_res) : list Z :=
  match r with
  | DecOk None => [0%Z; 0%Z]
  | DecOk (Some g) => [1%Z; Nz g]
  | DecErr => [2%Z; 0%Z]
  | DecLimit => [3%Z; 0%Z]
  end.

Definition kstep (s : keyset) (o : kop) : keyset * list Z :=
  match o with
  | KEnc => let '(s', r) := encrypt_packet s in (s', enc_out r)
  | KDec g p pn la pto => let '(s', r) := decrypt_packet s g p pn la pto in (s', dec_out r)
  | KTimeout now => (on_timeout s now, [])
  end.

(* observables: key_phase, active generation, active encrypted_packets, encryption_phase, armed, derivations *)
Definition st_full (s : keyset) : list Z :=
  [bz (phase s); Nz (k_gen (active s)); Nz (k_enc (active s)); bz (encryption_phase s);
   bz (in_progress s); Nz (derives s)].
Definition st_small (s : keyset) : list Z :=
  [bz (phase s); Nz (k_gen (active s)); bz (in_progress s)].

(* a timestamp built from 0 microseconds is rounded up to 1 *)
Definition tsn (x : N) : N := if x =? 0 then 1 else x.
Definition forged_gen : N := 281474976710656.  (* 2^48: never derived by any endpoint *)
(* the harness keeps packet numbers below 2^30 and durations below 2^32 so that every case is executable *)
Definition pn30 (x : N) : N := x mod 1073741824.
Definition dur32 (x : N) : N := x mod 4294967296.

(* ================= component ks: one endpoint ================= *)
Fixpoint parse_ks (fuel : nat) (l : list Z) : list kop :=
  match fuel with O => [] | S fuel =>
  match l with
  | [] => []
  | 0%Z :: t => KEnc :: parse_ks fuel t
  | 1%Z :: t =>
      KDec (zN (nth 0 t 0%Z)) (N.odd (zN (nth 1 t 0%Z))) (pn30 (zN (nth 2 t 0%Z))) (pn30 (zN (nth 3 t 0%Z)))
           (tsn (zN (nth 4 t 0%Z))) :: parse_ks fuel (skipn 5 t)
  | _ :: t => KTimeout (tsn (zN (hd 0%Z t))) :: parse_ks fuel (skipn 1 t)
  end end.

Fixpoint run_kops (s : keyset) (ops : list kop) : list Z :=
  match ops with
  | [] => []
  | o :: t => let '(s', out) := kstep s o in out ++ st_full s' ++ run_kops s' t
  end.

Definition ks_cfg (c : list Z) : keyset := ks_new (zN (nth 0 c 0%Z)) (zN (nth 1 c 0%Z)) (zN (nth 2 c 0%Z)).
Definition ks_ops (c : list Z) : list kop := parse_ks (S (length c)) (skipn 3 c).
Definition ks_run (c : list Z) : list Z := run_kops (ks_cfg c) (ks_ops c).

(* ---------------- the property as a monitor of one endpoint's observable behaviour ------------- *)
(* m_last/m_cnt: generation of the last sealed packet and how many consecutive packets it sealed
   (generations must not decrease, so this is the per-generation use count);
   m_fail: packets that failed authentication; m_act/m_armed: last observed active generation
   and whether a key update was in progress *)
Record mon := { m_last : N; m_cnt : N; m_fail : N; m_act : N; m_armed : bool }.
Definition mon0 : mon := {| m_last := 0; m_cnt := 0; m_fail := 0; m_act := 0; m_armed := false |}.

Definition mon_observe (m : mon) (act : N) (armed : bool) : mon :=
  {| m_last := m_last m; m_cnt := m_cnt m; m_fail := m_fail m; m_act := act; m_armed := armed |}.

(* sealing: outcome code and generation reported.  Demands: generations never decrease with the
   packet number; no generation seals more than the confidentiality limit *)
Definition mon_enc (cl : N) (m : mon) (code g : Z) : option mon :=
  if (code =? 0)%Z then
    let g := zN g in
    let cnt := if g =? m_last m then m_cnt m + 1 else 1 in
    if (m_last m <=? g) && (cnt <=? cl)
    then Some {| m_last := g; m_cnt := cnt; m_fail := m_fail m; m_act := m_act m; m_armed := m_armed m |}
    else None
  else Some m.

(* the receiver is expected to hold generation g: it is the active one, or the pre-derived next one
   (no update in progress), or the previous one (retained while the update is in progress) *)
Definition holds (m : mon) (g : N) : bool :=
  (g =? m_act m) || (negb (m_armed m) && (g =? m_act m + 1)) || (m_armed m && (g + 1 =? m_act m)).

(* a packet is genuine when some endpoint sealed it: its phase bit is its generation's parity *)
Definition genuine (g : N) (p : bool) : bool := (g <? forged_gen) && Bool.eqb (N.odd g) p.

(* opening: Demands: a genuine packet of a generation the receiver is expected to hold opens;
   once the failures reach the integrity limit the outcome is AEAD_LIMIT_REACHED (code 3) *)
Definition mon_dec (il : N) (m : mon) (g : N) (p : bool) (code : Z) : option mon :=
  let okc := (code =? 0)%Z || (code =? 1)%Z in
  let failc := (code =? 2)%Z || (code =? 3)%Z in
  let f := if failc then m_fail m + 1 else m_fail m in
  if (if genuine g p && holds m g then okc else true)
     && (if failc && (il <=? f) then (code =? 3)%Z else true)
  then Some {| m_last := m_last m; m_cnt := m_cnt m; m_fail := f; m_act := m_act m; m_armed := m_armed m |}
  else None.

(* split off the first n values; None when fewer are there *)
Definition take_out (n : nat) (out : list Z) : option (list Z * list Z) :=
  if (n <=? length out)%nat then Some (firstn n out, skipn n out) else None.

Definition mon_kop (cl il : N) (m : mon) (o : kop) (out : list Z) : option mon :=
  match o with
  | KEnc => mon_enc cl m (nth 0 out 0%Z) (nth 2 out 0%Z)
  | KDec g p _ _ _ => mon_dec il m g p (nth 0 out 0%Z)
  | KTimeout _ => Some m
  end.
Definition kop_len (o : kop) : nat := match o with KEnc => 3%nat | KDec _ _ _ _ _ => 2%nat | KTimeout _ => 0%nat end.

Fixpoint judge_kops (cl il : N) (m : mon) (ops : list kop) (out : list Z) : bool :=
  match ops with
  | [] => match out with [] => true | _ => false end
  | o :: t =>
      match take_out (kop_len o + 6) out with
      | None => false
      | Some (here, rest) =>
          match mon_kop cl il m o here with
          | None => false
          | Some m' =>
              let st := skipn (kop_len o) here in
              judge_kops cl il (mon_observe m' (zN (nth 1 st 0%Z)) (negb (nth 4 st 0%Z =? 0)%Z)) t rest
          end
      end
  end.

Definition ks_judge (c out : list Z) : bool :=
  judge_kops (zN (nth 0 c 0%Z)) (zN (nth 1 c 0%Z)) mon0 (ks_ops c) out.

(* ================= component duo: two endpoints and a network ================= *)
Inductive dop := DEnc (e : bool) | DDeliver (e : bool) (i : N) | DTime (dt : N) | DForged (e p : bool) (pn : N).

Fixpoint parse_duo (fuel : nat) (l : list Z) : list dop :=
  match fuel with O => [] | S fuel =>
  match l with
  | [] => []
  | 0%Z :: t => DEnc (N.odd (zN (hd 0%Z t))) :: parse_duo fuel (skipn 1 t)
  | 1%Z :: t => DDeliver (N.odd (zN (nth 0 t 0%Z))) (zN (nth 1 t 0%Z)) :: parse_duo fuel (skipn 2 t)
  | 2%Z :: t => DTime (dur32 (zN (hd 0%Z t))) :: parse_duo fuel (skipn 1 t)
  | _ :: t => DForged (N.odd (zN (nth 0 t 0%Z))) (N.odd (zN (nth 1 t 0%Z))) (pn30 (zN (nth 2 t 0%Z)))
              :: parse_duo fuel (skipn 3 t)
  end end.

(* endpoint false = A, true = B.  sent_x: (generation, phase) of the packets sealed by x, the
   position is the packet number; largest_x: largest packet number x opened so far *)
Record duo := {
  ep_a : keyset; ep_b : keyset;
  sent_a : list (N * bool); sent_b : list (N * bool);
  largest_a : N; largest_b : N; now : N; pto : N }.

Definition ep (d : duo) (e : bool) : keyset := if e then ep_b d else ep_a d.
Definition sent (d : duo) (e : bool) : list (N * bool) := if e then sent_b d else sent_a d.
Definition largest (d : duo) (e : bool) : N := if e then largest_b d else largest_a d.
Definition set_ep (d : duo) (e : bool) (s : keyset) : duo :=
  {| ep_a := if e then ep_a d else s; ep_b := if e then s else ep_b d;
     sent_a := sent_a d; sent_b := sent_b d; largest_a := largest_a d; largest_b := largest_b d;
     now := now d; pto := pto d |}.
Definition push_sent (d : duo) (e : bool) (x : N * bool) : duo :=
  {| ep_a := ep_a d; ep_b := ep_b d;
     sent_a := if e then sent_a d else sent_a d ++ [x]; sent_b := if e then sent_b d ++ [x] else sent_b d;
     largest_a := largest_a d; largest_b := largest_b d; now := now d; pto := pto d |}.
Definition set_largest (d : duo) (e : bool) (x : N) : duo :=
  {| ep_a := ep_a d; ep_b := ep_b d; sent_a := sent_a d; sent_b := sent_b d;
     largest_a := if e then largest_a d else x; largest_b := if e then x else largest_b d;
     now := now d; pto := pto d |}.
Definition set_now (d : duo) (t : N) : duo :=
  {| ep_a := ep_a d; ep_b := ep_b d; sent_a := sent_a d; sent_b := sent_b d;
     largest_a := largest_a d; largest_b := largest_b d; now := t; pto := pto d |}.

Definition duo_new (cl il win p : N) : duo :=
  {| ep_a := ks_new cl il win; ep_b := ks_new cl il win; sent_a := []; sent_b := [];
     largest_a := 0; largest_b := 0; now := 1; pto := p |}.

Definition is_ok (r : dec_res) : bool := match r with DecOk _ => true | _ => false end.

(* the packet a delivery op designates: index i modulo the number of packets the peer sealed *)
Definition pick (l : list (N * bool)) (i : N) : option (N * (N * bool)) :=
  match l with
  | [] => None
  | _ => let pn := i mod N.of_nat (length l) in Some (pn, nth (N.to_nat pn) l (0, false))
  end.

Definition dstep (d : duo) (o : dop) : duo * list Z :=
  match o with
  | DEnc e =>
      let '(s', r) := encrypt_packet (ep d e) in
      let d := set_ep d e s' in
      (match r with EncOk ph g => push_sent d e (g, ph) | EncLimit _ => d end, enc_out r)
  | DDeliver e i =>
      match pick (sent d (negb e)) i with
      | None => (d, [5%Z; 0%Z])
      | Some (pn, (g, p)) =>
          let '(s', r) := decrypt_packet (ep d e) g p pn (largest d e) (now d + pto d) in
          let d := set_ep d e s' in
          ((if is_ok r then set_largest d e (N.max (largest d e) pn) else d), dec_out r)
      end
  | DTime dt =>
      let t := now d + dt in
      let d := set_now d t in
      let d := set_ep d false (on_timeout (ep d false) t) in
      (set_ep d true (on_timeout (ep d true) t), [])
  | DForged e p pn =>
      let '(s', r) := decrypt_packet (ep d e) forged_gen p pn (largest d e) (now d + pto d) in
      (set_ep d e s', dec_out r)
  end.

Fixpoint run_dops (d : duo) (ops : list dop) : list Z :=
  match ops with
  | [] => []
  | o :: t => let '(d', out) := dstep d o in
              out ++ st_small (ep_a d') ++ st_small (ep_b d') ++ run_dops d' t
  end.

Definition duo_cfg (c : list Z) : duo :=
  duo_new (zN (nth 0 c 0%Z)) (zN (nth 1 c 0%Z)) (zN (nth 2 c 0%Z)) (dur32 (zN (nth 3 c 0%Z))).
Definition duo_ops (c : list Z) : list dop := parse_duo (S (length c)) (skipn 4 c).
Definition duo_run (c : list Z) : list Z := run_dops (duo_cfg c) (duo_ops c).

(* judgement of a two-endpoint run: one monitor per endpoint; the packets in flight are
   reconstructed from what the implementation reported when sealing *)
Record jduo := { j_ma : mon; j_mb : mon; j_sa : list (N * bool); j_sb : list (N * bool) }.
Definition jmon (j : jduo) (e : bool) : mon := if e then j_mb j else j_ma j.
Definition jsent (j : jduo) (e : bool) : list (N * bool) := if e then j_sb j else j_sa j.
Definition set_jmon (j : jduo) (e : bool) (m : mon) : jduo :=
  {| j_ma := if e then j_ma j else m; j_mb := if e then m else j_mb j; j_sa := j_sa j; j_sb := j_sb j |}.
Definition push_jsent (j : jduo) (e : bool) (x : N * bool) : jduo :=
  {| j_ma := j_ma j; j_mb := j_mb j;
     j_sa := if e then j_sa j else j_sa j ++ [x]; j_sb := if e then j_sb j ++ [x] else j_sb j |}.
Definition jduo0 : jduo := {| j_ma := mon0; j_mb := mon0; j_sa := []; j_sb := [] |}.

Definition dop_len (o : dop) : nat := match o with DEnc _ => 3%nat | DTime _ => 0%nat | _ => 2%nat end.

Definition jd_op (cl il : N) (j : jduo) (o : dop) (out : list Z) : option jduo :=
  match o with
  | DEnc e =>
      match mon_enc cl (jmon j e) (nth 0 out 0%Z) (nth 2 out 0%Z) with
      | None => None
      | Some m =>
          let j := set_jmon j e m in
          Some (if (nth 0 out 0%Z =? 0)%Z
                then push_jsent j e (zN (nth 2 out 0%Z), negb (nth 1 out 0%Z =? 0)%Z) else j)
      end
  | DDeliver e i =>
      match pick (jsent j (negb e)) i with
      | None => Some j
      | Some (_, (g, p)) =>
          match mon_dec il (jmon j e) g p (nth 0 out 0%Z) with
          | None => None
          | Some m => Some (set_jmon j e m)
          end
      end
  | DTime _ => Some j
  | DForged e p _ =>
      match mon_dec il (jmon j e) forged_gen p (nth 0 out 0%Z) with
      | None => None
      | Some m => Some (set_jmon j e m)
      end
  end.

Definition jd_observe (j : jduo) (st : list Z) : jduo :=
  {| j_ma := mon_observe (j_ma j) (zN (nth 1 st 0%Z)) (negb (nth 2 st 0%Z =? 0)%Z);
     j_mb := mon_observe (j_mb j) (zN (nth 4 st 0%Z)) (negb (nth 5 st 0%Z =? 0)%Z);
     j_sa := j_sa j; j_sb := j_sb j |}.

Fixpoint judge_dops (cl il : N) (j : jduo) (ops : list dop) (out : list Z) : bool :=
  match ops with
  | [] => match out with [] => true | _ => false end
  | o :: t =>
      match take_out (dop_len o + 6) out with
      | None => false
      | Some (here, rest) =>
          match jd_op cl il j o here with
          | None => false
          | Some j' => judge_dops cl il (jd_observe j' (skipn (dop_len o) here)) t rest
          end
      end
  end.

Definition duo_judge (c out : list Z) : bool :=
  judge_dops (zN (nth 0 c 0%Z)) (zN (nth 1 c 0%Z)) jduo0 (duo_ops c) out.

(* ================= component rot: many complete peer-driven updates ================= *)
(* KeySet.generation is a u16 event payload incremented (wrapping) by rotate_phase; no key-phase
   decision reads it.  This component drives a fresh endpoint through n updates, n up to 2^17. *)
Definition u16_max : N := 65535.

(* loop state: next generation to deliver, endpoint, cycles completed, packets opened, last
   generation reported by a rotation *)
Record rot_st := { r_i : N; r_s : keyset; r_done : N; r_opened : N; r_last : N }.

(* one cycle: a genuine packet of generation i (phase bit = parity) is opened with pto = 1, then
   on_timeout(1) fires the derivation timer *)
Definition rot_cycle (r : rot_st) : rot_st :=
  let i := r_i r in
  let '(s', res) := decrypt_packet (r_s r) i (N.odd i) 1 0 1 in
  {| r_i := i + 1; r_s := on_timeout s' 1; r_done := r_done r + 1;
     r_opened := if is_ok res then r_opened r + 1 else r_opened r;
     r_last := match res with DecOk (Some g) => g | _ => r_last r end |}.

Definition rot_n (c : list Z) : N := zN (nth 3 c 0%Z) mod 131072.
Definition rot_final (c : list Z) : rot_st :=
  N.iter (rot_n c) rot_cycle {| r_i := 1; r_s := ks_cfg c; r_done := 0; r_opened := 0; r_last := 0 |}.

(* output: panicked(always 0 here) cycles_completed packets_opened last_reported_generation
   key_phase active_gen armed derives *)
Definition rot_run (c : list Z) : list Z :=
  let r := rot_final c in
  [0%Z; Nz (r_done r); Nz (r_opened r); Nz (r_last r)] ++ st_small (r_s r) ++ [Nz (derives (r_s r))].

(* the property: the endpoint survives any number of key updates -- no panic, every genuine
   packet opened, and it ends on generation n with key phase n mod 2 *)
Definition rot_judge (c out : list Z) : bool :=
  let n := rot_n c in
  match out with
  | [pan; done; opened; _; ph; act; _; _] =>
      (pan =? 0)%Z && (done =? Nz n)%Z && (opened =? Nz n)%Z && (act =? Nz n)%Z && (ph =? bz (N.odd n))%Z
  | _ => false
  end.
