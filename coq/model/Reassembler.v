(* Stream reassembly buffer: quic/s2n-quic-core/src/buffer/reassembler.rs and
   reassembler/{slot,request,reader}.rs.  Executable definitions only.

   Part 1  payload bytes and checksum shared with the harness
   Part 2  the reference specification: a first-write-wins byte map with a consumed prefix and a final size
   Part 3  the implementation-shaped model: the slot list (VecDeque<Slot>) and the cursors
   Part 4  the case protocol: decoding, [run] (slot model), [judge] (the specification applied to an
           implementation's output; chunk boundaries of pops are left free)                       *)
From SQ Require Import lib.Base gen.Gen_C01.
Local Open Scope N_scope.

(* length as N (= N.of_nat (length l), counted without building the unary number) *)
Definition nlen {A} (l : list A) : N := fold_left (fun n _ => N.succ n) l 0.
Definition ntake {A} (n : N) (l : list A) : list A := firstn (N.to_nat n) l.
Definition ndrop {A} (n : N) (l : list A) : list A := skipn (N.to_nat n) l.
Definition is_nil {A} (l : list A) : bool := match l with [] => true | _ => false end.

(* ------------------------------------------------------------------------------------------ *)
(* Part 1: position-keyed payload.  The byte at absolute stream offset p of a write with key k is
       T[(p mod 256 + b) mod 256] xor c
   where b, c are two bytes of a 64-bit mix of (k, p / 256) -- so every one of the 62 bits of p matters and
   a displacement by a multiple of 256 or 4096 changes the content -- and T is a table of 256 bytes
   derived from the salt of the case, so a displacement inside a block does too.
   h_core/src/bin/C01.rs computes the same function. *)
Definition mask64 : N := 18446744073709551615.
Definition mix64 (x : N) : N :=
  let x := N.lxor x (N.shiftr x 30) in
  let x := N.land (x * 13787848793156543929) mask64 in
  let x := N.lxor x (N.shiftr x 27) in
  let x := N.land (x * 10723151780598845931) mask64 in
  N.lxor x (N.shiftr x 31).
Definition blockkey (key q : N) : N := mix64 (N.land (q + key * 11400714819323198485) mask64).
Definition pb_b (bk : N) : N := N.land (N.shiftr bk 16) 255.
Definition pb_c (bk : N) : N := N.land (N.shiftr bk 24) 255.
(* table entry j: a 16-bit multiplicative hash of j folded to a byte *)
Definition tab_entry (bk j : N) : N :=
  let t := N.land ((j + pb_b bk + 1) * N.lor (N.land bk 65535) 1) 65535 in
  N.land (N.lxor (N.lxor (N.shiftr t 8) t) (pb_c bk)) 255.
Definition table (salt : N) : list N :=
  let bk := blockkey (N.land salt 4294967295 * 4) 72057594037927936 in
  map (fun j => tab_entry bk (N.of_nat j)) (seq 0 256).
(* tt = table ++ table; the bytes of block q from in-block index i0, cnt of them *)
Definition blk_bytes (tt : list N) (key q : N) (i0 cnt : nat) : list N :=
  let bk := blockkey key q in
  let c := pb_c bk in
  map (N.lxor c) (firstn cnt (skipn (N.to_nat (N.land (N.of_nat i0 + pb_b bk) 255)) tt)).
Fixpoint gen_blocks (fuel : nat) (tt : list N) (key q : N) (i0 n : nat) : list N :=
  match fuel, n with
  | _, O => []
  | O, _ => []
  | S k, _ => let cnt := Nat.min (256 - i0) n in
              blk_bytes tt key q i0 cnt ++ gen_blocks k tt key (q + 1) 0 (n - cnt)
  end.
Definition gen_bytes (tt : list N) (key off len : N) : list N :=
  let n := N.to_nat len in
  gen_blocks (S n) tt key (N.shiftr off 8) (N.to_nat (N.land off 255)) n.

(* content checksum of a popped chunk: s1 = sum of (b + 1), s2 = sum of the running s1 (position weighted);
   reported as s1 + 2^25 s2 (a chunk has at most 2^16 bytes) *)
Definition cks_step (h : N * N) (b : N) : N * N := let s1 := fst h + b + 1 in (s1, snd h + s1).
Definition cks (h : N * N) (l : list N) : N * N := fold_left cks_step l h.
Definition cks_out (h : N * N) : N := fst h + 33554432 * snd h.

(* ------------------------------------------------------------------------------------------ *)
(* Part 2: reference specification. *)

(* a write: data at absolute offset w_off; w_fin = Some f when the writer announces final size f
   (write_at_fin: f = w_off + length w_data) *)
Record wr := { w_off : N; w_data : list N; w_fin : option N }.
Inductive op :=
| Write (w : wr)
| Pop (watermark : N)
| Skip (n : N)
| Reset.

(* an accepted write: its data, where it starts and (cached) where it ends: g_end = g_off + length g_data *)
Record seg := { g_off : N; g_end : N; g_data : list N }.

Record spec := {
  sp_segs : list seg;            (* accepted writes, oldest first *)
  sp_consumed : N;               (* bytes handed out or skipped *)
  sp_maxrecv : N;                (* highest end of any accepted write or skip *)
  sp_final : option N }.         (* final size once established *)
Definition spec_init : spec := {| sp_segs := []; sp_consumed := 0; sp_maxrecv := 0; sp_final := None |}.

(* first write wins: the byte at position p is the one of the oldest accepted write covering p *)
Definition seg_get (g : seg) (p : N) : option N :=
  if g_off g <=? p then nth_error (g_data g) (N.to_nat (p - g_off g)) else None.
Fixpoint sget (segs : list seg) (p : N) : option N :=
  match segs with
  | [] => None
  | g :: t => match seg_get g p with Some b => Some b | None => sget t p end
  end.

(* a write is rejected exactly when it exceeds the maximum stream offset ... *)
Definition w_end (w : wr) : N := w_off w + nlen (w_data w).
Definition exceeds_max (e : N) : bool := varint_max <? e.
(* ... or contradicts what is known about the final size *)
Definition contradicts (s : spec) (e : N) (fin : option N) : bool :=
  match fin, sp_final s with
  | Some f, Some f0 => negb (f =? f0)        (* a different final size *)
  | Some f, None => f <? sp_maxrecv s        (* final size below data already received *)
  | None, Some f0 => f0 <? e                 (* data beyond the final size *)
  | None, None => false
  end.
Definition spec_write (s : spec) (w : wr) : spec * bool :=
  let e := w_end w in      (* one past the last byte of the write *)
  if exceeds_max e || contradicts s e (w_fin w) then (s, false) else
  ({| sp_segs := sp_segs s ++ [{| g_off := w_off w; g_end := e; g_data := w_data w |}];
      sp_consumed := sp_consumed s;
      sp_maxrecv := N.max (sp_maxrecv s) e;
      sp_final := match w_fin w with Some f => Some f | None => sp_final s end |}, true).

(* skip n: the next n bytes are consumed unseen; rejected beyond the final size / the maximum offset *)
Definition spec_skip (s : spec) (n : N) : spec * bool :=
  if n =? 0 then (s, true) else      (* a zero-length skip is a no-op *)
  let c := sp_consumed s + n in
  if (varint_max <? c) || (match sp_final s with Some f => f <? c | None => false end) then (s, false) else
  ({| sp_segs := sp_segs s; sp_consumed := c; sp_maxrecv := N.max (sp_maxrecv s) c; sp_final := sp_final s |}, true).

(* [win segs p lim]: the write that owns position p and the end (bounded by lim) of the stretch
   starting at p that it owns: an older write starting later takes over from its own start *)
Fixpoint win (segs : list seg) (p lim : N) : option (seg * N) :=
  match segs with
  | [] => None
  | g :: t => if (g_off g <=? p) && (p <? g_end g) then Some (g, N.min lim (g_end g))
              else win t p (if p <? g_off g then N.min lim (g_off g) else lim)
  end.
(* end of the contiguous received data starting at p *)
Fixpoint reach (fuel : nat) (segs : list seg) (p : N) : N :=
  match fuel with
  | O => p
  | S k => match win segs p u64_max with
           | Some (_, e) => if p <? e then reach k segs e else p
           | None => p
           end
  end.
Definition sp_total (s : spec) : N := reach (2 * length (sp_segs s) + 1) (sp_segs s) (sp_consumed s).
Definition sp_len (s : spec) : N := sp_total s - sp_consumed s.
(* checksum of the bytes at positions [p, e), folded into h; None if a position is not received *)
Fixpoint cks_range (fuel : nat) (segs : list seg) (p e : N) (h : N * N) : option (N * N) :=
  if e <=? p then Some h else
  match fuel with
  | O => None
  | S k => match win segs p e with
           | Some (g, e') =>
               if p <? e' then cks_range k segs e' e (cks h (ntake (e' - p) (ndrop (p - g_off g) (g_data g))))
               else None
           | None => None
           end
  end.
(* the bytes themselves (reference, used in the theorems) *)
Fixpoint sp_bytes (segs : list seg) (p : N) (n : nat) : list (option N) :=
  match n with O => [] | S k => sget segs p :: sp_bytes segs (p + 1) k end.

Definition sp_take (s : spec) (n : N) : spec :=
  {| sp_segs := sp_segs s; sp_consumed := sp_consumed s + n; sp_maxrecv := sp_maxrecv s; sp_final := sp_final s |}.

Definition fz (o : option N) : Z := match o with Some f => Nz f | None => (-1)%Z end.
(* the counters every implementation must report in a given abstract state:
   len, consumed_len, total_received_len, final_size, flags = is_writing_complete + 2 is_reading_complete + 4 is_empty *)
Definition sp_obs (s : spec) : list Z :=
  let tot := sp_total s in
  let wc := match sp_final s with Some f => f =? tot | None => false end in
  let rc := match sp_final s with Some f => f =? sp_consumed s | None => false end in
  let em := tot =? sp_consumed s in
  [Nz (tot - sp_consumed s); Nz (sp_consumed s); Nz tot; fz (sp_final s);
   (bz wc + 2 * bz rc + 4 * bz em)%Z].

(* ------------------------------------------------------------------------------------------ *)
(* Part 3: the slot list.  s_len caches the length of s_data (BytesMut::len), r_len that of r_data. *)

Record slot := { s_start : N; s_endalloc : N; s_len : N; s_data : list N }.
Definition s_end (s : slot) : N := s_start s + s_len s.
Definition s_is_full (s : slot) : bool := s_end s =? s_endalloc s.
Definition s_is_occupied (s : slot) (prev : N) : bool := negb (s_len s =? 0) && (s_start s =? prev).
Definition s_should_drop (s : slot) : bool := s_start s =? s_endalloc s.

Record rstate := {
  slots : list slot;
  start_off : N;       (* cursors.start_offset *)
  max_recv : N;        (* cursors.max_recv_offset *)
  final_off : N;       (* cursors.final_offset, UNKNOWN_FINAL_SIZE when not known *)
  oof : bool }.        (* a fuelled loop ran out of fuel (proved never to happen) *)
Definition rinit : rstate :=
  {| slots := []; start_off := 0; max_recv := 0; final_off := unknown_final_size; oof := false |}.
Definition final_size (s : rstate) : option N :=
  if final_off s =? unknown_final_size then None else Some (final_off s).

(* allocation_size: for pow in (lo..=hi).rev() { if offset >= MIN * (1<<pow)^2 { return MIN * (1<<pow) } } MIN *)
Fixpoint alloc_ladder (k : nat) (pow offset : N) : N :=
  match k with
  | O => min_buffer_allocation_size
  | S k' => let mult := 2 ^ pow in
            if min_buffer_allocation_size * (mult * mult) <=? offset
            then min_buffer_allocation_size * mult
            else alloc_ladder k' (pow - 1) offset
  end.
Definition allocation_size (offset : N) : N :=
  alloc_ladder (N.to_nat (alloc_pow_hi + 1 - alloc_pow_lo)) alloc_pow_hi offset.
Definition align_offset (offset alignment : N) : N := (offset / alignment) * alignment.
Definition block_of (offset : N) : N := align_offset offset (allocation_size offset).

(* the reader of a write request: current offset and remaining data
   (Reader::skip_until default implementation over Request::read_chunk) *)
Record reader := { r_off : N; r_len : N; r_data : list N }.
Definition r_empty (r : reader) : bool := r_len r =? 0.
Definition rd_advance (r : reader) (k : N) : reader :=
  {| r_off := r_off r + k; r_len := r_len r - k; r_data := ndrop k (r_data r) |}.
Definition rd_skip_until (r : reader) (o : N) : reader :=
  if r_off r <? o then rd_advance r (N.min (o - r_off r) (r_len r)) else r.

(* Reassembler::allocate_slot *)
Definition allocate_slot (st : rstate) (r : reader) : slot :=
  let start := r_off r in
  let size := allocation_size start in
  let offset := align_offset start size in
  let '(offset, size) :=
    if offset <? start_off st then (start_off st, size - (start_off st - offset)) else (offset, size) in
  let size :=
    if final_off st - start - r_len r =? 0 then
      let cand := (start - offset) + r_len r in
      if cand <? size then cand else size
    else size in
  {| s_start := offset; s_endalloc := offset + size; s_len := 0; s_data := [] |}.

(* Slot::try_write_reader (with write_reader_append / write_reader_split):
   the slot afterwards, the reader afterwards, the split-off slot if any, and whether the spare
   capacity was filled exactly (`*filled_slot |= chunk_len == len`) *)
Definition try_write (s : slot) (r : reader) : slot * reader * option slot * bool :=
  let e := s_end s in
  if e <? s_endalloc s then
    let r1 := rd_skip_until r e in
    if r_empty r1 then (s, r1, None, false) else
    let off := r_off r1 in
    if s_endalloc s <=? off then (s, r1, None, false) else
    if off =? e then
      let cap := s_endalloc s - e in
      let n := N.min (r_len r1) cap in
      ({| s_start := s_start s; s_endalloc := s_endalloc s; s_len := s_len s + n;
          s_data := s_data s ++ ntake n (r_data r1) |},
       rd_advance r1 n, None, cap =? n)
    else
      let cap := s_endalloc s - off in
      let n := N.min (r_len r1) cap in
      ({| s_start := s_start s; s_endalloc := off; s_len := s_len s; s_data := s_data s |},
       rd_advance r1 n,
       Some {| s_start := off; s_endalloc := s_endalloc s; s_len := n; s_data := ntake n (r_data r1) |}, cap =? n)
  else (s, rd_skip_until r (s_endalloc s), None, false).

Definition insert_at {A} (i : nat) (x : A) (l : list A) : list A := firstn i l ++ x :: skipn i l.

(* Reassembler::write_reader_with_alloc *)
Fixpoint with_alloc (fuel : nat) (st : rstate) (sl : list slot) (r : reader) (idx : nat) (filled : bool)
  : list slot * reader * nat * bool * bool :=
  if r_empty r then (sl, r, idx, filled, false) else
  match fuel with
  | O => (sl, r, idx, filled, true)
  | S k =>
      let stop := match nth_error sl idx with
                  | Some nx => negb (r_off r <? s_start nx)
                  | None => false
                  end in
      if stop then (sl, r, idx, filled, false) else
      let '(s1, r1, fo, fl) := try_write (allocate_slot st r) r in
      let sl1 := insert_at idx s1 sl in
      let idx1 := S idx in
      let '(sl2, idx2) := match fo with
                          | Some x => (insert_at idx1 x sl1, S idx1)
                          | None => (sl1, idx1)
                          end in
      with_alloc k st sl2 r1 idx2 (filled || fl)
  end.

(* the `while !reader.buffer_is_empty()` loop of Reassembler::write_reader_at *)
Fixpoint write_loop (fuel : nat) (st : rstate) (sl : list slot) (r : reader) (idx : nat) (filled : bool)
  : list slot * nat * bool * bool :=
  if r_empty r then (sl, idx, filled, false) else
  match fuel with
  | O => (sl, idx, filled, true)
  | S k =>
      match nth_error sl idx with
      | None => (sl, idx, filled, true)          (* assume!(false) *)
      | Some s =>
          let '(s1, r1, fo, fl) := try_write s r in
          let sl1 := set_nth idx sl s1 in
          let idx1 := S idx in
          let '(sl2, idx2) := match fo with
                              | Some x => (insert_at idx1 x sl1, S idx1)
                              | None => (sl1, idx1)
                              end in
          let filled1 := filled || fl in
          if r_empty r1 then (sl2, idx2, filled1, false) else
          let '(sl3, r3, idx3, filled3, o3) := with_alloc (S k) st sl2 r1 idx2 filled1 in
          if o3 then (sl3, idx3, filled3, true) else
          write_loop k st sl3 r3 idx3 filled3
      end
  end.

(* Reassembler::unsplit_range(lo..lo+k), highest index first *)
Fixpoint unsplit_range (sl : list slot) (lo : nat) (k : nat) : list slot :=
  match k with
  | O => sl
  | S k' =>
      let idx := (lo + k')%nat in
      let sl' :=
        match nth_error sl idx, nth_error sl (S idx) with
        | Some s, Some nx =>
            if s_is_full s && (s_start nx =? s_end s) && (block_of (s_start s) =? block_of (s_start nx))
            then firstn idx sl
                 ++ {| s_start := s_start s; s_endalloc := s_endalloc nx; s_len := s_len s + s_len nx;
                       s_data := s_data s ++ s_data nx |}
                 :: skipn (S (S idx)) sl
            else sl
        | _, _ => sl
        end in
      unsplit_range sl' lo k'
  end.

(* index of the last slot whose start is <= off (search from the back) *)
Fixpoint find_slot (sl : list slot) (off : N) (i : nat) (acc : option nat) : option nat :=
  match sl with
  | [] => acc
  | s :: t => find_slot t off (S i) (if s_start s <=? off then Some i else acc)
  end.

(* every iteration of the two loops either consumes reader data or passes a slot; one allocation
   block holds at least one byte of the reader, so its length bounds the allocations *)
Definition loop_fuel (sl : list slot) (r : reader) : nat := (N.to_nat (r_len r) + length sl + 2)%nat.

(* Reassembler::write_reader_at *)
Definition write_reader_at (st : rstate) (sl : list slot) (r : reader) (idx : nat) : list slot * bool :=
  let '(sl1, idx1, filled, o) := write_loop (loop_fuel sl r) st sl r idx false in
  (if filled then unsplit_range sl1 idx (idx1 - idx) else sl1, o).

(* Reassembler::write_reader_impl *)
Definition write_reader_impl (st : rstate) (r : reader) : list slot * bool :=
  if r_empty r then (slots st, false) else
  match find_slot (slots st) (r_off r) 0 None with
  | Some idx => write_reader_at st (slots st) r idx
  | None =>
      let '(s1, r1, fo, _) := try_write (allocate_slot st r) r in
      let '(sl1, idx) := match fo with
                         | Some x => (s1 :: x :: slots st, 1%nat)
                         | None => (s1 :: slots st, 0%nat)
                         end in
      if r_empty r1 then (sl1, false) else write_reader_at st sl1 r1 idx
  end.

(* result codes: 0 Ok, 1 Error::OutOfRange, 2 Error::InvalidFin *)
(* Request::new, Reassembler::write_reader, Cursors::handle_reader_fin *)
Definition rwrite (st : rstate) (w : wr) : rstate * Z :=
  let len := nlen (w_data w) in
  if varint_max <? w_off w + len then (st, 1%Z) else
  let r := rd_skip_until {| r_off := w_off w; r_len := len; r_data := w_data w |} (start_off st) in
  let buffered := r_off r + r_len r in
  if varint_max <? buffered then (st, 1%Z) else
  let res :=
    match w_fin w, final_size st with
    | Some actual, Some expected => if actual =? expected then Some (final_off st) else None
    | Some f, None => if max_recv st <=? f then Some f else None
    | None, Some expected => if buffered <=? expected then Some (final_off st) else None
    | None, None => Some (final_off st)
    end in
  match res with
  | None => (st, 2%Z)
  | Some fo =>
      let st1 := {| slots := slots st; start_off := start_off st; max_recv := N.max (max_recv st) buffered;
                    final_off := fo; oof := oof st |} in
      let '(sl, o) := write_reader_impl st1 r in
      ({| slots := sl; start_off := start_off st1; max_recv := max_recv st1; final_off := fo;
          oof := oof st || o |}, 0%Z)
  end.

(* Reassembler::skip; Slot::skip_until / Slot::skip *)
Definition slot_skip_until (s : slot) (o : N) : slot :=
  if s_start s <=? o then
    let len := o - s_start s in
    {| s_start := s_start s + len; s_endalloc := s_endalloc s; s_len := s_len s - len;
       s_data := ndrop (N.min len (s_len s)) (s_data s) |}
  else s.
Fixpoint skip_slots (sl : list slot) (o : N) : list slot :=
  match sl with
  | [] => []
  | s :: t => if s_endalloc s <? o then skip_slots t o else
              let s' := slot_skip_until s o in
              if s_should_drop s' then t else s' :: t
  end.
Definition rskip (st : rstate) (n : N) : rstate * Z :=
  if n =? 0 then (st, 0%Z) else
  let c := start_off st + n in
  if varint_max <? c then (st, 1%Z) else
  if (match final_size st with Some f => f <? c | None => false end) then (st, 2%Z) else
  ({| slots := skip_slots (slots st) c; start_off := c; max_recv := N.max (max_recv st) c;
      final_off := final_off st; oof := oof st |}, 0%Z).

(* Reassembler::pop_watermarked -> read_chunk (reassembler/reader.rs), Slot::consume,
   Slot::read_chunk over BytesMut::read_chunk *)
Definition rpop (st : rstate) (w : N) : rstate * N * list N :=
  match slots st with
  | [] => (st, 0, [])
  | s :: t =>
      if negb (s_is_occupied s (start_off st)) then (st, 0, []) else
      let whole := match final_size st with
                   | Some f => (f <=? s_endalloc s) && (s_len s <=? w)
                   | None => false
                   end in
      let '(n, chunk, s') :=
        if whole then (s_len s, s_data s,
                       {| s_start := s_endalloc s; s_endalloc := s_endalloc s; s_len := 0; s_data := [] |})
        else let len := N.min (s_len s) w in
             (len, ntake len (s_data s),
              {| s_start := s_start s + len; s_endalloc := s_endalloc s; s_len := s_len s - len;
                 s_data := ndrop len (s_data s) |}) in
      ({| slots := if s_should_drop s' then t else s' :: t;
          start_off := start_off st + n; max_recv := max_recv st; final_off := final_off st;
          oof := oof st |}, n, chunk)
  end.

(* Reassembler::report / total_received_len: walk the occupied contiguous slots *)
Fixpoint walk (sl : list slot) (prev bytes chunks : N) : N * N * N :=
  match sl with
  | [] => (prev, bytes, chunks)
  | s :: t => if s_is_occupied s prev then walk t (s_end s) (bytes + s_len s) (chunks + 1)
              else (prev, bytes, chunks)
  end.
Definition r_is_empty (st : rstate) : bool :=
  match slots st with [] => true | s :: _ => negb (s_is_occupied s (start_off st)) end.

(* len, consumed_len, total_received_len, final_size, flags, chunks (report().1) *)
Definition r_obs (st : rstate) : list Z :=
  let '(tot, bytes, chunks) := walk (slots st) (start_off st) 0 0 in
  let wc := match final_size st with Some f => tot =? f | None => false end in
  let rc := match final_size st with Some f => f =? start_off st | None => false end in
  let em := r_is_empty st in
  [Nz bytes; Nz (start_off st); Nz tot; fz (final_size st);
   (bz wc + 2 * bz rc + 4 * bz em)%Z; Nz chunks].

(* one operation: new state and the two result integers (code,0 / popped length,checksum) *)
Definition rstep (st : rstate) (o : op) : rstate * list Z :=
  match o with
  | Write w => let '(st', c) := rwrite st w in (st', [c; 0%Z])
  | Skip n => let '(st', c) := rskip st n in (st', [c; 0%Z])
  | Pop w => let '(st', n, chunk) := rpop st w in (st', [Nz n; Nz (cks_out (cks (0, 0) chunk))])
  | Reset => (rinit, [0%Z; 0%Z])
  end.

(* ------------------------------------------------------------------------------------------ *)
(* Part 4: case protocol.
   case = salt :: ops, op = 0 off len var          write_at
                            1 off len var          write_at_fin
                            2                      pop
                            3 w                    pop_watermarked w
                            4 n                    skip n
                            5                      reset
                            6 off len var extra    write_reader with final offset off+len+extra
   output per op = [r0; r1; len; consumed; total; final; flags; chunks]; after the last op the slot
   list: count, then start, end, end_allocated of each slot.
   Values the VarInt type cannot hold are answered OutOfRange by the harness itself. *)
Definition max_len : N := 100000.
Definition hdz (l : list Z) : Z := hd 0%Z l.

Inductive dop := DOp (o : op) | DRange (* offset/len not representable as VarInt *).

Definition mk_write (tt : list N) (salt off len var : N) (fin : option N) : dop :=
  if (varint_max <? off) || (match fin with Some f => varint_max <? f | None => false end) then DRange else
  let key := N.land salt 4294967295 * 4 + N.land var 3 in
  DOp (Write {| w_off := off; w_data := gen_bytes tt key off len; w_fin := fin |}).

(* decode one operation; None at the end of the case *)
Definition decode1 (tt : list N) (salt : N) (l : list Z) : option (dop * list Z) :=
  match l with
  | [] => None
  | c :: t =>
      let a1 := zN (hdz t) in let t1 := tl t in
      let a2 := N.min (zN (hdz t1)) max_len in let t2 := tl t1 in
      let a3 := zN (hdz t2) in let t3 := tl t2 in
      let a4 := zN (hdz t3) in let t4 := tl t3 in
      Some (match c with
            | 0%Z => (mk_write tt salt a1 a2 a3 None, t3)
            | 1%Z => (mk_write tt salt a1 a2 a3 (Some (a1 + a2)), t3)
            | 2%Z => (DOp (Pop u64_max), t)
            | 3%Z => (DOp (Pop (N.min a1 u64_max)), t1)
            | 4%Z => (if varint_max <? a1 then DRange else DOp (Skip a1), t1)
            | 6%Z => (mk_write tt salt a1 a2 a3 (Some (a1 + a2 + a4)), t4)
            | _ => (DOp Reset, t)
            end)
  end.

Definition dump_slots (sl : list slot) : list Z :=
  Nz (nlen sl) :: flat_map (fun s => [Nz (s_start s); Nz (s_end s); Nz (s_endalloc s)]) sl.

Fixpoint run_from (fuel : nat) (tt : list N) (salt : N) (st : rstate) (l : list Z) : list Z :=
  match fuel with
  | O => []
  | S k =>
      match decode1 tt salt l with
      | None => dump_slots (slots st)
      | Some (DRange, rest) => (1%Z :: 0%Z :: r_obs st) ++ run_from k tt salt st rest
      | Some (DOp o, rest) =>
          let '(st', res) := rstep st o in
          (if oof st' then [(-99)%Z; 0%Z] else res) ++ r_obs st' ++ run_from k tt salt st' rest
      end
  end.
Definition run (case : list Z) : list Z :=
  let t := table (zN (hdz case)) in
  run_from (S (length case)) (t ++ t) (zN (hdz case)) rinit (tl case).

(* ---- the property as an executable judgement on an implementation's output ---- *)
Definition zeqb_list (a b : list Z) : bool :=
  (length a =? length b)%nat && forallb (fun p => Z.eqb (fst p) (snd p)) (combine a b).

(* what the specification demands of one operation's record [r0; r1; len; consumed; total; final; flags; _]:
   - write / skip: accepted (r0 = 0) exactly when the specification accepts; any non-zero code is a rejection
   - pop: r0 = n bytes with 0 < n <= min(available, watermark), or n = 0 when that minimum is 0; r1 = checksum
     of exactly the bytes at positions [consumed, consumed + n) of the first-write-wins map
   - the five counters equal the specification's in the state after the operation (unchanged on rejection) *)
Definition judge_op (s : spec) (o : dop) (rec : list Z) : option spec :=
  match rec with
  | r0 :: r1 :: c0 :: c1 :: c2 :: c3 :: c4 :: _ :: [] =>
      let counters := [c0; c1; c2; c3; c4] in
      let fin (s' : spec) (ok : bool) := if ok && zeqb_list counters (sp_obs s') then Some s' else None in
      match o with
      | DRange => fin s (negb (r0 =? 0)%Z)
      | DOp (Write w) => let '(s', acc) := spec_write s w in fin s' (Bool.eqb acc (r0 =? 0)%Z)
      | DOp (Skip n) => let '(s', acc) := spec_skip s n in fin s' (Bool.eqb acc (r0 =? 0)%Z)
      | DOp Reset => fin spec_init true
      | DOp (Pop w) =>
          if (r0 <? 0)%Z then None else
          let n := zN r0 in
          let m := N.min (sp_len s) w in
          let size_ok := (n <=? m) && (Bool.eqb (n =? 0) (m =? 0)) in
          let content_ok :=
            match cks_range (2 * length (sp_segs s) + 1) (sp_segs s) (sp_consumed s) (sp_consumed s + n) (0, 0) with
            | Some h => (Nz (cks_out h) =? r1)%Z
            | None => false
            end in
          fin (sp_take s n) (size_ok && content_ok)
      end
  | _ => None
  end.

Fixpoint judge_from (fuel : nat) (tt : list N) (salt : N) (s : spec) (l out : list Z) : bool :=
  match fuel with
  | O => false
  | S k =>
      match decode1 tt salt l with
      | None => true                                  (* the trailing slot dump is not judged *)
      | Some (o, rest) =>
          match judge_op s o (firstn 8 out) with
          | Some s' => judge_from k tt salt s' rest (skipn 8 out)
          | None => false
          end
      end
  end.
Definition judge (case out : list Z) : bool :=
  let t := table (zN (hdz case)) in
  judge_from (S (length case)) (t ++ t) (zN (hdz case)) spec_init (tl case) out.

(* the specification run on its own, popping as much as the watermark allows (used in the theorems
   and as the model of a `spec` component: same records with chunks = 0 and no slot dump) *)
Definition spec_rec (s : spec) (o : dop) : spec * list Z :=
  match o with
  | DRange => (s, [1%Z; 0%Z])
  | DOp (Write w) => let '(s', acc) := spec_write s w in (s', [bz (negb acc); 0%Z])
  | DOp (Skip n) => let '(s', acc) := spec_skip s n in (s', [bz (negb acc); 0%Z])
  | DOp Reset => (spec_init, [0%Z; 0%Z])
  | DOp (Pop w) =>
      let n := N.min (sp_len s) w in
      let h := match cks_range (2 * length (sp_segs s) + 1) (sp_segs s) (sp_consumed s) (sp_consumed s + n) (0, 0) with
               | Some h => Nz (cks_out h) | None => (-1)%Z end in
      (sp_take s n, [Nz n; h])
  end.
Fixpoint spec_run_from (fuel : nat) (tt : list N) (salt : N) (s : spec) (l : list Z) : list Z :=
  match fuel with
  | O => []
  | S k =>
      match decode1 tt salt l with
      | None => []
      | Some (o, rest) =>
          let '(s', res) := spec_rec s o in
          res ++ sp_obs s' ++ [0%Z] ++ spec_run_from k tt salt s' rest
      end
  end.
Definition spec_run (case : list Z) : list Z :=
  let t := table (zN (hdz case)) in
  spec_run_from (S (length case)) (t ++ t) (zN (hdz case)) spec_init (tl case).
