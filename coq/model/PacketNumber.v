(* Model of quic/s2n-quic-core/src/packet/number/{mod.rs, packet_number.rs, packet_number_len.rs,
   truncated_packet_number.rs}: packet number truncation (sender) and expansion (receiver), and a
   separate transcription of RFC 9000 Appendix A.2 / A.3.  Executable definitions only. *)
From SQ Require Import lib.Base gen.Gen_C08.
Local Open Scope N_scope.

Definition two62 : N := 4611686018427387904.      (* 1u64 << 62 *)
Definition two64 : N := 18446744073709551616.

(* u64 checked arithmetic *)
Definition checked_sub64 (a b : N) : option N := if b <=? a then Some (a - b) else None.
Definition checked_add64 (a b : N) : option N := if a + b <? two64 then Some (a + b) else None.
Definition checked_mul64 (a b : N) : option N := if a * b <? two64 then Some (a * b) else None.
(* VarInt::new(v).ok() *)
Definition varint_new (v : N) : option N := if v <=? varint_max then Some v else None.

(* PacketNumberLenValue::from_varint; the result is the byte size (U8 = 1 .. U32 = 4) *)
Definition len_from_varint (v : N) : option N :=
  if v <=? pn_u8_max then Some 1
  else if v <=? pn_u16_max then Some 2
  else if v <=? pn_u24_max then Some 3
  else if v <=? pn_u32_max then Some 4
  else None.

(* derive_truncation_range(largest_acknowledged, packet_number) *)
Definition derive_truncation_range (la pn : N) : option N :=
  match checked_sub64 pn la with
  | None => None
  | Some v =>
    match checked_mul64 v 2 with
    | None => None
    | Some v =>
      match varint_new v with
      | None => None
      | Some v => len_from_varint v
      end
    end
  end.

(* pn_win = 1 << bitsize *)
Definition win (len : N) : N := 2 ^ (8 * len).

(* PacketNumberLenValue::truncate_packet_number: `*value as u8 / u16 / u24::new_truncated / u32` *)
Definition truncate_value (len pn : N) : N := pn mod win len.

(* PacketNumber::truncate(self = pn, largest_acknowledged = la) : (byte length, value) *)
Definition truncate (pn la : N) : option (N * N) :=
  match derive_truncation_range la pn with
  | None => None
  | Some len => Some (len, truncate_value len pn)
  end.

(* decode_packet_number(largest_pn = L, truncated_pn = (len, t)), as written.
   `expected_pn & !pn_mask` on u64 is N.ldiff (bitwise and-not); all values stay below 2^64. *)
Definition impl_decode (L len t : N) : N :=
  let expected_pn := L + 1 in
  let pn_win := win len in
  let pn_hwin := pn_win / 2 in
  let pn_mask := pn_win - 1 in
  let candidate_pn := N.lor (N.ldiff expected_pn pn_mask) t in
  let a := match checked_sub64 expected_pn pn_hwin with Some v => candidate_pn <=? v | None => false end in
  let b := match checked_sub64 two62 pn_win with Some v => candidate_pn <? v | None => false end in
  let c := match checked_add64 expected_pn pn_hwin with Some v => v <? candidate_pn | None => false end in
  let d := pn_win <=? candidate_pn in
  let ab := a && b in
  let cd := negb ab && c && d in
  let candidate_pn := if ab then candidate_pn + pn_win else candidate_pn in
  let candidate_pn := if cd then candidate_pn - pn_win else candidate_pn in
  (* VarInt::new(candidate_pn).unwrap_or(VarInt::MAX) *)
  if candidate_pn <=? varint_max then candidate_pn else varint_max.

(* ---------------- RFC 9000, transcribed independently (mathematical integers) ---------------- *)

(* A.3 DecodePacketNumber(largest_pn, truncated_pn, pn_nbits) *)
Definition rfc_a3_decode (largest_pn truncated_pn pn_nbits : Z) : Z :=
  let expected_pn := (largest_pn + 1)%Z in
  let pn_win := Z.shiftl 1 pn_nbits in
  let pn_hwin := (pn_win / 2)%Z in
  let pn_mask := (pn_win - 1)%Z in
  let candidate_pn := Z.lor (Z.land expected_pn (Z.lnot pn_mask)) truncated_pn in
  if ((candidate_pn <=? expected_pn - pn_hwin) && (candidate_pn <? Z.shiftl 1 62 - pn_win))%Z
  then (candidate_pn + pn_win)%Z
  else if ((expected_pn + pn_hwin <? candidate_pn) && (pn_win <=? candidate_pn))%Z
  then (candidate_pn - pn_win)%Z
  else candidate_pn.

(* A.2 EncodePacketNumber(full_pn, largest_acked): num_unacked = full_pn - largest_acked,
   min_bits = log2(num_unacked) + 1 (real valued), num_bytes = ceil(min_bits / 8); i.e. the least
   number of bytes b with num_unacked <= 2^(8b - 1).  Section 17.1 (normative) asks for strictly
   more than twice the range: 2 * num_unacked < 2^(8b). *)
Definition rfc_a2_num_bytes (full_pn largest_acked : N) : option N :=
  let num_unacked := full_pn - largest_acked in
  if num_unacked <=? 128 then Some 1
  else if num_unacked <=? 32768 then Some 2
  else if num_unacked <=? 8388608 then Some 3
  else if num_unacked <=? 2147483648 then Some 4
  else None.

(* ---------------- harness protocol ---------------- *)
(* case = [space; la; pn; L; len2; t2]
   output = [tlen (0 = truncate returned None); tval; expansion of the truncated number against L
             (-1 when there is none); expansion of the independent (len2 mod 4 + 1, t2 mod window)
             against L] *)

Definition arg (i : nat) (c : list Z) : N := zN (nth i c 0%Z).

Definition run (c : list Z) : list Z :=
  let la := arg 1 c in let pn := arg 2 c in let L := arg 3 c in
  let len2 := arg 4 c mod 4 + 1 in let t2 := arg 5 c mod win len2 in
  let d2 := Nz (impl_decode L len2 t2) in
  match truncate pn la with
  | None => [0; 0; -1; d2]%Z
  | Some (len, t) => [Nz len; Nz t; Nz (impl_decode L len t); d2]
  end.

(* The unique number congruent to t modulo the window that lies in
   (L + 1 - hwin, L + 1 + hwin] -- the receiver-side statement of RFC 9000 section 17.1 / A.3:
   "the packet number value that is closest to the next expected packet" *)
Definition window_pn (L len t : N) : Z :=
  let w := Nz (win len) in
  let lo := (Nz L + 1 - w / 2 + 1)%Z in
  (lo + (Nz t - lo) mod w)%Z.

Definition in_rfc_window (L len pn : N) : bool :=
  (L + 1 <? pn + win len / 2) && (pn <=? L + 1 + win len / 2).

(* the property as a judgement on an implementation's output *)
Definition judge (c out : list Z) : bool :=
  let la := arg 1 c in let pn := arg 2 c in let L := arg 3 c in
  let len2 := arg 4 c mod 4 + 1 in let t2 := arg 5 c mod win len2 in
  match out with
  | [tl; tv; ex; d2] =>
      (* sender side: if a truncation is produced it has 1..4 bytes and carries the low bits of pn;
         a peer that knows only that la was acknowledged has a largest received number L >= la:
         if it has not yet seen anything above pn (L < pn), or pn is still inside its window
         (later packets overtook pn), expansion returns pn *)
      (if (tl =? 0)%Z then true
       else ((1 <=? tl) && (tl <=? 4))%Z
            && (tv =? Nz (pn mod win (zN tl)))%Z
            && (if (la <=? L) && ((L <? pn) || in_rfc_window L (zN tl) pn) then (ex =? Nz pn)%Z else true))
      (* receiver side: whenever a packet number in [0, 2^62) congruent to the truncated value lies
         in the window around L + 1, that is the number returned *)
      && (let p := window_pn L len2 t2 in
          if ((0 <=? p) && (p <? Nz two62))%Z then (d2 =? p)%Z else true)
  | _ => false
  end.
