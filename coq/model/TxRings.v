(* Model, at operation granularity, of the tx side of the platform socket io:
   quic/s2n-quic-platform/src/socket/io/tx.rs (Tx::{new, queue, poll_ready}, TxQueue::{push,
   release_message, flush_channel, drop}) over 1..3 socket::ring pairs (Producer side owned by the
   endpoint's Tx, Consumer side owned by one socket task per ring), message type without GSO
   (message::simple::Message: every push releases one message, message_index stays 0).
   The two wake decisions of TxQueue are generated from the source:
     tx_spill_flushes   : push flushes (wakes) the channel it leaves when it moves to the next one
     tx_flush_clamps    : flush_channel wakes channels[min(channel_index, len-1)] instead of
                          channels.get_mut(channel_index)
   Sequential model (wakers used from one thread).  Executable definitions only. *)
From SQ Require Import lib.Base gen.Gen_C17.
From SQ Require Import model.CursorRing.
Local Open Scope N_scope.

Definition spill_flushes : bool := match Gen_C17.tx_spill_flushes with 1 => true | _ => false end.
Definition flush_clamps : bool := match Gen_C17.tx_flush_clamps with 1 => true | _ => false end.

Record txr := mkT {
  tc : cst;          (* the ring's cursor *)
  tcw : bool;        (* the socket task's (consumer's) waker is registered *)
  tpw : bool;        (* the endpoint's waker is registered on the producer side *)
  tcwk : N;          (* wake count of the consumer's waker *)
  towed : bool       (* ghost: received a message since it was last woken *)
}.

Record txs := mkTx { rings : list txr; t_full : bool; ewakes : N }.

Definition u32max : N := 4294967295.

Definition tinit (r : nat) (size : N) : txs := mkTx (repeat (mkT (cinit size) false false 0 false) r) true 0.

Definition upd (i : nat) (f : txr -> txr) (l : list txr) : list txr :=
  match nth_error l i with Some x => set_nth i l (f x) | None => l end.

(* Producer::wake() *)
Definition wake_ring (x : txr) : txr :=
  mkT (tc x) false (tpw x) (if tcw x then tcwk x + 1 else tcwk x) false.

(* Producer::acquire(u32::MAX) on every channel: counts *)
Definition acquire_all (size : N) (l : list txr) : list txr * list N :=
  fold_right (fun x acc => let '(c, n) := acquire_producer size u32max (tc x) in
                           (mkT c (tcw x) (tpw x) (tcwk x) (towed x) :: fst acc, n :: snd acc)) ([], []) l.

Fixpoint first_pos (l : list N) (i : nat) : option nat :=
  match l with [] => None | n :: t => if 0 <? n then Some i else first_pos t (S i) end.
Fixpoint sumN (l : list N) : N := match l with [] => 0 | n :: t => n + sumN t end.

(* the TxQueue *)
Record txq := mkQ { q_rings : list txr; q_ci : nat; q_pending : N; q_cap : N }.

(* TxQueue::flush_channel *)
Definition flush_channel (q : txq) : txq :=
  if q_pending q =? 0 then q else
  let idx := if flush_clamps then Nat.min (q_ci q) (length (q_rings q) - 1) else q_ci q in
  match nth_error (q_rings q) idx with
  | Some _ => mkQ (upd idx wake_ring (q_rings q)) (q_ci q) 0 (q_cap q)
  | None => q
  end.

(* the loop of push that looks for the next free entry: Some q' with channel q_ci q' having a free
   entry, or None = Err(AtCapacity) (with the queue state it leaves behind) *)
Fixpoint find_entry (fuel : nat) (q : txq) : txq * bool :=
  match nth_error (q_rings q) (q_ci q) with
  | None => (q, false)
  | Some x =>
    if 0 <? p_len (tc x) then (q, true) else
    match fuel with
    | O => (q, false)
    | S f =>
      let q1 := if spill_flushes then flush_channel q else q in
      find_entry f (mkQ (q_rings q1) (S (q_ci q1)) (q_pending q1) (q_cap q1))
    end
  end.

(* one push: entry.tx_write, then release_message: release_no_wake(1), pending_release += 1 *)
Definition push1 (size : N) (q : txq) : txq * bool :=
  let '(q1, ok) := find_entry (length (q_rings q)) q in
  if negb ok then (q1, false) else
  let rel (x : txr) := let '(c, _) := produce size 1 (tc x) in mkT c (tcw x) (tpw x) (tcwk x) true in
  (mkQ (upd (q_ci q1) rel (q_rings q1)) (q_ci q1) (q_pending q1 + 1) (q_cap q1 - 1), true).

Fixpoint push_n (n : nat) (size : N) (q : txq) (done : N) : txq * N :=
  match n with
  | O => (q, done)
  | S k => let '(q1, ok) := push1 size q in if ok then push_n k size q1 (done + 1) else (q1, done)
  end.

(* Tx::queue(|q| for _ in 0..n { q.push(..)? }) ; drop(queue) *)
Definition queue_push (size : N) (n : nat) (s : txs) : txs * N :=
  let '(l1, counts) := acquire_all size (rings s) in
  let cap := sumN counts in
  let ci := match first_pos counts O with Some i => i | None => length l1 end in
  let '(q1, done) := push_n n size (mkQ l1 ci 0 cap) 0 in
  let q2 := flush_channel q1 in
  (mkTx (q_rings q2) (q_cap q2 =? 0) (ewakes s), done).

(* after the burst every socket task looks at its ring: Consumer::acquire(u32::MAX) *)
Definition consumers_acquire (size : N) (l : list txr) : list txr * list N :=
  fold_right (fun x acc => let '(c, n) := acquire_consumer size u32max (tc x) in
                           (mkT c (tcw x) (tpw x) (tcwk x) (towed x) :: fst acc, n :: snd acc)) ([], []) l.

(* Consumer::poll_acquire(u32::MAX, cx) of ring i *)
Definition consumer_poll (size : N) (x : txr) : txr * N * N :=
  let '(c1, n1) := acquire_consumer size u32max (tc x) in
  if 0 <? n1 then (mkT c1 (tcw x) (tpw x) (tcwk x) (towed x), 1, n1) else
  let '(c2, n2) := acquire_consumer size u32max c1 in
  if 0 <? n2 then (mkT c2 true (tpw x) (tcwk x) (towed x), 1, n2) else (mkT c2 true (tpw x) (tcwk x) (towed x), 0, 0).

(* Consumer::release(n) of ring i: release_no_wake(n); wake() -> the endpoint's waker, if registered *)
Definition consumer_release (size n : N) (x : txr) : txr * bool :=
  let n := N.min n (c_len (tc x)) in
  let '(c1, _) := consume size n (tc x) in
  (mkT c1 (tcw x) false (tcwk x) (towed x), tpw x).

(* Tx::poll_ready: Pending unless the last queue() found no capacity; otherwise poll_acquire(1, cx) on
   every channel (the rings stay open in this component) *)
Definition poll_ready_ring (size : N) (x : txr) : txr * bool :=
  let '(c1, n1) := acquire_producer size 1 (tc x) in
  if 0 <? n1 then (mkT c1 (tcw x) (tpw x) (tcwk x) (towed x), true) else
  let '(c2, n2) := acquire_producer size 1 c1 in
  (mkT c2 (tcw x) true (tcwk x) (towed x), 0 <? n2).
Definition poll_ready (size : N) (s : txs) : txs * N :=
  if negb (t_full s) then (s, 0) else
  let r := fold_right (fun x acc => let '(x', rdy) := poll_ready_ring size x in (x' :: fst acc, rdy || snd acc)) ([], false) (rings s) in
  (mkTx (fst r) (t_full s) (ewakes s), if snd r then 1 else 0).

Definition wakes_out (s : txs) : list Z :=
  map (fun i => Nz (match nth_error (rings s) i with Some x => tcwk x | None => 0 end)) [0; 1; 2]%nat ++ [Nz (ewakes s)].

(* case = [rings (1..3); log2 entries (0..4); (op, a, b)*]
   0 a _  queue + a pushes, then every consumer acquires -> pushed, visible_0..2, wakes
   1 i _  consumer i poll_acquire(MAX) -> code (0 Pending / 1 Ready), count, wakes
   2 i n  consumer i release(min n acquired) -> 0, n, wakes
   3 _ _  Tx::poll_ready -> code (0 Pending, 1 Ready), 0, wakes *)
Fixpoint trun (fuel : nat) (size : N) (ops : list Z) (s : txs) : list Z :=
  match fuel with O => [] | S f =>
  match ops with
  | [] => []
  | op :: r =>
    let a := N.min (zN (hd 0%Z r)) 64 in
    let b := N.min (zN (hd 0%Z (tl r))) 100000 in
    let r' := tl (tl r) in
    let nr := length (rings s) in
    let i := (N.to_nat a mod nr)%nat in
    match op with
    | 0%Z =>
        let '(s1, done) := queue_push size (N.to_nat a) s in
        let '(l2, vis) := consumers_acquire size (rings s1) in
        let s2 := mkTx l2 (t_full s1) (ewakes s1) in
        [Nz done] ++ map (fun j => Nz (nth j vis 0)) [0; 1; 2]%nat ++ wakes_out s2 ++ trun f size r' s2
    | 1%Z =>
        match nth_error (rings s) i with
        | None => []
        | Some x =>
          let '(x', code, n) := consumer_poll size x in
          let s' := mkTx (set_nth i (rings s) x') (t_full s) (ewakes s) in
          [Nz code; Nz n] ++ wakes_out s' ++ trun f size r' s'
        end
    | 2%Z =>
        match nth_error (rings s) i with
        | None => []
        | Some x =>
          let n := N.min b (c_len (tc x)) in
          let '(x', wk) := consumer_release size b x in
          let s' := mkTx (set_nth i (rings s) x') (t_full s) (if wk then ewakes s + 1 else ewakes s) in
          [0%Z; Nz n] ++ wakes_out s' ++ trun f size r' s'
        end
    | _ =>
        let '(s', code) := poll_ready size s in
        [Nz code; 0%Z] ++ wakes_out s' ++ trun f size r' s'
    end
  end end.

Definition tx_nr (case : list Z) : nat := S (N.to_nat (N.min (zN (hd 0%Z case)) 2)).
Definition tx_size (case : list Z) : N := 2 ^ (N.min (zN (hd 0%Z (tl case))) 4).
Definition run (case : list Z) : list Z :=
  trun (S (length case)) (tx_size case) (tl (tl case)) (tinit (tx_nr case) (tx_size case)).

(* the property on an implementation's output: every ring that received messages in a burst while its
   socket task was parked (last poll_acquire Pending) has been woken by the end of that burst; the
   messages handed to the socket tasks are exactly the ones pushed (counts), Pending only on an empty
   ring *)
Definition upd3 {A} (i : nat) (v : A) (l : list A) : list A := set_nth i l v.
Definition woken3 (w : option Z) (now : Z) : bool := match w with Some w0 => (w0 <? now)%Z | None => true end.

Fixpoint tjudge (fuel : nat) (nr : nat) (ops : list Z) (vis : list Z) (wait : list (option Z)) (out : list Z) : bool :=
  match fuel with O => false | S f =>
  match ops with
  | [] => match out with [] => true | _ => false end
  | op :: r =>
    let a := Z.to_nat (Z.min (Z.max (hd 0%Z r) 0) 64) in
    let r' := tl (tl r) in
    let i := (a mod nr)%nat in
    match op with
    | 0%Z =>
        match out with
        | pushed :: v0 :: v1 :: v2 :: c0 :: c1 :: c2 :: e :: out' =>
            let vs := [v0; v1; v2] in let cs := [c0; c1; c2] in
            let dl := map (fun j => (nth j vs 0 - nth j vis 0)%Z) [0; 1; 2]%nat in
            forallb (fun d => (0 <=? d)%Z) dl
            && (fold_right Z.add 0%Z dl =? pushed)%Z
            && forallb (fun j => if (0 <? nth j dl 0)%Z then woken3 (nth j wait None) (nth j cs 0%Z) else true) [0; 1; 2]%nat
            && tjudge f nr r' vs (map (fun j => if (0 <? nth j dl 0)%Z then None else nth j wait None) [0; 1; 2]%nat) out'
        | _ => false
        end
    | 1%Z =>
        match out with
        | code :: n :: c0 :: c1 :: c2 :: e :: out' =>
            if (code =? 0)%Z
            then (nth i vis 0 =? 0)%Z && tjudge f nr r' vis (upd3 i (Some (nth i [c0; c1; c2] 0%Z)) wait) out'
            else (0 <? n)%Z && (n <=? nth i vis 0)%Z && tjudge f nr r' vis (upd3 i None wait) out'
        | _ => false
        end
    | 2%Z =>
        match out with
        | code :: n :: c0 :: c1 :: c2 :: e :: out' =>
            (0 <=? n)%Z && (n <=? nth i vis 0)%Z && tjudge f nr r' (upd3 i (nth i vis 0 - n)%Z vis) wait out'
        | _ => false
        end
    | _ =>
        match out with
        | code :: n :: c0 :: c1 :: c2 :: e :: out' => tjudge f nr r' vis wait out'
        | _ => false
        end
    end
  end end.

Definition judge (case out : list Z) : bool :=
  tjudge (S (length case)) (tx_nr case) (tl (tl case)) [0; 0; 0]%Z [None; None; None] out.
