(* Verified trace monitors for the end-to-end harness (harness/h_e2e/src/bin/E2E.rs).

   The harness runs real s2n-quic endpoints on the deterministic testing IO provider and prints
   integer traces; the boolean monitors below are the *property texts* of C01 / C02 / C03 / C12
   (e2e_stream), C11 (e2e_amp) and C06 (e2e_inject) evaluated on such a trace.  Running a monitor
   on a trace is testing, not proof.  What is proved (proofs/E2EProofs.v) is monitor soundness:
   monitor = true implies the Prop-level statement over the trace.

   Executable definitions only. *)
From SQ Require Import lib.Base.
Local Open Scope Z_scope.

(* ------------------------------------------------------------------------------------------ *)
(* parsing helpers                                                                            *)
(* ------------------------------------------------------------------------------------------ *)

Definition nz (l : list Z) (i : nat) : Z := nth i l 0.

Fixpoint rows (w n : nat) (l : list Z) : list (list Z) :=
  match n with
  | O => []
  | S k => firstn w l :: rows w k (skipn w l)
  end.

(* [n] rows of width [w] from the front of [l]; None when [l] is too short or [n] negative *)
Definition take_rows (w : nat) (n : Z) (l : list Z) : option (list (list Z) * list Z) :=
  let k := Z.to_nat n in
  if (0 <=? n) && Nat.leb (k * w) (length l)
  then Some (rows w k l, skipn (k * w) l)
  else None.

(* ------------------------------------------------------------------------------------------ *)
(* trace records                                                                              *)
(* ------------------------------------------------------------------------------------------ *)

(* one direction of one stream, as seen by the two applications *)
Record flow := {
  f_sid : Z; f_dir : Z; f_expected : Z;
  f_written : Z;       (* bytes the sending application handed to the stream API *)
  f_fin : Z;           (* finish() returned Ok *)
  f_read : Z;          (* bytes the receiving application read *)
  f_wrong : Z;         (* first offset at which a read byte differed from the written byte, -1 if none *)
  f_eos : Z;           (* the reader saw a clean end of stream *)
  f_errw : Z; f_errr : Z }.

Definition mk_flow (r : list Z) : flow :=
  {| f_sid := nz r 0; f_dir := nz r 1; f_expected := nz r 2; f_written := nz r 3; f_fin := nz r 4;
     f_read := nz r 5; f_wrong := nz r 6; f_eos := nz r 7; f_errw := nz r 8; f_errr := nz r 9 |}.

Record epinfo := {
  e_started : Z; e_closed : Z; e_class : Z; e_closed_us : Z; e_last_rx : Z;
  e_idle_base : Z;     (* last processed packet, or the first ack-eliciting send after it *)
  e_max_pto : Z; e_tstarted : Z; e_tdone : Z; e_last_done : Z;
  e_tp_rx : Z;         (* the peer's transport parameters arrived: the idle timeout is negotiated *)
  e_conn_start : Z }.

Definition mk_ep (r : list Z) : epinfo :=
  {| e_started := nz r 0; e_closed := nz r 1; e_class := nz r 2; e_closed_us := nz r 3;
     e_last_rx := nz r 4; e_idle_base := nz r 5; e_max_pto := nz r 6; e_tstarted := nz r 7;
     e_tdone := nz r 8; e_last_done := nz r 9; e_tp_rx := nz r 10; e_conn_start := nz r 11 |}.

(* one frame of a sent packet (r_dir = 0) or of a processed packet (r_dir = 1) *)
Record frec := {
  r_ep : Z;            (* 0 client, 1 server *)
  r_dir : Z; r_kind : Z; r_sid : Z; r_off : Z; r_len : Z; r_fin : Z;
  r_ck : Z;            (* checksum of the frame's data *)
  r_lim : Z;           (* limit value / error code *)
  r_badw : Z;          (* first offset where the data differs from what the application wrote, -1 *)
  r_badf : Z }.        (* first offset where the data differs from the bytes first sent there, -1 *)

Definition mk_frec (r : list Z) : frec :=
  {| r_ep := nz r 0; r_dir := nz r 1; r_kind := nz r 2; r_sid := nz r 3; r_off := nz r 4;
     r_len := nz r 5; r_fin := nz r 6; r_ck := nz r 7; r_lim := nz r 8; r_badw := nz r 9;
     r_badf := nz r 10 |}.

Definition K_STREAM := 1.
Definition K_RESET := 2.
Definition K_MAX_STREAM_DATA := 3.
Definition K_MAX_DATA := 4.
Definition K_MAX_STREAMS := 5.
Definition K_SDB := 7.
Definition K_CLOSE := 8.
Definition K_TP_MAX_DATA := 10.
Definition K_TP_SD_BIDI_LOCAL := 11.
Definition K_TP_SD_BIDI_REMOTE := 12.
Definition K_TP_SD_UNI := 13.
Definition K_TP_STREAMS_BIDI := 14.
Definition K_TP_STREAMS_UNI := 15.

(* ------------------------------------------------------------------------------------------ *)
(* C01: what is read is a prefix of what was written, complete on a clean end of stream       *)
(* ------------------------------------------------------------------------------------------ *)

(* the comparison the harness performs on the bytes an application read: first index (counted
   from [off]) at which [rd] differs from the written byte function [w]; -1 when none *)
Fixpoint first_wrong (w : Z -> Z) (off : Z) (rd : list Z) : Z :=
  match rd with
  | [] => -1
  | b :: t => if b =? w off then first_wrong w (off + 1) t else off
  end.

Definition flow_ok (f : flow) : bool :=
  (f_wrong f =? -1) && (0 <=? f_read f) && (f_read f <=? f_written f) &&
  (if f_eos f =? 1 then (f_fin f =? 1) && (f_read f =? f_written f) else true).

Definition c01_ok (fl : list flow) : bool := forallb flow_ok fl.

(* ------------------------------------------------------------------------------------------ *)
(* C02: no stall; completion under finite faults; timely failure report under a blackhole     *)
(* ------------------------------------------------------------------------------------------ *)

Definition flow_complete (f : flow) : bool :=
  (f_written f =? f_expected f) && (f_fin f =? 1) && (f_read f =? f_written f) &&
  (f_eos f =? 1) && (f_errw f =? 0) && (f_errr f =? 0).

(* every value in microseconds; the initial PTO of s2n-quic (333 ms initial RTT) is 999 ms: the
   bound uses at least 1.1 s per PTO and 100 ms of slack for timer granularity *)
Definition idle_deadline (idle_ms : Z) (e : epinfo) : Z :=
  e_idle_base e + Z.max (idle_ms * 1000) (3 * Z.max (e_max_pto e) 1100000) + 100000.

(* before the peer's transport parameters arrive no idle timeout is negotiated: the configured
   handshake duration limit bounds the wait instead *)
Definition deadline (idle_ms hs_ms : Z) (e : epinfo) : Z :=
  if e_tp_rx e =? 1 then idle_deadline idle_ms e
  else Z.max (idle_deadline idle_ms e) (e_conn_start e + hs_ms * 1000 + 100000).

(* an endpoint under a permanent blackhole: nothing to report, or reported in time *)
Definition ep_reports (idle_ms hs_ms : Z) (e : epinfo) : bool :=
  (e_tdone e =? e_tstarted e) &&
  ((e_started e =? 0) ||
   ((e_closed e =? 1) && (e_closed_us e <=? deadline idle_ms hs_ms e) &&
    (e_last_done e <=? deadline idle_ms hs_ms e))).

Definition c02_ok (watchdog connect_ok n_bidi n_uni idle_ms hs_ms perm_bh : Z) (c s : epinfo) (fl : list flow) : bool :=
  (watchdog =? 0) &&
  (if perm_bh =? 1 then
     (* either everything completed before the blackhole bit, or both sides report in time *)
     (forallb flow_complete fl && (Z.of_nat (length fl) =? 2 * n_bidi + n_uni) &&
      (e_tdone c =? e_tstarted c) && (e_tdone s =? e_tstarted s))
     || (ep_reports idle_ms hs_ms c && ep_reports idle_ms hs_ms s)
   else
     (connect_ok =? 1) && forallb flow_complete fl && (Z.of_nat (length fl) =? 2 * n_bidi + n_uni) &&
     (e_tdone c =? e_tstarted c) && (e_tdone s =? e_tstarted s)).

(* ------------------------------------------------------------------------------------------ *)
(* C12: what an endpoint sends is self-consistent (pairwise relation over its sent frames)    *)
(* ------------------------------------------------------------------------------------------ *)

Definition is_tx (r : frec) : bool := r_dir r =? 0.
Definition is_stream (r : frec) : bool := r_kind r =? K_STREAM.
Definition rend (r : frec) : Z := r_off r + r_len r.

(* the final size a record announces *)
Definition final_of (r : frec) : option Z :=
  if (r_kind r =? K_STREAM) && (r_fin r =? 1) then Some (rend r)
  else if r_kind r =? K_RESET then Some (r_off r)
  else None.

Definition per_stream_kind (r : frec) : bool :=
  (r_kind r =? K_STREAM) || (r_kind r =? K_RESET) || (r_kind r =? K_SDB).

(* [o] was sent before [r] *)
Definition compat (o r : frec) : bool :=
  if negb (is_tx o && is_tx r && (r_ep o =? r_ep r)) then true else
  (* after the first CONNECTION_CLOSE nothing but CONNECTION_CLOSE *)
  (if r_kind o =? K_CLOSE then r_kind r =? K_CLOSE else true) &&
  (if negb (per_stream_kind o && per_stream_kind r && (r_sid o =? r_sid r)) then true else
     (* identical ranges carry identical data *)
     (if is_stream o && is_stream r && (r_off o =? r_off r) && (r_len o =? r_len r)
      then r_ck o =? r_ck r else true) &&
     (* an announced final size bounds every STREAM frame, before and after, and never changes *)
     (match final_of o with
      | Some z => (if is_stream r then rend r <=? z else true) &&
                  (match final_of r with Some z' => z' =? z | None => true end)
      | None => true
      end) &&
     (match final_of r with
      | Some z => if is_stream o then rend o <=? z else true
      | None => true
      end) &&
     (* nothing for the stream after its RESET_STREAM but further copies of the reset *)
     (if r_kind o =? K_RESET then r_kind r =? K_RESET else true)).

Fixpoint pairs_ok (c : frec -> frec -> bool) (seen : list frec) (l : list frec) : bool :=
  match l with
  | [] => true
  | r :: t => forallb (fun o => c o r) seen && pairs_ok c (r :: seen) t
  end.

(* a sent STREAM frame is a slice of what the application wrote and equals what was first sent *)
Definition slice_ok (r : frec) : bool :=
  if is_tx r && is_stream r then (r_badw r =? -1) && (r_badf r =? -1) && (0 <=? r_off r) && (0 <=? r_len r) else true.

(* stream ids handed out by the API, in the order of the open calls: each type strictly
   increasing in steps of 4 from its base *)
Fixpoint ids_ok (next_bidi next_uni : Z) (l : list Z) : bool :=
  match l with
  | [] => true
  | s :: t => if s =? next_bidi then ids_ok (next_bidi + 4) next_uni t
              else if s =? next_uni then ids_ok next_bidi (next_uni + 4) t
              else false
  end.

Definition c12_ok (recs : list frec) (opened : list Z) : bool :=
  forallb slice_ok recs && pairs_ok compat [] recs && ids_ok 0 2 opened.

(* ------------------------------------------------------------------------------------------ *)
(* C03: every sent STREAM frame within the limits received so far                             *)
(* ------------------------------------------------------------------------------------------ *)

Definition sid_initiator (sid : Z) : Z := sid mod 2.
Definition sid_is_uni (sid : Z) : bool := 2 <=? sid mod 4.

Definition rx_of (ep : Z) (r : frec) : bool := (r_ep r =? ep) && (r_dir r =? 1).

(* what an rx record grants endpoint [ep] for stream data on [sid] *)
Definition grant_stream (ep sid : Z) (r : frec) : Z :=
  if negb (rx_of ep r) then 0 else
  if (r_kind r =? K_MAX_STREAM_DATA) && (r_sid r =? sid) then r_lim r else
  if sid_is_uni sid then (if r_kind r =? K_TP_SD_UNI then r_lim r else 0) else
  if sid_initiator sid =? ep
  then (if r_kind r =? K_TP_SD_BIDI_REMOTE then r_lim r else 0)
  else (if r_kind r =? K_TP_SD_BIDI_LOCAL then r_lim r else 0).

Definition grant_conn (ep : Z) (r : frec) : Z :=
  if rx_of ep r && ((r_kind r =? K_MAX_DATA) || (r_kind r =? K_TP_MAX_DATA)) then r_lim r else 0.

Definition grant_count (ep sid : Z) (r : frec) : Z :=
  if negb (rx_of ep r) then 0 else
  if sid_is_uni sid
  then (if ((r_kind r =? K_MAX_STREAMS) && (r_sid r =? 1)) || (r_kind r =? K_TP_STREAMS_UNI) then r_lim r else 0)
  else (if ((r_kind r =? K_MAX_STREAMS) && (r_sid r =? 0)) || (r_kind r =? K_TP_STREAMS_BIDI) then r_lim r else 0).

(* the largest grant in a list of records (0 when none) *)
Definition maxg (g : frec -> Z) (l : list frec) : Z := fold_right (fun r m => Z.max (g r) m) 0 l.

(* highest end offset sent so far per (endpoint, stream) *)
Fixpoint bump (ep sid e : Z) (h : list (Z * Z * Z)) : list (Z * Z * Z) :=
  match h with
  | [] => [(ep, sid, e)]
  | (ep', sid', e') :: t =>
      if (ep' =? ep) && (sid' =? sid) then (ep', sid', Z.max e e') :: t
      else (ep', sid', e') :: bump ep sid e t
  end.

Definition conn_used (ep : Z) (h : list (Z * Z * Z)) : Z :=
  fold_right (fun x acc => match x with (ep', _, e) => if ep' =? ep then e + acc else acc end) 0 h.

Record st03 := { lims : list frec; highs : list (Z * Z * Z) }.

Definition upd03 (s : st03) (r : frec) : st03 :=
  {| lims := if r_dir r =? 1 then lims s ++ [r] else lims s;
     highs := if is_tx r && is_stream r then bump (r_ep r) (r_sid r) (rend r) (highs s) else highs s |}.

Definition check03 (s : st03) (r : frec) : bool :=
  if is_tx r && is_stream r then
    (rend r <=? maxg (grant_stream (r_ep r) (r_sid r)) (lims s)) &&
    (conn_used (r_ep r) (highs (upd03 s r)) <=? maxg (grant_conn (r_ep r)) (lims s)) &&
    (if sid_initiator (r_sid r) =? r_ep r
     then r_sid r / 4 + 1 <=? maxg (grant_count (r_ep r) (r_sid r)) (lims s)
     else true)
  else true.

Fixpoint scan03 (s : st03) (l : list frec) : bool :=
  match l with
  | [] => true
  | r :: t => check03 s r && scan03 (upd03 s r) t
  end.

Definition st03_init : st03 := {| lims := []; highs := [] |}.
Definition c03_ok (recs : list frec) : bool := scan03 st03_init recs.

(* ------------------------------------------------------------------------------------------ *)
(* e2e_stream: layout of the harness output and the judge                                     *)
(* ------------------------------------------------------------------------------------------ *)
(* [1, watchdog, end_us, last_progress_us, connect_ok, n_bidi, n_uni, idle_ms, perm_bh, hs_ms,
    client x12, server x12, n_flows, flows x10, n_opened, opened.., capped, n_records, records x11] *)

Record strace := {
  t_watchdog : Z; t_connect_ok : Z; t_n_bidi : Z; t_n_uni : Z; t_idle_ms : Z; t_perm_bh : Z; t_hs_ms : Z;
  t_client : epinfo; t_server : epinfo; t_flows : list flow; t_opened : list Z; t_recs : list frec }.

Definition parse_stream (out : list Z) : option strace :=
  if negb ((nz out 0 =? 1) && Nat.leb 35 (length out)) then None else
  let c := mk_ep (firstn 12 (skipn 10 out)) in
  let s := mk_ep (firstn 12 (skipn 22 out)) in
  match take_rows 10 (nz out 34) (skipn 35 out) with
  | None => None
  | Some (frows, rest) =>
      match take_rows 1 (nz rest 0) (skipn 1 rest) with
      | None => None
      | Some (orows, rest2) =>
          match take_rows 11 (nz rest2 1) (skipn 2 rest2) with
          | None => None
          | Some (rrows, rest3) =>
              match rest3 with
              | [] => Some {| t_watchdog := nz out 1; t_connect_ok := nz out 4; t_n_bidi := nz out 5;
                              t_n_uni := nz out 6; t_idle_ms := nz out 7; t_perm_bh := nz out 8; t_hs_ms := nz out 9;
                              t_client := c; t_server := s; t_flows := map mk_flow frows;
                              t_opened := map (fun r => nz r 0) orows; t_recs := map mk_frec rrows |}
              | _ => None
              end
          end
      end
  end.

Definition stream_monitor (t : strace) : bool :=
  c01_ok (t_flows t) &&
  c02_ok (t_watchdog t) (t_connect_ok t) (t_n_bidi t) (t_n_uni t) (t_idle_ms t) (t_hs_ms t) (t_perm_bh t)
         (t_client t) (t_server t) (t_flows t) &&
  c12_ok (t_recs t) (t_opened t) &&
  c03_ok (t_recs t).

Definition e2e_stream_judge (case out : list Z) : bool :=
  match parse_stream out with
  | Some t => stream_monitor t
  | None => false
  end.

(* ------------------------------------------------------------------------------------------ *)
(* e2e_amp (C11): the wire log                                                                *)
(* ------------------------------------------------------------------------------------------ *)
(* [1, server_id, client_id, n_raw, server_first_handshake_rx_us, connect_ok, watchdog, capped,
    n_wire, client_id_after_rebinding (-1 none), wire x7: (t_us, kind, src, dst, len, first byte, class)]
   kind 0 = put on the wire by src; 1 = delivered to dst; 2 = the server processed the first
   client Handshake packet (address validated).
   class 0 short header; 1 datagram contains an Initial packet; 2 other long header;
   3 Version Negotiation; 4 too short to tell *)

Record wrec := { w_t : Z; w_kind : Z; w_src : Z; w_dst : Z; w_len : Z; w_fb : Z; w_class : Z }.

Definition mk_wrec (r : list Z) : wrec :=
  {| w_t := nz r 0; w_kind := nz r 1; w_src := nz r 2; w_dst := nz r 3; w_len := nz r 4;
     w_fb := nz r 5; w_class := nz r 6 |}.

(* sent by the server to address [a] *)
Definition srv_to (srv a : Z) (e : wrec) : bool :=
  (w_kind e =? 0) && (w_src e =? srv) && (w_dst e =? a).
(* delivered to the server from address [a] *)
Definition to_srv_from (srv a : Z) (e : wrec) : bool :=
  (w_kind e =? 1) && (w_dst e =? srv) && (w_src e =? a).
Definition is_marker (e : wrec) : bool := w_kind e =? 2.

(* a reply to an address that has no connection: the most recent event concerning that address
   must be the delivery of a datagram from it (one reply per trigger), and
   - a Version Negotiation reply needs a trigger of at least 1200 bytes that is not itself
     Version Negotiation,
   - any other reply (stateless reset) must be strictly smaller than the trigger *)
Definition reply_ok (srv : Z) (seen : list wrec) (e : wrec) : bool :=
  let a := w_dst e in
  match find (fun t => srv_to srv a t || to_srv_from srv a t) seen with
  | Some t => to_srv_from srv a t &&
              (if w_class e =? 3 then (1200 <=? w_len t) && negb (w_class t =? 3)
               else w_len e <? w_len t)
  | None => false
  end.

(* [seen] = the events so far, newest first; recv / sent = bytes the server received from / sent
   to the client's address so far; valid = the marker was seen *)
Fixpoint amp_scan (srv cli : Z) (seen : list wrec) (recv sent : Z) (valid : bool) (l : list wrec) : bool :=
  match l with
  | [] => true
  | e :: t =>
      (if (w_kind e =? 0) && (w_src e =? srv) then
         if w_dst e =? cli
         then valid || (sent <? 3 * recv)            (* checked when the send starts *)
         else reply_ok srv seen e
       else true) &&
      (* a client datagram carrying an Initial packet is at least 1200 bytes *)
      (if (w_kind e =? 0) && (w_src e =? cli) && (w_class e =? 1) then 1200 <=? w_len e else true) &&
      (0 <=? w_len e) &&
      amp_scan srv cli (e :: seen)
        (if to_srv_from srv cli e then recv + w_len e else recv)
        (if srv_to srv cli e then sent + w_len e else sent)
        (valid || is_marker e) t
  end.

(* A client that moves to a new address mid-connection starts there as an unvalidated address
   again (RFC 9000 9.3): the same scan is run for the second client address [cli2] on the log
   without the rows of the first address, with the path-validated marker (kind 3, src = that
   address) in the role of the address-validated marker; and the first scan runs on the log
   without the rows of the second address. *)
Definition involves (a : Z) (e : wrec) : bool := (w_src e =? a) || (w_dst e =? a).

Definition remark (cli2 : Z) (e : wrec) : wrec :=
  if (w_kind e =? 3) && (w_src e =? cli2)
  then {| w_t := w_t e; w_kind := 2; w_src := w_src e; w_dst := w_dst e; w_len := w_len e; w_fb := w_fb e; w_class := w_class e |}
  else if w_kind e =? 2
  then {| w_t := w_t e; w_kind := 9; w_src := w_src e; w_dst := w_dst e; w_len := w_len e; w_fb := w_fb e; w_class := w_class e |}
  else e.

Definition amp_log1 (cli2 : Z) (l : list wrec) : list wrec :=
  filter (fun e => negb (involves cli2 e && negb (cli2 =? -1))) l.
Definition amp_log2 (cli cli2 : Z) (l : list wrec) : list wrec :=
  map (remark cli2) (filter (fun e => negb (involves cli e) || (w_kind e =? 2)) l).

Definition e2e_amp_judge (case out : list Z) : bool :=
  if negb ((nz out 0 =? 1) && Nat.leb 10 (length out)) then false else
  match take_rows 7 (nz out 8) (skipn 10 out) with
  | Some (rws, []) =>
      let l := map mk_wrec rws in
      let srv := nz out 1 in let cli := nz out 2 in let cli2 := nz out 9 in
      (nz out 6 =? 0) &&
      amp_scan srv cli [] 0 0 false (amp_log1 cli2 l) &&
      ((cli2 =? -1) || amp_scan srv cli2 [] 0 0 false (amp_log2 cli cli2 l))
  | _ => false
  end.

(* ------------------------------------------------------------------------------------------ *)
(* e2e_inject (C06)                                                                           *)
(* ------------------------------------------------------------------------------------------ *)
(* [1, watchdog, connect_ok, n_bidi, n_uni, client x12, server x12, n_flows, flows x10,
    injected x6, then per endpoint: capped, n, (space, pn, genuine) x n sorted by (space, pn)] *)

Record prec := { p_space : Z; p_pn : Z; p_genuine : Z }.
Definition mk_prec (r : list Z) : prec := {| p_space := nz r 0; p_pn := nz r 1; p_genuine := nz r 2 |}.

Definition key_lt (a b : prec) : bool :=
  (p_space a <? p_space b) || ((p_space a =? p_space b) && (p_pn a <? p_pn b)).

(* strictly increasing in (space, packet number): no pair is processed twice *)
Fixpoint strictly_sorted (l : list prec) : bool :=
  match l with
  | [] => true
  | a :: t => match t with
              | [] => true
              | b :: _ => key_lt a b && strictly_sorted t
              end
  end.

Definition processed_ok (l : list prec) : bool :=
  forallb (fun p => p_genuine p =? 1) l && strictly_sorted l.

Definition ep_alive (e : epinfo) : bool :=
  (e_tdone e =? e_tstarted e) && ((e_closed e =? 0) || (e_class e =? 1)).

Definition e2e_inject_judge (case out : list Z) : bool :=
  if negb ((nz out 0 =? 1) && Nat.leb 30 (length out)) then false else
  let c := mk_ep (firstn 12 (skipn 5 out)) in
  let s := mk_ep (firstn 12 (skipn 17 out)) in
  match take_rows 10 (nz out 29) (skipn 30 out) with
  | None => false
  | Some (frows, rest) =>
      let fl := map mk_flow frows in
      let rest1 := skipn 6 rest in
      match take_rows 3 (nz rest1 1) (skipn 2 rest1) with
      | None => false
      | Some (prc, rest2) =>
          match take_rows 3 (nz rest2 1) (skipn 2 rest2) with
          | Some (prs, []) =>
              (nz out 1 =? 0) && (nz out 2 =? 1) &&
              c01_ok fl && forallb flow_complete fl &&
              (Z.of_nat (length fl) =? 2 * nz out 3 + nz out 4) &&
              ep_alive c && ep_alive s &&
              processed_ok (map mk_prec prc) && processed_ok (map mk_prec prs)
          | _ => false
          end
      end
  end.

(* ------------------------------------------------------------------------------------------ *)
(* e2e_pn (C08): packet numbers and acknowledgements                                          *)
(* ------------------------------------------------------------------------------------------ *)
(* [1, watchdog, connect_ok, end_us, client max_ack_delay_us, capped, n_rows, server max_ack_delay_us, rows x8]
   row = (kind, endpoint, space, a, b, t_us, _, _), in order of occurrence:
   0 packet built for sending (a = packet number, b = ack eliciting)
   1 packet processed (a = packet number, b = ack eliciting)
   2 one range a..=b of an ACK frame this endpoint sends
   3 keys of the space discarded       4 the connection ended at this endpoint *)

Record xrow := { x_k : Z; x_ep : Z; x_sp : Z; x_a : Z; x_b : Z; x_t : Z; x_c : Z; x_d : Z }.
Definition mk_xrow (r : list Z) : xrow :=
  {| x_k := nz r 0; x_ep := nz r 1; x_sp := nz r 2; x_a := nz r 3; x_b := nz r 4; x_t := nz r 5;
     x_c := nz r 6; x_d := nz r 7 |}.

(* row [r] is of kind [k] and belongs to endpoint [ep], space [sp] *)
Definition row_is (k ep sp : Z) (r : xrow) : bool := (x_k r =? k) && (x_ep r =? ep) && (x_sp r =? sp).

(* (1) the packet numbers an endpoint uses in a space strictly increase *)
Fixpoint incr1 (ep sp last : Z) (l : list xrow) : bool :=
  match l with
  | [] => true
  | r :: t => if row_is 0 ep sp r then (last <? x_a r) && incr1 ep sp (x_a r) t else incr1 ep sp last t
  end.

(* (2) every acknowledged range consists of packet numbers processed before.  The processed
   numbers are kept as closed intervals; a range may span several adjacent intervals. *)
Definition in_iv (x : Z) (iv : Z * Z) : bool := (fst iv <=? x) && (x <=? snd iv).

Fixpoint add_pn (p : Z) (ivs : list (Z * Z)) : list (Z * Z) :=
  match ivs with
  | [] => [(p, p)]
  | (lo, hi) :: t =>
      if (lo <=? p) && (p <=? hi) then (lo, hi) :: t
      else if p =? hi + 1 then (lo, p) :: t
      else if p =? lo - 1 then (p, hi) :: t
      else (lo, hi) :: add_pn p t
  end.

Fixpoint covers (ivs : list (Z * Z)) (lo hi : Z) (fuel : nat) : bool :=
  match fuel with
  | O => false
  | S f => match find (in_iv lo) ivs with
           | None => false
           | Some iv => if hi <=? snd iv then true else covers ivs (snd iv + 1) hi f
           end
  end.

Fixpoint ack1 (ep sp : Z) (ivs : list (Z * Z)) (l : list xrow) : bool :=
  match l with
  | [] => true
  | r :: t =>
      if row_is 1 ep sp r then ack1 ep sp (add_pn (x_a r) ivs) t
      else if row_is 2 ep sp r
      then (x_a r <=? x_b r) && covers ivs (x_a r) (x_b r) (S (length ivs)) && ack1 ep sp ivs t
      else ack1 ep sp ivs t
  end.

(* (3) application space: an ack-eliciting packet that is the largest processed so far is covered
   by an ACK frame sent no later than processing time + max_ack_delay + slack, unless the
   connection ended or the recording stopped before that.  (Packets below the largest are left
   to RFC 9000 13.2.3/13.2.4: a receiver may limit the ranges it keeps and stops reporting
   ranges it knows the peer has seen; Initial and Handshake are left out because keys may be
   unavailable or discarded and the server may be amplification limited there.) *)
Definition ACK_SLACK_US := 5000.

Definition closes (ep : Z) (r : xrow) : bool := (x_k r =? 4) && (x_ep r =? ep).

Fixpoint ackt (ep d endt : Z) (pend : list (Z * Z)) (largest : Z) (l : list xrow) : bool :=
  match l with
  | [] => forallb (fun p => endt <=? snd p) pend
  | r :: t =>
      forallb (fun p => x_t r <=? snd p) pend &&
      (if closes ep r then true
       else if row_is 2 ep 2 r
       then ackt ep d endt (filter (fun p => negb ((x_a r <=? fst p) && (fst p <=? x_b r))) pend) largest t
       else if row_is 1 ep 2 r
       then ackt ep d endt
              (if (x_b r =? 1) && (largest <? x_a r) then (x_a r, x_t r + d) :: pend else pend)
              (Z.max largest (x_a r)) t
       else ackt ep d endt pend largest t)
  end.

Fixpoint times_ok (last : Z) (l : list xrow) : bool :=
  match l with
  | [] => true
  | r :: t => (last <=? x_t r) && times_ok (x_t r) t
  end.

(* mad0 / mad1: the max_ack_delay the client / the server itself advertised *)
Definition pn_monitor (endt mad0 mad1 : Z) (l : list xrow) : bool :=
  times_ok 0 l &&
  forallb (fun ep => forallb (fun sp => incr1 ep sp (-1) l && ack1 ep sp [] l) [0; 1; 2]) [0; 1] &&
  ackt 0 (mad0 + ACK_SLACK_US) endt [] (-1) l && ackt 1 (mad1 + ACK_SLACK_US) endt [] (-1) l.

Definition e2e_pn_judge (case out : list Z) : bool :=
  if negb ((nz out 0 =? 1) && Nat.leb 8 (length out)) then false else
  match take_rows 8 (nz out 6) (skipn 8 out) with
  | Some (rws, []) =>
      pn_monitor (nz out 3) (nz out 4) (nz out 7) (map mk_xrow rws)
  | _ => false
  end.

(* ------------------------------------------------------------------------------------------ *)
(* e2e_cid (C13): connection ids issued and retired                                           *)
(* ------------------------------------------------------------------------------------------ *)
(* [1, watchdog, connect_ok, limit_client, limit_server, capped, n_rows, rows x8]
   row = (kind, endpoint, seq, retire_prior_to, id hash, token hash, dcid hash, t_us):
   0 NEW_CONNECTION_ID sent   1 RETIRE_CONNECTION_ID sent (dcid hash: destination id of its datagram)
   2 NEW_CONNECTION_ID received   3 RETIRE_CONNECTION_ID received
   4 datagram dropped for an unknown destination id (id hash)
   5 the endpoint's handshake connection id, sequence number 0 (id hash)
   6 transport parameters received: the seq field holds the peer's active_connection_id_limit
   (s2n-quic advertises 3 whatever Limits::with_max_active_connection_ids is set to, so the
   limit is read from the trace and the configured values in the header are informational) *)

Definition c_seq (r : xrow) : Z := x_sp r.
Definition c_rpt (r : xrow) : Z := x_a r.
Definition c_id (r : xrow) : Z := x_b r.
Definition c_tok (r : xrow) : Z := x_t r.
Definition c_dcid (r : xrow) : Z := x_c r.

Definition kind_of (k ep : Z) (r : xrow) : bool := (x_k r =? k) && (x_ep r =? ep).

Definition max_of (f : xrow -> Z) (l : list xrow) : Z := fold_right (fun r m => Z.max (f r) m) 0 l.

Fixpoint mem_z (x : Z) (l : list Z) : bool :=
  match l with [] => false | y :: t => (x =? y) || mem_z x t end.

Fixpoint dedup (l : list Z) : list Z :=
  match l with [] => [] | x :: t => if mem_z x t then dedup t else x :: dedup t end.

(* [pre] = the rows before [r] (any order) *)
Definition cid_check (limit_c limit_s : Z) (pre : list xrow) (r : xrow) : bool :=
  let e := x_ep r in
  let mine := filter (kind_of 0 e) pre in          (* NEW_CONNECTION_ID frames e sent before *)
  let own0 := filter (kind_of 5 e) pre in          (* e's handshake id *)
  let retired := map c_seq (filter (kind_of 3 e) pre) in   (* RETIRE_CONNECTION_ID frames e received *)
  if x_k r =? 0 then
    (* a repeated sequence number repeats the same id and token; a new one brings a new id and token *)
    forallb (fun o => if c_seq o =? c_seq r then (c_id o =? c_id r) && (c_tok o =? c_tok r)
                      else negb (c_id o =? c_id r) && negb (c_tok o =? c_tok r)) mine &&
    forallb (fun o => negb (c_id o =? c_id r)) own0 &&
    (* sequence numbers are consecutive *)
    (1 <=? c_seq r) && (c_seq r <=? max_of c_seq mine + 1) &&
    (* retire_prior_to never exceeds the frame's own sequence number *)
    (c_rpt r <=? c_seq r) &&
    (* ids issued, not retired by the peer and not below the largest retire_prior_to sent: within
       the active_connection_id_limit received from the peer (2 if none was received) *)
    (let rp := Z.max (c_rpt r) (max_of c_rpt mine) in
     let seqs := dedup (0 :: c_seq r :: map c_seq mine) in
     Z.of_nat (length (filter (fun s => (rp <=? s) && negb (mem_z s retired)) seqs))
       <=? Z.max 2 (max_of c_seq (filter (kind_of 6 e) pre)))
  else if x_k r =? 1 then
    let theirs := filter (kind_of 2 e) pre in      (* NEW_CONNECTION_ID frames e received *)
    let peer0 := filter (kind_of 5 (1 - e)) pre in
    (* only ids the peer issued (or implied by its retire_prior_to) are retired *)
    ((c_seq r <=? max_of c_seq theirs) || (c_seq r <? max_of c_rpt theirs)) && (0 <=? c_seq r) &&
    (* and never in a packet addressed to that very id *)
    ((c_dcid r =? -1) ||
     (forallb (fun o => negb ((c_seq o =? c_seq r) && (c_id o =? c_dcid r))) theirs &&
      forallb (fun o => negb ((c_seq r =? 0) && (c_id o =? c_dcid r))) peer0))
  else if x_k r =? 4 then
    (* a datagram for an id this endpoint issued is only dropped as unknown once the peer retired
       the id or this endpoint asked for its retirement *)
    forallb (fun o => if c_id o =? c_id r
                      then mem_z (c_seq o) retired || (c_seq o <? max_of c_rpt mine) else true)
            (mine ++ own0)
  else true.

Fixpoint cid_scan (lc ls : Z) (pre : list xrow) (l : list xrow) : bool :=
  match l with
  | [] => true
  | r :: t => cid_check lc ls pre r && cid_scan lc ls (r :: pre) t
  end.

Definition e2e_cid_judge (case out : list Z) : bool :=
  if negb ((nz out 0 =? 1) && Nat.leb 7 (length out)) then false else
  match take_rows 8 (nz out 6) (skipn 7 out) with
  | Some (rws, []) => cid_scan (nz out 3) (nz out 4) [] (map mk_xrow rws)
  | _ => false
  end.

(* ------------------------------------------------------------------------------------------ *)
(* e2e_cc (C09 / C10): loss detection and congestion control bookkeeping, sender side         *)
(* ------------------------------------------------------------------------------------------ *)
(* [1, watchdog, connect_ok, cc (0 cubic, 1 bbr), capped, n_rows, rows x8]
   row = (kind, endpoint, x, a, b, c, d, t_us):
   0 packet sent: x space, a packet number, b bytes, c ack eliciting, d mode (0 normal, 1 loss
     recovery probe, 2 MTU probe, 3 path validation)
   1 ACK range received: x space, a..=b      2 packet lost: x space, a pn, c = is MTU probe
   3 recovery metrics: a cwnd, b bytes_in_flight, c smoothed rtt, d latest rtt (us)
   4 key space discarded: x space   5 congestion event   6 MTU updated: a   7 connection closed *)

Definition g_x (r : xrow) := x_sp r.
Definition g_a (r : xrow) := x_a r.
Definition g_b (r : xrow) := x_b r.
Definition g_c (r : xrow) := x_t r.
Definition g_d (r : xrow) := x_c r.
Definition g_time (r : xrow) := x_d r.

(* an unresolved sent packet *)
Record upkt := { u_sp : Z; u_pn : Z; u_bytes : Z; u_el : Z; u_t : Z }.

Record ccst := {
  s_unres : list upkt;          (* sent, not acknowledged, not lost, space not discarded *)
  s_largest : Z -> Z;           (* largest acknowledged packet number per space, -1 if none *)
  s_cwnd : Z; s_srtt : Z; s_latest : Z; s_mtu : Z;
  s_bif : Z;                    (* bytes of the unresolved ack-eliciting packets *)
  s_after_cong : bool;          (* a congestion event happened and no packet was sent since *)
  s_discard_t : Z;              (* time of the last key space discard *)
  s_pending : list (Z * Z)      (* losses waiting for the next rtt values: (age, packet number) *)
}.

Definition cc_init : ccst :=
  {| s_unres := []; s_largest := fun _ => -1; s_cwnd := 12000; s_srtt := 333000; s_latest := 333000;
     s_mtu := 1200; s_bif := 0; s_after_cong := false; s_discard_t := -1; s_pending := [] |}.

Definition el_bytes (l : list upkt) : Z :=
  fold_right (fun u a => if u_el u =? 1 then u_bytes u + a else a) 0 l.

(* RFC 9002 6.1.2: 9/8 * max(smoothed_rtt, latest_rtt), at least the 1 ms granularity *)
Definition time_threshold (srtt latest : Z) : Z := Z.max (9 * Z.max srtt latest / 8) 1000.

Definition covered (sp lo hi : Z) (u : upkt) : bool := (u_sp u =? sp) && (lo <=? u_pn u) && (u_pn u <=? hi).
Definition is_pkt (sp pn : Z) (u : upkt) : bool := (u_sp u =? sp) && (u_pn u =? pn).

Definition cc_check (cc : Z) (s : ccst) (r : xrow) : bool :=
  if x_k r =? 0 then
    (* packet numbers in flight are not reused; a congestion controlled packet in normal mode
       is sent only below the window, except the one packet after a congestion event *)
    negb (existsb (is_pkt (g_x r) (g_a r)) (s_unres s)) &&
    (if (g_c r =? 1) && (g_d r =? 0) then (s_bif s <? s_cwnd s) || s_after_cong s else true)
  else if x_k r =? 2 then
    match find (is_pkt (g_x r) (g_a r)) (s_unres s) with
    | None => false                               (* lost, but not in flight: resolved twice *)
    | Some u =>
        if g_c r =? 1 then true else              (* MTU probes have their own timer *)
        let lg := s_largest s (g_x r) in
        (* a later packet was acknowledged; the packet / time threshold is judged in cc_upd:
           packet threshold 3, or the time threshold with the rtt values before this ACK, or
           (s_pending) with the rtt values of the next recovery metrics *)
        g_a r <? lg
    end
  else if x_k r =? 3 then
    (* bytes_in_flight is the sum over the unresolved ack-eliciting packets (not compared at
       the instant of a key space discard, where the event order is not fixed) *)
    ((g_time r =? s_discard_t s) || (g_b r =? s_bif s)) && (0 <=? g_b r) &&
    (* minimum window: 2 (cubic) / 4 (bbr) maximum datagram sizes *)
    ((if cc =? 0 then 2 else 4) * s_mtu s <=? g_a r) &&
    (* time threshold losses against the rtt values this ACK produced *)
    forallb (fun p => time_threshold (g_c r) (g_d r) <=? fst p) (s_pending s)
  else true.

Definition cc_upd (s : ccst) (r : xrow) : ccst :=
  if x_k r =? 0 then
    {| s_unres := {| u_sp := g_x r; u_pn := g_a r; u_bytes := g_b r; u_el := g_c r; u_t := g_time r |} :: s_unres s;
       s_largest := s_largest s; s_cwnd := s_cwnd s; s_srtt := s_srtt s; s_latest := s_latest s; s_mtu := s_mtu s;
       s_bif := if g_c r =? 1 then s_bif s + g_b r else s_bif s;
       s_after_cong := if (g_c r =? 1) && (g_d r =? 0) then false else s_after_cong s;
       s_discard_t := s_discard_t s; s_pending := s_pending s |}
  else if x_k r =? 1 then
    let gone := filter (covered (g_x r) (g_a r) (g_b r)) (s_unres s) in
    {| s_unres := filter (fun u => negb (covered (g_x r) (g_a r) (g_b r) u)) (s_unres s);
       s_largest := fun sp => if sp =? g_x r then Z.max (s_largest s sp) (g_b r) else s_largest s sp;
       s_cwnd := s_cwnd s; s_srtt := s_srtt s; s_latest := s_latest s; s_mtu := s_mtu s;
       s_bif := s_bif s - el_bytes gone; s_after_cong := s_after_cong s;
       s_discard_t := s_discard_t s; s_pending := s_pending s |}
  else if x_k r =? 2 then
    let gone := filter (is_pkt (g_x r) (g_a r)) (s_unres s) in
    let lg := s_largest s (g_x r) in
    let age := match find (is_pkt (g_x r) (g_a r)) (s_unres s) with Some u => g_time r - u_t u | None => 0 end in
    let by_prev := (g_c r =? 1) || (3 <=? lg - g_a r) || (time_threshold (s_srtt s) (s_latest s) <=? age) in
    {| s_unres := filter (fun u => negb (is_pkt (g_x r) (g_a r) u)) (s_unres s);
       s_largest := s_largest s; s_cwnd := s_cwnd s; s_srtt := s_srtt s; s_latest := s_latest s; s_mtu := s_mtu s;
       s_bif := s_bif s - el_bytes gone; s_after_cong := s_after_cong s; s_discard_t := s_discard_t s;
       s_pending := if by_prev then s_pending s else (age, g_a r) :: s_pending s |}
  else if x_k r =? 3 then
    {| s_unres := s_unres s; s_largest := s_largest s; s_cwnd := g_a r; s_srtt := g_c r; s_latest := g_d r;
       s_mtu := s_mtu s; s_bif := s_bif s; s_after_cong := s_after_cong s; s_discard_t := s_discard_t s;
       s_pending := [] |}
  else if x_k r =? 4 then
    let gone := filter (fun u => u_sp u =? g_x r) (s_unres s) in
    {| s_unres := filter (fun u => negb (u_sp u =? g_x r)) (s_unres s);
       s_largest := s_largest s; s_cwnd := s_cwnd s; s_srtt := s_srtt s; s_latest := s_latest s; s_mtu := s_mtu s;
       s_bif := s_bif s - el_bytes gone; s_after_cong := s_after_cong s; s_discard_t := g_time r;
       s_pending := s_pending s |}
  else if x_k r =? 5 then
    {| s_unres := s_unres s; s_largest := s_largest s; s_cwnd := s_cwnd s; s_srtt := s_srtt s; s_latest := s_latest s;
       s_mtu := s_mtu s; s_bif := s_bif s; s_after_cong := true; s_discard_t := s_discard_t s; s_pending := s_pending s |}
  else if x_k r =? 6 then
    {| s_unres := s_unres s; s_largest := s_largest s; s_cwnd := s_cwnd s; s_srtt := s_srtt s; s_latest := s_latest s;
       s_mtu := g_a r; s_bif := s_bif s; s_after_cong := s_after_cong s; s_discard_t := s_discard_t s;
       s_pending := s_pending s |}
  else s.

(* the rows of one endpoint, up to the close of its connection *)
Fixpoint cc_scan (cc : Z) (s : ccst) (l : list xrow) : bool :=
  match l with
  | [] => true
  | r :: t => if x_k r =? 7 then true else cc_check cc s r && cc_scan cc (cc_upd s r) t
  end.

(* C10, CUBIC: the window shrinks at most once per round trip.
   The monitor follows the recovery period of RFC 9002 7.3 from the events alone:
   - one batch = the rows up to a recovery metrics row (one ACK frame or one loss timer);
     within a batch the losses take effect before the acknowledgements (as in the sender);
   - a loss of a congestion controlled packet (ack-eliciting, not an MTU probe) outside a
     recovery period starts one at that time (that is where the window may shrink);
   - the period ends when a packet sent after its start is acknowledged;
   - persistent congestion (window at the minimum after a loss) ends it as well.
   A multiplicative decrease is recognised by its factor: the reported window is 0.7 times the
   previous one, within 1 per cent (windows also move for other reasons: growth, rescaling after
   an MTU change, the cubic function after a recovery period).  A period is only started on such a
   decrease (a sender that is still in an older period - s2n-quic leaves a period late while it
   is application limited - does not shrink, and then no new period starts here either).  While
   a period lasts the window does not grow, so a multiplicative decrease in a batch with a
   congestion controlled loss, not down to the minimum, is a second reduction within the same
   round trip. *)
Record oncest := {
  o_sent : list (Z * Z * Z * Z);  (* (space, packet number, time sent, ack eliciting), not yet acknowledged *)
  o_cwnd : Z; o_mtu : Z;
  o_rec : Z;                      (* start of the current recovery period, -1 when not in one *)
  o_lost : bool;                  (* this batch lost a congestion controlled packet *)
  o_ack_t : Z }.                  (* latest send time among the packets this batch acknowledged, -1 *)

Definition once_init : oncest :=
  {| o_sent := []; o_cwnd := 12000; o_mtu := 1200; o_rec := -1; o_lost := false; o_ack_t := -1 |}.

Definition q_sp (u : Z * Z * Z * Z) := fst (fst (fst u)).
Definition q_pn (u : Z * Z * Z * Z) := snd (fst (fst u)).
Definition q_t (u : Z * Z * Z * Z) := snd (fst u).
Definition q_el (u : Z * Z * Z * Z) := snd u.

Definition o_cov (sp lo hi : Z) (u : Z * Z * Z * Z) : bool :=
  (q_sp u =? sp) && (lo <=? q_pn u) && (q_pn u <=? hi).

(* new = 0.7 * prev within 1 per cent of prev *)
Definition is_md (prev new : Z) : bool := Z.abs (100 * new - 70 * prev) <=? prev.

(* the second reduction: a batch with a congestion controlled loss while the period lasts *)
Definition once_check (s : oncest) (r : xrow) : bool :=
  if (x_k r =? 3) && o_lost s && (0 <=? o_rec s)
  then negb (is_md (o_cwnd s) (g_a r)) || (g_a r <=? 2 * o_mtu s)
  else true.

Definition once_upd (s : oncest) (r : xrow) : oncest :=
  if x_k r =? 0 then
    {| o_sent := (g_x r, g_a r, g_time r, g_c r) :: o_sent s; o_cwnd := o_cwnd s; o_mtu := o_mtu s;
       o_rec := o_rec s; o_lost := o_lost s; o_ack_t := o_ack_t s |}
  else if x_k r =? 1 then
    let gone := filter (o_cov (g_x r) (g_a r) (g_b r)) (o_sent s) in
    {| o_sent := filter (fun u => negb (o_cov (g_x r) (g_a r) (g_b r) u)) (o_sent s);
       o_cwnd := o_cwnd s; o_mtu := o_mtu s; o_rec := o_rec s; o_lost := o_lost s;
       o_ack_t := fold_right (fun u m => Z.max (q_t u) m) (o_ack_t s) gone |}
  else if x_k r =? 2 then
    {| o_sent := o_sent s; o_cwnd := o_cwnd s; o_mtu := o_mtu s; o_rec := o_rec s;
       o_lost := o_lost s ||
                 ((negb (g_c r =? 1)) &&
                  existsb (fun u => (q_sp u =? g_x r) && (q_pn u =? g_a r) && (q_el u =? 1)) (o_sent s));
       o_ack_t := o_ack_t s |}
  else if x_k r =? 3 then
    (* end of the batch: losses first, then the acknowledgements *)
    let rec1 := if o_lost s && (o_rec s <? 0) && is_md (o_cwnd s) (g_a r) then g_time r else o_rec s in
    let rec2 := if (0 <=? rec1) && (rec1 <? o_ack_t s) then -1 else rec1 in
    let rec3 := if o_lost s && (g_a r <=? 2 * o_mtu s) then -1 else rec2 in
    {| o_sent := o_sent s; o_cwnd := g_a r; o_mtu := o_mtu s; o_rec := rec3; o_lost := false; o_ack_t := -1 |}
  else if x_k r =? 6 then
    {| o_sent := o_sent s; o_cwnd := o_cwnd s; o_mtu := g_a r; o_rec := o_rec s; o_lost := o_lost s; o_ack_t := o_ack_t s |}
  else s.

Fixpoint once_scan (s : oncest) (l : list xrow) : bool :=
  match l with
  | [] => true
  | r :: t => if x_k r =? 7 then true else once_check s r && once_scan (once_upd s r) t
  end.

Definition e2e_cc_judge (case out : list Z) : bool :=
  if negb ((nz out 0 =? 1) && Nat.leb 6 (length out)) then false else
  match take_rows 8 (nz out 5) (skipn 6 out) with
  | Some (rws, []) =>
      let l := map mk_xrow rws in
      cc_scan (nz out 3) cc_init (filter (fun r => x_ep r =? 0) l) &&
      cc_scan (nz out 3) cc_init (filter (fun r => x_ep r =? 1) l) &&
      ((negb (nz out 3 =? 0)) ||
       (once_scan once_init (filter (fun r => x_ep r =? 0) l) &&
        once_scan once_init (filter (fun r => x_ep r =? 1) l)))
  | _ => false
  end.

(* ------------------------------------------------------------------------------------------ *)
(* e2e_violate (C04): a peer that breaks one rule                                             *)
(* ------------------------------------------------------------------------------------------ *)
(* [1, kind, injected, inject_time_us, expected_code, delay_ms,
    victim closed, close class (2 = transport), transport code, closed_us, closed locally,
    n_flows, flows x10] *)

Record vtrace := {
  v_injected : Z; v_time : Z; v_expected : Z; v_delay_ms : Z;
  v_closed : Z; v_class : Z; v_code : Z; v_closed_us : Z; v_local : Z; v_flows : list flow }.

(* RFC 9000 section 11: an endpoint may use a generic code in place of a specific one *)
Definition code_ok (expected code : Z) : bool :=
  (code =? expected) || (code =? 10) (* PROTOCOL_VIOLATION *) || (code =? 1) (* INTERNAL_ERROR *).

(* the offending packet reaches the victim one network delay after it was built; the close must
   follow without waiting for any timer: one more delay and 100 ms of slack *)
Definition violate_ok (t : vtrace) : bool :=
  if v_injected t =? 0 then true else
  (v_closed t =? 1) && (v_class t =? 2) && (v_local t =? 1) && code_ok (v_expected t) (v_code t) &&
  (v_closed_us t <=? v_time t + 2 * v_delay_ms t * 1000 + 100000) &&
  (* none of the offending bytes (they differ from what the application wrote) was delivered *)
  forallb (fun f => f_wrong f =? -1) (v_flows t).

Definition e2e_violate_judge (case out : list Z) : bool :=
  if negb ((nz out 0 =? 1) && Nat.leb 12 (length out)) then false else
  match take_rows 10 (nz out 11) (skipn 12 out) with
  | Some (frows, []) =>
      violate_ok {| v_injected := nz out 2; v_time := nz out 3; v_expected := nz out 4; v_delay_ms := nz out 5;
                    v_closed := nz out 6; v_class := nz out 7; v_code := nz out 8; v_closed_us := nz out 9;
                    v_local := nz out 10; v_flows := map mk_flow frows |}
  | _ => false
  end.

(* the same trace judged for one property only (so that each property's check reports only its own
   violations when the component is attached to several properties) *)
Definition stream_part (m : strace -> bool) (out : list Z) : bool :=
  match parse_stream out with Some t => m t | None => false end.

Definition e2e_stream_judge_c01 (case out : list Z) : bool := stream_part (fun t => c01_ok (t_flows t)) out.
Definition e2e_stream_judge_c02 (case out : list Z) : bool :=
  stream_part (fun t => c02_ok (t_watchdog t) (t_connect_ok t) (t_n_bidi t) (t_n_uni t) (t_idle_ms t)
                               (t_hs_ms t) (t_perm_bh t) (t_client t) (t_server t) (t_flows t)) out.
Definition e2e_stream_judge_c12 (case out : list Z) : bool := stream_part (fun t => c12_ok (t_recs t) (t_opened t)) out.
Definition e2e_stream_judge_c03 (case out : list Z) : bool := stream_part (fun t => c03_ok (t_recs t)) out.

(* there is no model run for the e2e components: the implementation is judged alone *)
Definition e2e_run (case : list Z) : list Z := [].
