(* Proofs about model/Nonce.v: the nonce is injective in the packet number (for every iv). *)
From SQ Require Import lib.Base gen.Gen_C06 model.HeaderProtection model.Nonce proofs.HeaderProtectionProofs.
Local Open Scope N_scope.

Lemma nonce_layout : nonce_pad_bytes = 4 /\ nonce_pn_bytes = 8 /\ nonce_len = 12%nat.
Proof. repeat split; reflexivity. Qed.

Lemma be_decode_app1 : forall l b, be_decode (l ++ [b]) = be_decode l * 256 + b.
Proof. intros. unfold be_decode. rewrite fold_left_app. reflexivity. Qed.

Lemma be_bytes_length : forall n v, length (be_bytes n v) = n.
Proof. induction n as [|n IH]; intros v; cbn [be_bytes]; [reflexivity|]. rewrite app_length, IH. cbn. lia. Qed.

Lemma be_decode_be_bytes : forall n v, be_decode (be_bytes n v) = v mod 256 ^ N.of_nat n.
Proof.
  induction n as [|n IH]; intros v.
  - cbn [be_bytes]. change (256 ^ N.of_nat 0) with 1. rewrite N.mod_1_r. reflexivity.
  - cbn [be_bytes]. rewrite be_decode_app1, IH.
    rewrite Nat2N.inj_succ, N.pow_succ_r'.
    rewrite N.mod_mul_r by (try discriminate; apply N.pow_nonzero; discriminate). lia.
Qed.

Lemma be_bytes_inj : forall n p q, p < 256 ^ N.of_nat n -> q < 256 ^ N.of_nat n ->
  be_bytes n p = be_bytes n q -> p = q.
Proof.
  intros n p q Hp Hq H. apply (f_equal be_decode) in H. rewrite !be_decode_be_bytes in H.
  rewrite !N.mod_small in H by assumption. exact H.
Qed.

Lemma xor_mask_inj : forall a b m, xor_mask a m = xor_mask b m -> a = b.
Proof. intros a b m H. rewrite <- (xor_mask_involutive a m), H. apply xor_mask_involutive. Qed.

Lemma padded_pn_length : forall pn, length (padded_pn pn) = 12%nat.
Proof. intros. unfold padded_pn. rewrite app_length, !be_bytes_length. reflexivity. Qed.

Lemma nonce_length : forall iv pn, length (nonce iv pn) = 12%nat.
Proof. intros. unfold nonce. rewrite xor_mask_length. apply padded_pn_length. Qed.

(* p, q < 2^64 suffices; packet numbers are below 2^62 *)
Theorem nonce_injective_u64 : forall iv p q, p < 2 ^ 64 -> q < 2 ^ 64 -> nonce iv p = nonce iv q -> p = q.
Proof.
  intros iv p q Hp Hq H. unfold nonce in H. apply xor_mask_inj in H. unfold padded_pn in H.
  apply app_inv_head in H. change (N.to_nat nonce_pn_bytes) with 8%nat in H.
  apply be_bytes_inj in H; auto.
Qed.

Theorem nonce_injective : forall iv p q, p < 2 ^ 62 -> q < 2 ^ 62 -> nonce iv p = nonce iv q -> p = q.
Proof.
  intros iv p q Hp Hq. apply nonce_injective_u64.
  - eapply N.lt_trans; [exact Hp|reflexivity].
  - eapply N.lt_trans; [exact Hq|reflexivity].
Qed.

(* the nonce is the iv with the packet number XORed into its last 8 bytes *)
Theorem nonce_is_iv_xor_pn : forall iv pn, length iv = 12%nat ->
  nonce iv pn = firstn 4 iv ++ xor_mask (be_bytes 8 pn) (skipn 4 iv).
Proof.
  intros iv pn H. unfold nonce, padded_pn.
  change (N.to_nat nonce_pad_bytes) with 4%nat. change (N.to_nat nonce_pn_bytes) with 8%nat.
  do 12 (destruct iv as [|? iv]; [discriminate H|]). destruct iv; [|discriminate H].
  cbn [be_bytes app xor_mask firstn skipn].
  change (0 / 256) with 0. change (0 mod 256) with 0. rewrite !N.lxor_0_l. reflexivity.
Qed.

Lemma eqb_list_iff : forall a b, eqb_list a b = true <-> a = b.
Proof. intros a b. split; [apply eqb_list_eq|intros ->; apply eqb_list_refl]. Qed.

Lemma nonce_eqb_pn : forall iv p q, p < 2 ^ 62 -> q < 2 ^ 62 ->
  eqb_list (nonce iv p) (nonce iv q) = (p =? q).
Proof.
  intros iv p q Hp Hq. destruct (N.eqb_spec p q) as [->|Hne]; [apply eqb_list_refl|].
  destruct (eqb_list (nonce iv p) (nonce iv q)) eqn:E; [|reflexivity].
  apply eqb_list_eq in E. apply nonce_injective in E; auto. contradiction.
Qed.

(* ---- the executable judgement accepts every run of the model ---- *)
Definition wf_case (c : list Z) : Prop :=
  (27 <= length c)%nat /\ zN (nth 1 c 0%Z) < 2 ^ 62 /\ zN (nth 2 c 0%Z) < 2 ^ 62.

Lemma case_iv_length : forall c, (27 <= length c)%nat -> length (case_iv c) = 12%nat.
Proof. intros c H. unfold case_iv. rewrite map_length, firstn_length, skipn_length. lia. Qed.

Lemma skipn_skipn_add {A} : forall n m (l : list A), skipn m (skipn n l) = skipn (n + m) l.
Proof. induction n as [|n IH]; intros m l; [reflexivity|]. destruct l; [now rewrite !skipn_nil|]. cbn [skipn Nat.add]. apply IH. Qed.

Lemma skipn_app_len {A} : forall n (a b : list A), length a = n -> skipn n (a ++ b) = b.
Proof. intros n a b <-. apply skipn_app_exact. Qed.

Lemma firstn_app_len {A} : forall n (a b : list A), length a = n -> firstn n (a ++ b) = a.
Proof. intros n a b <-. apply firstn_app_exact. Qed.

Theorem judge_run : forall c, wf_case c -> judge c (run c) = true.
Proof.
  intros c (Hl & Hp & Hq). unfold judge, run.
  set (p := zN (nth 1 c 0%Z)) in *. set (q := zN (nth 2 c 0%Z)) in *.
  set (iv := case_iv c). set (cand := case_cand c).
  assert (Hiv : length (map Nz iv) = 12%nat) by (rewrite map_length; apply case_iv_length; exact Hl).
  rewrite skipn_app_len by exact Hiv.
  assert (Hnp : length (map Nz (nonce iv p)) = 12%nat) by (rewrite map_length; apply nonce_length).
  assert (Hnq : length (map Nz (nonce iv q)) = 12%nat) by (rewrite map_length; apply nonce_length).
  rewrite nonce_eqb_pn by assumption.
  destruct (nth 0 c 0 <? 2)%Z.
  - cbn [app].
    set (t := map Nz (nonce iv p) ++ [2%Z] ++ map Nz (nonce iv q) ++ [2%Z] ++ [bz (eqb_list cand (nonce iv p)); bz (p =? q)]).
    assert (Et : (map Nz (nonce iv p) ++ 2%Z :: map Nz (nonce iv q) ++ [2%Z]) ++ [bz (eqb_list cand (nonce iv p)); bz (p =? q)] = t).
    { unfold t. rewrite <- app_assoc. cbn [app]. rewrite <- app_assoc. reflexivity. }
    rewrite Et.
    assert (Lt : length t = 28%nat) by (unfold t; rewrite !app_length, Hnp, Hnq; reflexivity).
    rewrite Lt. cbn [Nat.eqb andb].
    assert (F1 : firstn 12 t = map Nz (nonce iv p)) by (unfold t; apply firstn_app_len; exact Hnp).
    assert (S1 : skipn 13 t = map Nz (nonce iv q) ++ [2%Z] ++ [bz (eqb_list cand (nonce iv p)); bz (p =? q)]).
    { unfold t. change 13%nat with (12 + 1)%nat. rewrite <- skipn_skipn_add. rewrite skipn_app_len by exact Hnp. reflexivity. }
    assert (S2 : skipn 26 t = [bz (eqb_list cand (nonce iv p)); bz (p =? q)]).
    { change 26%nat with (13 + 13)%nat. rewrite <- skipn_skipn_add. rewrite S1.
      change 13%nat with (12 + 1)%nat. rewrite <- skipn_skipn_add. rewrite skipn_app_len by exact Hnq. reflexivity. }
    rewrite F1, S1, S2. rewrite firstn_app_len by exact Hnq. rewrite !map_zN_Nz, !eqb_list_refl.
    cbn [nth andb]. rewrite !Z.eqb_refl, !andb_true_r.
    destruct (N.eqb_spec p q) as [|Hne]; [reflexivity|].
    rewrite nonce_eqb_pn by assumption. destruct (N.eqb_spec p q); [contradiction|reflexivity].
  - cbn [app length Nat.eqb nth andb]. rewrite !Z.eqb_refl. reflexivity.
Qed.
