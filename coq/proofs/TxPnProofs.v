(* Proofs about the TxPacketNumbers model (C08, component txpn). *)
From SQ Require Import lib.Base model.TxPn.
From Coq Require Import Sorting.Sorted.
Local Open Scope N_scope.

Definition Inv (s : tstate) : Prop :=
  next s <= varint_max /\ lsa s <= next s /\ (forall sk, skip s = Some sk -> sk < next s).

Lemma tinit_inv : Inv tinit.
Proof. unfold Inv, tinit; cbn. repeat split; try (unfold varint_max; lia). intros sk H; discriminate. Qed.

Lemma pn_next_some : forall p q, pn_next p = Some q -> q = p + 1 /\ p < varint_max.
Proof. unfold pn_next. intros p q. destruct (N.ltb_spec p varint_max); intros E; inversion E; auto. Qed.
Lemma pn_next_none : forall p, pn_next p = None -> varint_max <= p.
Proof. unfold pn_next. intros p. destruct (N.ltb_spec p varint_max); intros E; [discriminate|assumption]. Qed.

(* what one step does, event by event *)
Lemma step_spec : forall s o s' e, Inv s -> step s o = (s', e) ->
  match e with
  | ESent pn sk => next s <= pn /\ pn < varint_max /\ next s' = pn + 1 /\ lsa s' = lsa s /\
                   (forall k, sk = Some k -> next s <= k /\ k < pn) /\ Inv s'
  | EAbandoned => s' = s /\ exists p c, o = OTransmit p c true
  | EAck ok l n ss => l = lsa s' /\ n = next s' /\ next s' = next s /\ Inv s' /\
                      exists lo hi lw, o = OAck lo hi lw /\
                        lsa s' = (if ok then N.max (lsa s) hi else lsa s) /\ (ok = true -> hi < next s)
  | EOutOfRange => s' = s /\ exists j, o = OJump j
  | EPanic => s' = s /\ varint_max <= next s + 2 /\ exists p c a, o = OTransmit p c a
  end.
Proof.
  intros s o s' e (Hn & Hl & Hs) Hstep. destruct o as [p c a | lo hi lw | j]; cbn [step] in Hstep.
  - unfold transmit, on_transmit in Hstep.
    assert (Hsk : forall k, skip s = Some k -> k < next s) by exact Hs.
    repeat match type of Hstep with
      | context [pn_next ?x] =>
          let E := fresh "E" in
          destruct (pn_next x) eqn:E; [apply pn_next_some in E as [? ?]; subst | apply pn_next_none in E]
      | context [if ?b then _ else _] => destruct b eqn:?
      | context [match skip s with _ => _ end] => destruct (skip s) eqn:?
      end.
    all: inversion Hstep; subst; cbn [next lsa skip].
    all: unfold Inv; cbn [next lsa skip].
    all: repeat match goal with
      | |- _ /\ _ => split
      | |- exists _, _ => eexists
      | |- forall _, _ => intro
      end; try reflexivity; try lia; try discriminate.
    all: try (match goal with H : Some _ = Some _ |- _ => inversion H; subst end; lia).
    all: try (match goal with H : skip ?x = Some ?k, Hk : forall k, skip ?x = Some k -> _ |- _ => specialize (Hk _ H); lia end).
  - unfold on_packet_ack in Hstep.
    assert (Hsk : forall k, skip s = Some k -> k < next s) by exact Hs.
    destruct (skip s) as [sk|] eqn:Esk.
    + pose proof (Hsk _ eq_refl) as Hlt.
      destruct (pn_next sk) as [sp|] eqn:E1;
        [apply pn_next_some in E1 as [-> ?] | apply pn_next_none in E1; lia].
      repeat match type of Hstep with
        | context [N.leb ?a ?b] => destruct (N.leb_spec a b)
        | context [N.ltb ?a ?b] => destruct (N.ltb_spec a b)
        | context [andb _ _] => cbn [andb] in Hstep
        end.
      all: inversion Hstep; subst; cbn [next lsa skip].
      all: unfold Inv; cbn [next lsa skip]; rewrite ?Esk.
      all: repeat match goal with
        | |- _ /\ _ => split
        | |- forall _, _ => intro
        end; try reflexivity; try lia; try discriminate.
      all: try (match goal with H : Some _ = Some _ |- _ => inversion H; subst end; lia).
      all: try (do 3 eexists; repeat split; try reflexivity; try lia; discriminate).
    + repeat match type of Hstep with
        | context [N.leb ?a ?b] => destruct (N.leb_spec a b)
        | context [N.ltb ?a ?b] => destruct (N.ltb_spec a b)
        end.
      all: inversion Hstep; subst; cbn [next lsa skip].
      all: unfold Inv; cbn [next lsa skip]; rewrite ?Esk.
      all: repeat match goal with
        | |- _ /\ _ => split
        | |- forall _, _ => intro
        end; try reflexivity; try lia; try discriminate.
      all: try (do 3 eexists; repeat split; try reflexivity; try lia; discriminate).
  - unfold on_transmit, pn_next in Hstep.
    repeat match type of Hstep with
      | context [N.ltb ?a ?b] => destruct (N.ltb_spec a b)
      end; try lia.
    all: inversion Hstep; subst; cbn [next lsa skip].
    all: unfold Inv; cbn [next lsa skip].
    all: repeat match goal with
      | |- _ /\ _ => split
      | |- exists _, _ => eexists
      | |- forall _, _ => intro
      end; try reflexivity; try lia; try discriminate.
    all: try (match goal with H : skip ?x = Some ?k |- _ => specialize (Hs _ H); lia end).
Qed.

(* ---------------- packet numbers put on the wire strictly increase ---------------- *)

Definition sent_of (es : list event) : list N :=
  flat_map (fun e => match e with ESent pn _ => [pn] | _ => [] end) es.
Definition skipped_of (es : list event) : list N :=
  flat_map (fun e => match e with ESent _ (Some k) => [k] | _ => [] end) es.

Lemma steps_cons : forall s o t, steps s (o :: t) =
  let '(s', e) := step s o in match e with EPanic => [EPanic] | _ => e :: steps s' t end.
Proof. reflexivity. Qed.

Lemma sent_sorted_from : forall ops s, Inv s ->
  StronglySorted N.lt (sent_of (steps s ops)) /\ Forall (fun p => next s <= p) (sent_of (steps s ops)).
Proof.
  induction ops as [|o t IH]; intros s HI.
  - cbn. split; constructor.
  - rewrite steps_cons. destruct (step s o) as [s' e] eqn:Es.
    pose proof (step_spec _ _ _ _ HI Es) as Hsp.
    destruct e; cbn [sent_of flat_map app].
    + destruct Hsp as (H1 & H2 & H3 & H4 & H5 & HI').
      destruct (IH _ HI') as [S F]. fold (sent_of (steps s' t)). split.
      * constructor; [assumption|]. eapply Forall_impl; [|exact F]. cbn. intros a Ha. lia.
      * constructor; [assumption|]. eapply Forall_impl; [|exact F]. cbn. intros a Ha. lia.
    + destruct Hsp as [-> _]. apply IH; assumption.
    + destruct Hsp as (_ & _ & Hn & HI' & _). destruct (IH _ HI') as [S F]. fold (sent_of (steps s' t)).
      split; [assumption|]. rewrite <- Hn. assumption.
    + destruct Hsp as [-> _]. apply IH; assumption.
    + cbn. split; constructor.
Qed.

Theorem sent_strictly_increasing : forall ops, StronglySorted N.lt (sent_of (steps tinit ops)).
Proof. intros ops. apply (sent_sorted_from ops tinit tinit_inv). Qed.

(* a number skipped for optimistic-ack mitigation is never put on the wire *)
Lemma skipped_fresh_from : forall ops s, Inv s ->
  Forall (fun k => next s <= k /\ ~ In k (sent_of (steps s ops))) (skipped_of (steps s ops)).
Proof.
  induction ops as [|o t IH]; intros s HI.
  - constructor.
  - rewrite steps_cons. destruct (step s o) as [s' e] eqn:Es.
    pose proof (step_spec _ _ _ _ HI Es) as Hsp.
    destruct e; cbn [skipped_of sent_of flat_map app].
    + destruct Hsp as (H1 & H2 & H3 & H4 & H5 & HI').
      fold (sent_of (steps s' t)). fold (skipped_of (steps s' t)).
      pose proof (IH _ HI') as F. destruct (sent_sorted_from t s' HI') as [_ Fs].
      assert (F' : Forall (fun k => next s <= k /\ ~ In k (pn :: sent_of (steps s' t))) (skipped_of (steps s' t))).
      { eapply Forall_impl; [|exact F]. cbn. intros a [Ha Hb]. split; [lia|]. intros [E|E]; [lia|contradiction]. }
      destruct skipped as [k|]; cbn [app]; [|assumption].
      constructor; [|assumption]. destruct (H5 k eq_refl). split; [assumption|].
      intros [E|E]; [lia|]. rewrite Forall_forall in Fs. specialize (Fs _ E). cbn in Fs. lia.
    + destruct Hsp as [-> _]. apply IH; assumption.
    + destruct Hsp as (_ & _ & Hn & HI' & _). rewrite <- Hn. apply IH; assumption.
    + destruct Hsp as [-> _]. apply IH; assumption.
    + constructor.
Qed.

Theorem skipped_never_sent : forall ops k, In k (skipped_of (steps tinit ops)) -> ~ In k (sent_of (steps tinit ops)).
Proof.
  intros ops k Hin. pose proof (skipped_fresh_from ops tinit tinit_inv) as F.
  rewrite Forall_forall in F. exact (proj2 (F _ Hin)).
Qed.

(* the truncation base is never above the next packet number (truncate's checked_sub cannot fail),
   and next never leaves the packet number range *)
Lemma final_inv : forall ops s, Inv s -> Inv (final s ops).
Proof.
  induction ops as [|o t IH]; intros s HI; [exact HI|].
  cbn [final]. destruct (step s o) as [s' e] eqn:Es.
  pose proof (step_spec _ _ _ _ HI Es) as Hsp.
  destruct e; try (apply IH).
  - apply Hsp. - destruct Hsp as [-> _]; assumption. - apply Hsp. - destruct Hsp as [-> _]; assumption.
  - assumption.
Qed.

Theorem base_le_next : forall ops, lsa (final tinit ops) <= next (final tinit ops) /\ next (final tinit ops) <= varint_max.
Proof. intros ops. destruct (final_inv ops tinit tinit_inv) as (H1 & H2 & _). split; assumption. Qed.

(* ---------------- the executable judgement accepts every run of the model ---------------- *)

Lemma judge_steps : forall ops s macc, Inv s -> (Nz (lsa s) <= macc)%Z ->
  judge_from (Nz (next s) - 1) macc ops (flat_map encode (steps s ops)) = true.
Proof.
  induction ops as [|o t IH]; intros s macc HI Hm; [reflexivity|].
  rewrite steps_cons. destruct (step s o) as [s' e] eqn:Es.
  pose proof (step_spec _ _ _ _ HI Es) as Hsp.
  destruct e; cbn [flat_map encode app judge_from].
  - destruct Hsp as (H1 & H2 & H3 & H4 & H5 & HI').
    assert (Hnext : (Nz (next s') - 1 = Nz pn)%Z) by (unfold Nz; lia).
    specialize (IH s' macc HI' ltac:(rewrite H4; assumption)). rewrite Hnext in IH.
    assert (Ha3 : (Nz pn =? -3)%Z = false) by (apply Z.eqb_neq; unfold Nz; lia).
    assert (Ha2 : (Nz pn =? -2)%Z = false) by (apply Z.eqb_neq; unfold Nz; lia).
    assert (Hlt : (Nz (next s) - 1 <? Nz pn)%Z = true) by (apply Z.ltb_lt; unfold Nz; lia).
    assert (Hle : (Nz pn <=? Nz varint_max)%Z = true) by (apply Z.leb_le; unfold Nz; lia).
    destruct o as [p c a | lo hi lw | j].
    + rewrite Ha3, Hlt, Hle, IH. cbn [andb]. rewrite andb_true_r.
      destruct skipped as [k|]; cbn [optz]; [|reflexivity].
      destruct (H5 k eq_refl).
      replace (Nz k =? -1)%Z with false by (symmetry; apply Z.eqb_neq; unfold Nz; lia).
      apply andb_true_iff; split; apply Z.ltb_lt; unfold Nz; lia.
    + exfalso. cbn [step] in Es. destruct (on_packet_ack s lo hi lw) as [[? ?]|]; inversion Es.
    + rewrite Ha2, Hlt, Hle, IH. reflexivity.
  - destruct Hsp as [-> (p & c & ->)]. cbn [Z.eqb Pos.eqb andb]. apply IH; assumption.
  - destruct Hsp as (-> & -> & Hn & HI' & lo & hi & lw & -> & Hl & Hok).
    cbn [judge_from].
    set (macc' := if (bz (negb ok) =? 0)%Z then Z.max macc (Nz hi) else macc).
    assert (Hm' : (Nz (lsa s') <= macc')%Z).
    { unfold macc'. rewrite Hl. destruct ok; cbv [negb bz];
        [replace (0 =? 0)%Z with true by reflexivity | replace (1 =? 0)%Z with false by reflexivity];
        unfold Nz in *; lia. }
    rewrite <- Hn. rewrite (IH s' macc' HI' Hm').
    replace (Nz (lsa s') <=? macc')%Z with true by (symmetry; apply Z.leb_le; assumption).
    replace (Nz (next s') - 1 <? Nz (next s'))%Z with true by (symmetry; apply Z.ltb_lt; lia).
    reflexivity.
  - destruct Hsp as [-> (j & ->)]. cbn [Z.eqb Pos.eqb]. apply IH; assumption.
  - destruct Hsp as (-> & Hv & p & c & a & ->). cbn [Z.eqb Pos.eqb andb].
    apply Z.leb_le. unfold Nz. lia.
Qed.

Theorem judge_run : forall c, judge c (run c) = true.
Proof.
  intros c. unfold judge, run. apply (judge_steps _ tinit 0%Z tinit_inv). cbn. lia.
Qed.
