(* Proofs about model/Liveness.v: eventual delivery by a lexicographic measure. *)
From SQ Require Import lib.Base model.Sync proofs.SyncProofs model.Liveness.
From Coq Require Import Wellfounded.
Local Open Scope N_scope.

(* ------------------------------------------------------------------ lexicographic order *)

Definition lex2 {A B} (ra : A -> A -> Prop) (rb : B -> B -> Prop) (x y : A * B) : Prop :=
  ra (fst x) (fst y) \/ (fst x = fst y /\ rb (snd x) (snd y)).

Lemma wf_lex2 {A B} (ra : A -> A -> Prop) (rb : B -> B -> Prop) :
  well_founded ra -> well_founded rb -> well_founded (lex2 ra rb).
Proof.
  intros Ha Hb [a b]. revert b.
  induction (Ha a) as [a _ IHa]. intros b.
  induction (Hb b) as [b _ IHb].
  constructor. intros [a' b'] [H|[H1 H2]]; cbn in *.
  - apply IHa. exact H.
  - subst a'. apply IHb. exact H2.
Qed.

Definition meas := (nat * (nat * (nat * (nat * nat))))%type.
Definition mlt : meas -> meas -> Prop := lex2 lt (lex2 lt (lex2 lt (lex2 lt lt))).
Lemma wf_mlt : well_founded mlt.
Proof. repeat apply wf_lex2; apply lt_wf. Qed.

(* ------------------------------------------------------------------ chunk list lemmas *)

Lemma cnt_cons : forall f x l, cnt f (x :: l) = ((if f (fst x) then 1 else 0) + cnt f l)%nat.
Proof. intros. unfold cnt. cbn. destruct (f (fst x)); reflexivity. Qed.

Lemma cnt_app : forall f l1 l2, cnt f (l1 ++ l2) = (cnt f l1 + cnt f l2)%nat.
Proof. intros. unfold cnt. rewrite filter_app, app_length. reflexivity. Qed.

Ltac split5 := split; [|split; [|split; [|split]]].

Lemma retx_props : forall l fwd rev l',
  retx l fwd rev = Some l' ->
  length l' = length l /\
  (prefix_len l <= prefix_len l')%nat /\
  (cnt is_unacked l' + (if fwd && rev then 1 else 0) = cnt is_unacked l)%nat /\
  (Forall (fun x => fst x = CAcked -> snd x = true) l -> fwd && rev = true -> fwd = true ->
   Forall (fun x => fst x = CAcked -> snd x = true) l') /\
  (Forall (fun x => fst x = CAcked -> snd x = true) l -> fwd && rev = false ->
   Forall (fun x => fst x = CAcked -> snd x = true) l').
Proof.
  induction l as [|[c r] t IH]; intros fwd rev l' H; [discriminate|].
  cbn [retx] in H.
  destruct c.
  - destruct (retx t fwd rev) as [t'|] eqn:E; [|discriminate]. inversion H; subst.
    destruct (IH _ _ _ E) as (L & P & C & F1 & F2).
    split5.
    + cbn. lia.
    + cbn. destruct r; lia.
    + rewrite !cnt_cons. cbn. lia.
    + intros HF Hb Hf. inversion HF; subst. constructor; auto.
    + intros HF Hb. inversion HF; subst. constructor; auto.
  - inversion H; subst. split5.
    + reflexivity.
    + cbn. destruct r, fwd; cbn; lia.
    + rewrite !cnt_cons. cbn. destruct (fwd && rev); cbn; lia.
    + intros HF Hb Hf. inversion HF; subst. constructor; auto. cbn. intros _. apply orb_true_r.
    + intros HF Hb. inversion HF; subst. constructor; auto. cbn. rewrite Hb. discriminate.
  - destruct (retx t fwd rev) as [t'|] eqn:E; [|discriminate]. inversion H; subst.
    destruct (IH _ _ _ E) as (L & P & C & F1 & F2).
    split5.
    + cbn. lia.
    + cbn. destruct r; lia.
    + rewrite !cnt_cons. cbn. lia.
    + intros HF Hb Hf. inversion HF; subst. constructor; auto.
    + intros HF Hb. inversion HF; subst. constructor; auto.
Qed.

Lemma retx_none : forall l fwd rev, retx l fwd rev = None <-> cnt is_clost l = O.
Proof.
  induction l as [|[c r] t IH]; intros fwd rev; [cbn; tauto|].
  cbn [retx]. rewrite cnt_cons. cbn [fst]. destruct c; cbn [is_clost].
  - destruct (retx t fwd rev) eqn:E.
    + split; [discriminate|]. intros H. apply (IH fwd rev) in H. congruence.
    + split; [|reflexivity]. intros _. cbn. apply (IH fwd rev). exact E.
  - split; [discriminate|]. cbn. discriminate.
  - destruct (retx t fwd rev) eqn:E.
    + split; [discriminate|]. intros H. apply (IH fwd rev) in H. congruence.
    + split; [|reflexivity]. intros _. cbn. apply (IH fwd rev). exact E.
Qed.

Lemma retx_lost_dec : forall l l', retx l true true = Some l' ->
  cnt is_cinflight l' = cnt is_cinflight l.
Proof.
  induction l as [|[c r] t IH]; intros l' H; [discriminate|]. cbn [retx] in H.
  destruct c; try (destruct (retx t true true) eqn:E; [|discriminate]; inversion H; subst;
                   rewrite !cnt_cons; cbn; rewrite (IH _ eq_refl); reflexivity).
  inversion H; subst. rewrite !cnt_cons. reflexivity.
Qed.

Lemma pto_data_props : forall l,
  length (pto_data l) = length l /\ prefix_len (pto_data l) = prefix_len l /\
  cnt is_unacked (pto_data l) = cnt is_unacked l /\ cnt is_cinflight (pto_data l) = O /\
  (Forall (fun x => fst x = CAcked -> snd x = true) l ->
   Forall (fun x => fst x = CAcked -> snd x = true) (pto_data l)).
Proof.
  induction l as [|[c r] t (L & P & C & I & F)]; [cbn; split5; auto|].
  cbn [pto_data map fst snd]. fold (pto_data t). split5.
  - cbn. lia.
  - cbn. destruct r; lia.
  - rewrite !cnt_cons. destruct c; cbn; lia.
  - rewrite cnt_cons. destruct c; cbn; lia.
  - intros HF. inversion HF; subst. constructor; auto. destruct c; cbn in *; auto; discriminate.
Qed.

Lemma prefix_len_le : forall l, (prefix_len l <= length l)%nat.
Proof. induction l as [|[c r] t IH]; cbn; [lia|]. destruct r; lia. Qed.

Lemma prefix_len_app : forall l x, (prefix_len l <= prefix_len (l ++ [x]))%nat.
Proof. induction l as [|[c r] t IH]; intros x; cbn; [lia|]. destruct r; [specialize (IH x)|]; lia. Qed.

(* all transmitted chunks acknowledged and every acknowledged chunk received: the prefix is everything *)
Lemma prefix_all : forall l,
  cnt is_unacked l = O -> Forall (fun x => fst x = CAcked -> snd x = true) l ->
  prefix_len l = length l.
Proof.
  induction l as [|[c r] t IH]; intros H F; [reflexivity|].
  rewrite cnt_cons in H. inversion F; subst. cbn [fst snd] in *.
  destruct c; cbn in H; try lia. rewrite (H2 eq_refl). cbn. rewrite IH; auto.
Qed.

Lemma unacked_split : forall l,
  cnt is_unacked l = (cnt is_cinflight l + cnt is_clost l)%nat.
Proof.
  induction l as [|[c r] t IH]; [reflexivity|]. rewrite !cnt_cons. destruct c; cbn; lia.
Qed.

(* ------------------------------------------------------------------ credit carrier lemmas *)

Lemma carrier_tx_spec : forall c fwd rev,
  carrier_tx c fwd rev =
  if wants c then
    Some (if fwd && rev then mkIvs (latest c) (latest c) (thr c) NotRequested (ipn c + 1)
          else mkIvs (latest c) (ackd c) (thr c) (InFlight (latest c) (ipn c) 0) (ipn c + 1),
          if fwd then Some (latest c) else None)
  else None.
Proof.
  intros [l a t d pn] fwd rev. unfold carrier_tx, wants. cbn [idel latest ackd thr ipn].
  destruct d; cbn [try_transmit]; unfold can_transmit, can_retransmit; rewrite ?N.eqb_refl;
    cbn [orb]; try reflexivity.
  - unfold ivs_step at 2. cbn [idel latest ackd thr ipn try_transmit]. unfold can_transmit.
    rewrite N.eqb_refl. cbn [fst].
    destruct (fwd && rev); [|reflexivity].
    unfold ivs_step. cbn [idel latest ackd thr ipn]. unfold in_range. rewrite N.leb_refl. reflexivity.
  - unfold ivs_step at 2. cbn [idel latest ackd thr ipn try_transmit]. unfold can_retransmit.
    rewrite N.eqb_refl. cbn [orb fst].
    destruct (fwd && rev); [|reflexivity].
    unfold ivs_step. cbn [idel latest ackd thr ipn]. unfold in_range. rewrite N.leb_refl. reflexivity.
Qed.

Lemma wants_inv : forall c, iinv c -> wants c = true ->
  is_inflight (idel c) = false /\ is_cancelled (idel c) = false /\ ackd c < latest c.
Proof.
  intros [l a t d pn] (H1 & H2 & H3) W. unfold wants in W. cbn in *.
  destruct d; try discriminate; auto.
Qed.

Lemma carrier_lose_spec : forall c,
  carrier_lose c =
  if is_inflight (idel c) then mkIvs (latest c) (ackd c) (thr c) (Lost (latest c)) (ipn c) else c.
Proof.
  intros [l a t d pn]. unfold carrier_lose. cbn [idel latest ackd thr ipn].
  destruct d; cbn [is_inflight]; try reflexivity.
  unfold ivs_step. cbn [idel latest ackd thr ipn]. unfold in_range. rewrite N.leb_refl. reflexivity.
Qed.

Lemma inflight_inv : forall c, iinv c -> is_inflight (idel c) = true ->
  wants c = false /\ is_cancelled (idel c) = false /\ ackd c < latest c.
Proof.
  intros [l a t d pn] (H1 & H2 & H3) W. unfold wants. cbn in *.
  destruct d; try discriminate. repeat split; auto. lia.
Qed.

Lemma update_spec : forall c d,
  iinv c -> is_cancelled (idel c) = false -> latest c + d <= varint_max ->
  let c' := fst (ivs_step c (OUpdate d)) in
  latest c' = latest c + d /\ ackd c' = ackd c /\ thr c' = thr c /\
  is_cancelled (idel c') = false /\ iinv c'.
Proof.
  intros c d Hi Hc Hb. cbv zeta.
  assert (E : cap_add (latest c) d = latest c + d) by (unfold cap_add; lia).
  pose proof (ivs_step_inv c (OUpdate d) Hi) as Hi'. unfold ivs_next in Hi'.
  revert Hi'. cbn [ivs_step fst]. unfold request_if. rewrite E.
  destruct (should_send _); cbn [latest ackd thr idel]; intros Hi';
    (split; [|split; [|split; [|split]]]); auto.
Qed.

Lemma ivs_new_same : forall w t, ivs_new w w t = mkIvs w w t NotRequested 0.
Proof.
  intros. unfold ivs_new, request_if, should_send. cbn. rewrite N.eqb_refl. reflexivity.
Qed.

Lemma iinv_quiet : forall l t pn, l <= varint_max -> iinv (mkIvs l l t NotRequested pn).
Proof. intros. unfold iinv, needs. cbn. rewrite N.eqb_refl. cbn. lia. Qed.

(* ------------------------------------------------------------------ the invariant *)

Definition acked_recv (l : list (cst * bool)) : Prop :=
  Forall (fun x => fst x = CAcked -> snd x = true) l.

Section Proofs.
  Variable n ws wc ths thc : N.
  Hypothesis Hws : 1 <= ws.
  Hypothesis Hwc : 1 <= wc.
  Hypothesis Hths : ths <= ws.
  Hypothesis Hthc : thc <= wc.
  Hypothesis Hbs : n + ws <= varint_max.
  Hypothesis Hbc : n + wc <= varint_max.

  Notation step := (step n).
  Notation pos := Liveness.pos.

  Record Inv (s : st) : Prop := mkInv {
    inv_len : pos s <= n;
    inv_ack : acked_recv (ch s);
    inv_read : rread s <= N.of_nat (prefix_len (ch s));
    inv_is : iinv (car_s s);
    inv_ic : iinv (car_c s);
    inv_ns : is_cancelled (idel (car_s s)) = false;
    inv_nc : is_cancelled (idel (car_c s)) = false;
    inv_ls : latest (car_s s) = rread s + ws;
    inv_lc : latest (car_c s) = rread s + wc;
    inv_as : ackd (car_s s) <= lim_s s;
    inv_ac : ackd (car_c s) <= lim_c s;
    inv_ts : thr (car_s s) = ths;
    inv_tc : thr (car_c s) = thc }.

  Lemma inv_init : Inv (init ws wc ths thc).
  Proof.
    unfold init. rewrite !ivs_new_same.
    constructor; cbn; try reflexivity; try lia.
    - constructor.
    - apply iinv_quiet. lia.
    - apply iinv_quiet. lia.
  Qed.

  Lemma read_le_n : forall s, Inv s -> N.of_nat (prefix_len (ch s)) <= n.
  Proof.
    intros s H. pose proof (prefix_len_le (ch s)). pose proof (inv_len s H). unfold pos in *. lia.
  Qed.

  Lemma carrier_after_tx_inv : forall c fwd rev,
    iinv c -> wants c = true ->
    iinv (if fwd && rev then mkIvs (latest c) (latest c) (thr c) NotRequested (ipn c + 1)
          else mkIvs (latest c) (ackd c) (thr c) (InFlight (latest c) (ipn c) 0) (ipn c + 1)).
  Proof.
    intros c fwd rev Hi W. destruct (wants_inv c Hi W) as (_ & _ & Hlt).
    destruct Hi as (H1 & H2 & _).
    destruct (fwd && rev).
    - apply iinv_quiet. exact H2.
    - unfold iinv. cbn. lia.
  Qed.

  Lemma inv_step : forall m nt a s, Inv s -> Inv (step m nt a s).
  Proof.
    intros m [fwd rev] a s H. pose proof H as [L A R IS IC NS NC LS LC AS AC TS TC].
    destruct a; unfold Liveness.step; cbn [fst snd].
    - (* send *)
      destruct (retx (ch s) fwd rev) as [l|] eqn:E.
      + destruct (retx_props _ _ _ _ E) as (E1 & E2 & _ & F1 & F2).
        constructor; cbn [ch rread lim_s lim_c car_s car_c]; auto.
        * unfold pos in *. cbn. rewrite E1. exact L.
        * destruct (fwd && rev) eqn:B; [|apply F2; auto].
          apply F1; auto. destruct fwd; [reflexivity|discriminate].
        * lia.
      + destruct (credit_ok n s && negb m) eqn:C; [|exact H].
        apply andb_true_iff in C. destruct C as [C _]. unfold credit_ok in C.
        apply andb_true_iff in C. destruct C as [C _]. apply andb_true_iff in C. destruct C as [C _].
        apply N.ltb_lt in C.
        constructor; cbn [ch rread lim_s lim_c car_s car_c]; auto.
        * unfold pos in *. cbn. rewrite app_length. cbn. lia.
        * unfold acked_recv. apply Forall_app. split; [exact A|]. constructor; [|constructor].
          cbn. destruct fwd, rev; cbn; auto; discriminate.
        * pose proof (prefix_len_app (ch s) (if fwd && rev then CAcked else CInFlight, fwd)). lia.
    - (* sender pto *)
      destruct (0 <? cnt is_cinflight (ch s))%nat; [|exact H].
      destruct (pto_data_props (ch s)) as (P1 & P2 & _ & _ & P5).
      constructor; cbn [ch rread lim_s lim_c car_s car_c]; auto.
      + unfold pos in *. cbn. rewrite P1. exact L.
      + apply P5. exact A.
      + rewrite P2. exact R.
    - (* read *)
      destruct (rread s <? N.of_nat (prefix_len (ch s))) eqn:C; [|exact H].
      apply N.ltb_lt in C. pose proof (read_le_n s H) as Hn.
      set (r' := N.of_nat (prefix_len (ch s))) in *.
      destruct (update_spec (car_s s) (r' - rread s) IS NS) as (U1 & U2 & U3 & U4 & U5); [lia|].
      destruct (update_spec (car_c s) (r' - rread s) IC NC) as (V1 & V2 & V3 & V4 & V5); [lia|].
      constructor; cbn [ch rread lim_s lim_c car_s car_c]; auto; try lia.
      all: try (fold r'; lia); try congruence.
    - (* rx stream carrier *)
      rewrite carrier_tx_spec. destruct (wants (car_s s)) eqn:W; [|exact H].
      pose proof (carrier_after_tx_inv (car_s s) fwd rev IS W) as Hi.
      constructor; cbn [ch rread lim_s lim_c car_s car_c]; auto.
      + destruct (fwd && rev); cbn; reflexivity.
      + destruct (fwd && rev); cbn; exact LS.
      + destruct (fwd && rev) eqn:B; cbn.
        * destruct fwd; [lia|discriminate].
        * destruct fwd; lia.
      + destruct (fwd && rev); cbn; exact TS.
    - (* rx connection carrier *)
      rewrite carrier_tx_spec. destruct (wants (car_c s)) eqn:W; [|exact H].
      pose proof (carrier_after_tx_inv (car_c s) fwd rev IC W) as Hi.
      constructor; cbn [ch rread lim_s lim_c car_s car_c]; auto.
      + destruct (fwd && rev); cbn; reflexivity.
      + destruct (fwd && rev); cbn; exact LC.
      + destruct (fwd && rev) eqn:B; cbn.
        * destruct fwd; [lia|discriminate].
        * destruct fwd; lia.
      + destruct (fwd && rev); cbn; exact TC.
    - (* receiver pto *)
      destruct (is_inflight (idel (car_s s)) || is_inflight (idel (car_c s))); [|exact H].
      rewrite !carrier_lose_spec.
      constructor; cbn [ch rread lim_s lim_c car_s car_c]; auto.
      + destruct (is_inflight (idel (car_s s))) eqn:F; [|exact IS].
        destruct (inflight_inv _ IS F) as (_ & _ & Hlt). destruct IS as (I1 & I2 & _).
        unfold iinv. cbn. lia.
      + destruct (is_inflight (idel (car_c s))) eqn:F; [|exact IC].
        destruct (inflight_inv _ IC F) as (_ & _ & Hlt). destruct IC as (I1 & I2 & _).
        unfold iinv. cbn. lia.
      + destruct (is_inflight (idel (car_s s))); [reflexivity|exact NS].
      + destruct (is_inflight (idel (car_c s))); [reflexivity|exact NC].
      + destruct (is_inflight (idel (car_s s))); [cbn|]; exact LS.
      + destruct (is_inflight (idel (car_c s))); [cbn|]; exact LC.
      + destruct (is_inflight (idel (car_s s))); [cbn|]; exact AS.
      + destruct (is_inflight (idel (car_c s))); [cbn|]; exact AC.
      + destruct (is_inflight (idel (car_s s))); [cbn|]; exact TS.
      + destruct (is_inflight (idel (car_c s))); [cbn|]; exact TC.
  Qed.

  (* ---------------------------------------------------------------- the measure *)

  Definition b2n (b : bool) : nat := if b then 1%nat else 0%nat.

  (* (unacknowledged chunks, missing credit, unread chunks, frames in flight, pending transmissions) *)
  Definition mu (s : st) : meas :=
    ((N.to_nat n - length (ch s)) + cnt is_unacked (ch s),
     (N.to_nat (n - N.min n (lim_s s)) + N.to_nat (n - N.min n (lim_c s)),
      (N.to_nat (n - rread s),
       (cnt is_cinflight (ch s) + b2n (is_inflight (idel (car_s s))) + b2n (is_inflight (idel (car_c s))),
        cnt is_clost (ch s) + b2n (wants (car_s s)) + b2n (wants (car_c s))))))%nat.

  Definition tt2 : bool * bool := (true, true).

  Ltac at1 := left; cbn [fst snd].
  Ltac at2 := right; split; [cbn [fst snd]|left; cbn [fst snd]].
  Ltac at3 := right; split; [cbn [fst snd]|right; split; [cbn [fst snd]|left; cbn [fst snd]]].
  Ltac at4 := right; split; [cbn [fst snd]|right; split; [cbn [fst snd]|right; split; [cbn [fst snd]|left; cbn [fst snd]]]].
  Ltac at5 := right; split; [cbn [fst snd]|right; split; [cbn [fst snd]|right; split; [cbn [fst snd]|right; split; cbn [fst snd]]]].

  Lemma dec_send_retx : forall m s, Inv s -> (0 < cnt is_clost (ch s))%nat ->
    mlt (mu (step m tt2 ASend s)) (mu s).
  Proof.
    intros m s H Hl. unfold Liveness.step, tt2. cbn [fst snd].
    destruct (retx (ch s) true true) as [l|] eqn:E.
    - destruct (retx_props _ _ _ _ E) as (E1 & _ & E3 & _). cbn [andb] in E3.
      unfold mlt, mu. cbn [ch rread lim_s lim_c car_s car_c]. at1. rewrite E1. lia.
    - apply retx_none in E. lia.
  Qed.

  Lemma dec_send_new : forall s, Inv s -> cnt is_clost (ch s) = O -> credit_ok n s = true ->
    mlt (mu (step false tt2 ASend s)) (mu s).
  Proof.
    intros s H Hl C. unfold Liveness.step, tt2. cbn [fst snd].
    destruct (retx (ch s) true true) as [l|] eqn:E.
    - assert (retx (ch s) true true = None) by (apply retx_none; exact Hl). congruence.
    - rewrite C. cbn [andb negb].
      unfold credit_ok in C. apply andb_true_iff in C. destruct C as [C _].
      apply andb_true_iff in C. destruct C as [C _]. apply N.ltb_lt in C. unfold Liveness.pos in C.
      unfold mlt, mu. cbn [ch rread lim_s lim_c car_s car_c]. at1.
      rewrite app_length, cnt_app. cbn. lia.
  Qed.

  Lemma dec_pto : forall m s, Inv s -> (0 < cnt is_cinflight (ch s))%nat ->
    mlt (mu (step m tt2 ASendPto s)) (mu s).
  Proof.
    intros m s H Hl. unfold Liveness.step.
    destruct (Nat.ltb_spec 0 (cnt is_cinflight (ch s))); [|lia].
    destruct (pto_data_props (ch s)) as (P1 & P2 & P3 & P4 & _).
    unfold mlt, mu. cbn [ch rread lim_s lim_c car_s car_c]. at4; try reflexivity.
    - rewrite P1, P3. reflexivity.
    - rewrite P4. lia.
  Qed.

  Lemma dec_read : forall m s, Inv s -> rread s < N.of_nat (prefix_len (ch s)) ->
    mlt (mu (step m tt2 ARead s)) (mu s).
  Proof.
    intros m s H Hl. unfold Liveness.step.
    pose proof (read_le_n s H) as Hn.
    destruct (N.ltb_spec (rread s) (N.of_nat (prefix_len (ch s)))); [|lia].
    unfold mlt, mu. cbn [ch rread lim_s lim_c car_s car_c]. at3; try reflexivity. lia.
  Qed.

  Lemma dec_rxs : forall m s, Inv s -> wants (car_s s) = true ->
    mlt (mu (step m tt2 ARxS s)) (mu s).
  Proof.
    intros m s H W. unfold Liveness.step, tt2. cbn [fst snd]. rewrite carrier_tx_spec, W. cbn [andb].
    destruct (wants_inv _ (inv_is s H) W) as (F & _ & _).
    unfold mlt, mu. cbn [ch rread lim_s lim_c car_s car_c idel is_inflight]. unfold wants at 1. cbn [idel].
    rewrite F, W.
    destruct (Nat.eq_dec (N.to_nat (n - N.min n (N.max (lim_s s) (latest (car_s s)))))
                         (N.to_nat (n - N.min n (lim_s s)))) as [Eq|Ne].
    - at5; try reflexivity; try lia. cbn [b2n]. lia.
    - at2; try reflexivity. lia.
  Qed.

  Lemma dec_rxc : forall m s, Inv s -> wants (car_c s) = true ->
    mlt (mu (step m tt2 ARxC s)) (mu s).
  Proof.
    intros m s H W. unfold Liveness.step, tt2. cbn [fst snd]. rewrite carrier_tx_spec, W. cbn [andb].
    destruct (wants_inv _ (inv_ic s H) W) as (F & _ & _).
    unfold mlt, mu. cbn [ch rread lim_s lim_c car_s car_c idel is_inflight]. unfold wants at 2. cbn [idel].
    rewrite F, W.
    destruct (Nat.eq_dec (N.to_nat (n - N.min n (N.max (lim_c s) (latest (car_c s)))))
                         (N.to_nat (n - N.min n (lim_c s)))) as [Eq|Ne].
    - at5; try reflexivity; try lia. cbn [b2n]. lia.
    - at2; try reflexivity. lia.
  Qed.

  Lemma dec_rxpto : forall m s, Inv s ->
    is_inflight (idel (car_s s)) || is_inflight (idel (car_c s)) = true ->
    mlt (mu (step m tt2 ARxPto s)) (mu s).
  Proof.
    intros m s H W. unfold Liveness.step. rewrite W, !carrier_lose_spec.
    unfold mlt, mu. cbn [ch rread lim_s lim_c car_s car_c]. at4; try reflexivity.
    destruct (is_inflight (idel (car_s s))) eqn:F1, (is_inflight (idel (car_c s))) eqn:F2;
      cbn [idel is_inflight b2n] in *; try discriminate; rewrite ?F1, ?F2; cbn [b2n]; lia.
  Qed.

  (* every step under a faithful network is a stutter or strictly decreases the measure *)
  Lemma step_dichotomy : forall m a s, Inv s ->
    step m tt2 a s = s \/ mlt (mu (step m tt2 a s)) (mu s).
  Proof.
    intros m a s H. destruct a.
    - destruct (Nat.eq_dec (cnt is_clost (ch s)) 0) as [E|E].
      + destruct m.
        * left. unfold Liveness.step, tt2. cbn [fst snd].
          apply (retx_none _ true true) in E. rewrite E. rewrite andb_false_r. reflexivity.
        * destruct (credit_ok n s) eqn:C.
          -- right. apply dec_send_new; auto.
          -- left. unfold Liveness.step, tt2. cbn [fst snd].
             apply (retx_none _ true true) in E. rewrite E, C. reflexivity.
      + right. apply dec_send_retx; auto. lia.
    - destruct (Nat.eq_dec (cnt is_cinflight (ch s)) 0) as [E|E].
      + left. unfold Liveness.step. rewrite E. reflexivity.
      + right. apply dec_pto; auto. lia.
    - destruct (N.ltb_spec (rread s) (N.of_nat (prefix_len (ch s)))) as [L|L].
      + right. apply dec_read; auto.
      + left. unfold Liveness.step. apply N.ltb_ge in L. rewrite L. reflexivity.
    - destruct (wants (car_s s)) eqn:W.
      + right. apply dec_rxs; auto.
      + left. unfold Liveness.step. rewrite carrier_tx_spec, W. reflexivity.
    - destruct (wants (car_c s)) eqn:W.
      + right. apply dec_rxc; auto.
      + left. unfold Liveness.step. rewrite carrier_tx_spec, W. reflexivity.
    - destruct (is_inflight (idel (car_s s)) || is_inflight (idel (car_c s))) eqn:W.
      + right. apply dec_rxpto; auto.
      + left. unfold Liveness.step. rewrite W. reflexivity.
  Qed.

  (* ---------------------------------------------------------------- some action always helps *)

  Lemma carrier_must_move : forall c w,
    iinv c -> is_cancelled (idel c) = false -> ackd c + w <= latest c -> 1 <= w -> thr c <= w ->
    wants c = true \/ is_inflight (idel c) = true.
  Proof.
    intros [l a t d pn] w (H1 & H2 & H3) Hc Hw H1w Ht. unfold wants. cbn in *.
    destruct d; auto; try discriminate; try contradiction.
    exfalso. unfold needs in H3. apply andb_false_iff in H3. destruct H3 as [H3|H3].
    - apply negb_false_iff in H3. apply N.eqb_eq in H3. lia.
    - apply N.leb_gt in H3. lia.
  Qed.

  Definition helps (a : action) (s : st) : Prop :=
    forall m, (credit_ok n s = true -> m = false) -> mlt (mu (step m tt2 a s)) (mu s).

  Lemma complete_dec : forall s, {complete n s} + {~ complete n s}.
  Proof.
    intros s. unfold complete.
    destruct (N.eq_dec (pos s) n); [|right; tauto].
    destruct (Nat.eq_dec (cnt is_unacked (ch s)) 0); [|right; tauto].
    destruct (N.eq_dec (rread s) n); [left; tauto|right; tauto].
  Qed.

  Lemma some_action_helps : forall s, Inv s -> ~ complete n s -> exists a, helps a s.
  Proof.
    intros s H Hnc. pose proof H as [L A R IS IC NS NC LS LC AS AC TS TC].
    destruct (Nat.eq_dec (cnt is_clost (ch s)) 0) as [El|El];
      [|exists ASend; intros m _; apply dec_send_retx; auto; lia].
    destruct (Nat.eq_dec (cnt is_cinflight (ch s)) 0) as [Ei|Ei];
      [|exists ASendPto; intros m _; apply dec_pto; auto; lia].
    assert (Eu : cnt is_unacked (ch s) = O) by (rewrite unacked_split; lia).
    pose proof (prefix_all _ Eu A) as Ep.
    destruct (N.ltb_spec (rread s) (N.of_nat (prefix_len (ch s)))) as [Hr|Hr];
      [exists ARead; intros m _; apply dec_read; auto|].
    assert (Er : rread s = pos s) by (unfold Liveness.pos in *; lia).
    destruct (N.ltb_spec (pos s) n) as [Hp|Hp].
    - destruct (credit_ok n s) eqn:C.
      + exists ASend. intros m Hm. rewrite (Hm C). apply dec_send_new; auto.
      + unfold credit_ok in C. apply N.ltb_lt in Hp. rewrite Hp in C. cbn [andb] in C.
        apply andb_false_iff in C. destruct C as [C|C]; apply N.ltb_ge in C.
        * destruct (carrier_must_move (car_s s) ws IS NS) as [W|F]; try lia.
          -- exists ARxS. intros m _. apply dec_rxs; auto.
          -- exists ARxPto. intros m _. apply dec_rxpto; auto. rewrite F. reflexivity.
        * destruct (carrier_must_move (car_c s) wc IC NC) as [W|F]; try lia.
          -- exists ARxC. intros m _. apply dec_rxc; auto.
          -- exists ARxPto. intros m _. apply dec_rxpto; auto. rewrite F. apply orb_true_r.
    - exfalso. apply Hnc. unfold complete. repeat split; auto; lia.
  Qed.

  (* ---------------------------------------------------------------- schedules *)

  Variable sched : nat -> action.
  Variable net : nat -> bool * bool.
  Variable mask : nat -> bool.

  Notation run := (Liveness.run n ws wc ths thc sched net mask).

  (* fairness: every kind of action (transmit opportunity of each endpoint / carrier, timer expiry,
     application task) recurs; an action that is not enabled is a no-op *)
  Definition fair : Prop := forall a k, exists k', (k <= k')%nat /\ sched k' = a.
  (* the network: an arbitrary fault prefix of finite length, then every packet and acknowledgement
     gets through *)
  Definition finite_faults : Prop := exists F, forall k, (F <= k)%nat -> net k = (true, true).
  (* the sender's flow controller does not report "blocked" while stream and connection credit for
     the next chunk are available *)
  Definition interest_reported : Prop := forall k, credit_ok n (run k) = true -> mask k = false.

  Lemma inv_run : forall k, Inv (run k).
  Proof. induction k; cbn [Liveness.run]; [apply inv_init|apply inv_step; exact IHk]. Qed.

  Lemma progress : forall F, (forall k, (F <= k)%nat -> net k = (true, true)) -> interest_reported ->
    forall j k a, (F <= k)%nat -> sched (k + j) = a -> helps a (run k) ->
    exists k', (k < k')%nat /\ mlt (mu (run k')) (mu (run k)).
  Proof.
    intros F HF HM. induction j as [|j IH]; intros k a Hk Hs Hh.
    - exists (S k). split; [lia|]. cbn [Liveness.run]. rewrite Nat.add_0_r in Hs.
      rewrite Hs, (HF k Hk). apply Hh. apply HM.
    - destruct (step_dichotomy (mask k) (sched k) (run k) (inv_run k)) as [E|D].
      + assert (E' : run (S k) = run k) by (cbn [Liveness.run]; rewrite (HF k Hk); exact E).
        destruct (IH (S k) a) as (k' & Hk' & Hlt).
        * lia.
        * rewrite <- Hs. f_equal. lia.
        * rewrite E'. exact Hh.
        * exists k'. split; [lia|]. rewrite E' in Hlt. exact Hlt.
      + exists (S k). split; [lia|]. cbn [Liveness.run]. rewrite (HF k Hk). exact D.
  Qed.

  (* eventual_delivery: whatever the finite fault prefix, under a fair scheduler and a sender whose
     transmission interest is not masked while credit is available, after some number of steps every
     chunk of the finished stream has been transmitted, acknowledged at the sender, and read by the
     receiving application. *)
  Theorem eventual_delivery : fair -> finite_faults -> interest_reported ->
    exists k, complete n (run k).
  Proof.
    intros Hfair [F HF] HM.
    assert (G : forall x : meas, forall k, (F <= k)%nat -> mu (run k) = x -> exists k', complete n (run k')).
    { intros x. induction (wf_mlt x) as [x _ IH]. intros k Hk Hx.
      destruct (complete_dec (run k)) as [C|C]; [exists k; exact C|].
      destruct (some_action_helps (run k) (inv_run k) C) as (a & Ha).
      destruct (Hfair a k) as (k1 & Hk1 & Hs).
      destruct (progress F HF HM (k1 - k) k a Hk) as (k' & Hk' & Hlt).
      - rewrite <- Hs. f_equal. lia.
      - exact Ha.
      - apply (IH (mu (run k'))) with (k := k'); [rewrite <- Hx; exact Hlt|lia|reflexivity]. }
    apply (G (mu (run F)) F); [lia|reflexivity].
  Qed.

  (* what "complete" means, with the invariant: all n chunks transmitted, each acknowledged at the
     sender and received by the peer, and the application has read all n (the last carries the FIN) *)
  Theorem complete_meaning : forall k, complete n (run k) ->
    N.of_nat (length (ch (run k))) = n /\
    Forall (fun x => x = (CAcked, true)) (ch (run k)) /\
    rread (run k) = n /\ N.of_nat (prefix_len (ch (run k))) = n.
  Proof.
    intros k (C1 & C2 & C3). pose proof (inv_run k) as H.
    pose proof (prefix_all _ C2 (inv_ack _ H)) as Ep.
    unfold Liveness.pos in C1. repeat split; auto; [|lia].
    pose proof (inv_ack _ H) as A. revert C2 A. generalize (ch (run k)).
    induction l as [|[c r] t IHl]; intros C2 A; [constructor|].
    rewrite cnt_cons in C2. inversion A; subst. cbn [fst snd] in *.
    destruct c; cbn in C2; try lia. constructor; [rewrite (H2 eq_refl); reflexivity|].
    apply IHl; auto.
  Qed.
End Proofs.

(* ------------------------------------------------------------------ *_BLOCKED passengers *)

Section Blocked.
  Variable n ws wc ths thc : N.
  Variable sched : nat -> action.
  Variable net : nat -> bool * bool.
  Variable mask : nat -> bool.
  Variable lim : st -> N.
  Variable rx : action.
  Notation run := (Liveness.run n ws wc ths thc sched net mask).
  Notation blk := (blk_run n ws wc ths thc sched net mask lim rx).

  Lemma blk_is_reach : forall k, fst (blk k) = psy_reach (snd (blk k)).
  Proof.
    induction k as [|k IH]; [reflexivity|].
    cbn [blk_run]. destruct (blk k) as [b h]. cbn [fst snd] in *.
    unfold psy_reach. rewrite fold_left_app. fold (psy_reach h). rewrite <- IH. reflexivity.
  Qed.

  Lemma pghost_app : forall h ops, pghost (h ++ ops) = fold_left pgstep ops (pghost h).
  Proof. intros. unfold pghost. apply fold_left_app. Qed.

  (* Whenever the sender got a transmit opportunity while flow-control blocked on this window, its
     *_BLOCKED PeriodicSync has a pending delivery afterwards: the frame is in flight, or wanted, or
     the delivery timer is armed (periodicsync_never_forgotten) -- the blocked sender keeps an
     ack-eliciting signal / timer alive instead of going silent. *)
  Theorem blocked_signalled : forall k,
    sched k = ASend -> blocked_on n lim (run k) = true ->
    let b := fst (blk (S k)) in
    in_flight (pdel b) \/ wants_transmit (pdel b) \/ timer_armed b.
  Proof.
    intros k Hs Hb. cbv zeta. rewrite blk_is_reach.
    apply periodicsync_never_forgotten.
    cbn [blk_run]. destruct (blk k) as [b h]. cbn [snd].
    rewrite pghost_app. unfold blk_ops. rewrite Hs, Hb. cbn [app fold_left pgstep].
    destruct (fst (net k) && snd (net k)); reflexivity.
  Qed.
End Blocked.

(* ------------------------------------------------------------------ the hypotheses can be met *)

Definition rr_actions : list action := [ASend; ASendPto; ARead; ARxS; ARxC; ARxPto].
Definition rr_sched (k : nat) : action := nth (k mod 6) rr_actions ASend.
(* 40 faulty steps: forward / reverse direction dropped in changing patterns, then faithful *)
Definition ex_net (k : nat) : bool * bool :=
  if (k <? 40)%nat then (Nat.eqb (k mod 2) 0, Nat.eqb (k mod 3) 0) else (true, true).
Definition no_mask (k : nat) : bool := false.

Lemma rr_fair : fair rr_sched.
Proof.
  intros a k.
  assert (H : forall i, (i < 6)%nat -> ((6 * k + i) mod 6 = i)%nat).
  { intros i Hi. rewrite Nat.add_comm, Nat.mul_comm, Nat.mod_add by lia. apply Nat.mod_small. exact Hi. }
  destruct a;
    [exists (6 * k + 0)%nat | exists (6 * k + 1)%nat | exists (6 * k + 2)%nat
    | exists (6 * k + 3)%nat | exists (6 * k + 4)%nat | exists (6 * k + 5)%nat];
    (split; [lia|]); unfold rr_sched; rewrite H by lia; reflexivity.
Qed.

Lemma ex_net_finite : finite_faults ex_net.
Proof.
  exists 40%nat. intros k Hk. unfold ex_net.
  destruct (Nat.ltb_spec k 40); [lia|reflexivity].
Qed.

Lemma no_mask_reported : forall n ws wc ths thc sched net,
  interest_reported n ws wc ths thc sched net no_mask.
Proof. intros. intros k _. reflexivity. Qed.

(* 5 chunks, stream window 1, connection window 2 (every kind of credit blocking occurs),
   thresholds 1: the theorem applies, and this particular run is complete after 150 steps *)
Example eventual_delivery_instance :
  (exists k, complete 5 (run 5 1 2 1 1 rr_sched ex_net no_mask k)) /\
  complete 5 (run 5 1 2 1 1 rr_sched ex_net no_mask 150).
Proof.
  split.
  - apply eventual_delivery; try (unfold varint_max; lia).
    + apply rr_fair.
    + apply ex_net_finite.
    + apply no_mask_reported.
  - unfold complete. vm_compute. repeat split; reflexivity.
Qed.

(* ------------------------------------------------------------------ the premise and the real code *)

(* [interest_reported] is a premise about the sender's flow controller.  For the StreamFlowController
   of send_stream.rs (model/FlowSend.v, transcribed from acquire_flow_control_window /
   set_max_stream_data / try_acquire_connection_window and compared with the real code by the C03
   correspondence) it is FALSE: a stream blocked by both its stream window and the connection window
   keeps reporting "blocked" after MAX_STREAM_DATA arrives, although stream and connection credit
   for the next byte are then available.  (KNOWN_FINDINGS class
   both_windows_blocked_state_masks_stream_credit.) *)
From SQ Require model.FlowSend.

(* stream window 1, connection window 50; the data sender asks for [0,150), sends byte 0,
   then MAX_STREAM_DATA = 101 arrives *)
Definition fc_after_max_stream_data : FlowSend.cfc * FlowSend.sfc :=
  let '(c1, f1, _) := FlowSend.sfc_acquire (FlowSend.cfc_new 50) (FlowSend.sfc_new 1) 150 in
  (c1, FlowSend.sfc_set_max_sd f1 101).

(* the premise for this controller: next offset below the available window -> not blocked *)
Definition fc_interest_reported (f : FlowSend.sfc) (next_offset : N) : Prop :=
  next_offset < FlowSend.sfc_avail f -> FlowSend.sfc_is_blocked f = false.

Lemma interest_reported_refuted :
  let f := snd fc_after_max_stream_data in
  FlowSend.sfc_avail f = 50 /\ FlowSend.f_st f = 2 /\ ~ fc_interest_reported f 1.
Proof.
  cbv zeta. split; [vm_compute; reflexivity|]. split; [vm_compute; reflexivity|].
  unfold fc_interest_reported. intros H.
  assert (E : FlowSend.sfc_is_blocked (snd fc_after_max_stream_data) = true) by (vm_compute; reflexivity).
  rewrite H in E; [discriminate|]. vm_compute. reflexivity.
Qed.

(* the same history with only the stream window blocking does clear the state: the defect needs both *)
Lemma stream_window_only_recovers :
  let '(c1, f1, _) := FlowSend.sfc_acquire (FlowSend.cfc_new 500) (FlowSend.sfc_new 1) 150 in
  FlowSend.sfc_is_blocked f1 = true /\ FlowSend.sfc_is_blocked (FlowSend.sfc_set_max_sd f1 101) = false.
Proof. vm_compute. split; reflexivity. Qed.
