(* Proofs about model/Liveness.v: eventual delivery by a lexicographic measure. *)
From SQ Require Import lib.Base model.Sync proofs.SyncProofs model.Liveness.
From Coq Require Import Wellfounded.
Local Open Scope N_scope.

(* ------------------------------------------------------------------ lexicographic order *)

Definition lex2 {A B} (ra : A -> A -> Prop) (rb : B -> B -> Prop) (x y : A * B) : Prop :=
  ra (fst x) (fst y) \/ (fst x = fst y /\ rb (snd x) (snd y)).

Lemma wf_lex2 {A B} (ra : A -> A -> Prop) (rb : B -> B -> Prop) :
  well_founded ra -> well_founded rb -> well_founded (lex2 ra rb).
Proof.
  intros Ha Hb [a b]. revert b.
  induction (Ha a) as [a _ IHa]. intros b.
  induction (Hb b) as [b _ IHb].
  constructor. intros [a' b'] [H|[H1 H2]]; cbn in *.
  - apply IHa. exact H.
  - subst a'. apply IHb. exact H2.
Qed.

Definition meas := (nat * (nat * (nat * (nat * nat))))%type.
Definition mlt : meas -> meas -> Prop := lex2 lt (lex2 lt (lex2 lt (lex2 lt lt))).
Lemma wf_mlt : well_founded mlt.
Proof. repeat apply wf_lex2; apply lt_wf. Qed.

(* ------------------------------------------------------------------ chunk list lemmas *)

Lemma cnt_cons : forall f x l, cnt f (x :: l) = ((if f (fst x) then 1 else 0) + cnt f l)%nat.
Proof. intros. unfold cnt. cbn. destruct (f (fst x)); reflexivity. Qed.

Lemma cnt_app : forall f l1 l2, cnt f (l1 ++ l2) = (cnt f l1 + cnt f l2)%nat.
Proof. intros. unfold cnt. rewrite filter_app, app_length. reflexivity. Qed.

Ltac split5 := split; [|split; [|split; [|split]]].

Lemma retx_props : forall l fwd rev l',
  retx l fwd rev = Some l' ->
  length l' = length l /\
  (prefix_len l <= prefix_len l')%nat /\
  (cnt is_unacked l' + (if fwd && rev then 1 else 0) = cnt is_unacked l)%nat /\
  (Forall (fun x => fst x = CAcked -> snd x = true) l -> fwd && rev = true -> fwd = true ->
   Forall (fun x => fst x = CAcked -> snd x = true) l') /\
  (Forall (fun x => fst x = CAcked -> snd x = true) l -> fwd && rev = false ->
   Forall (fun x => fst x = CAcked -> snd x = true) l').
Proof.
  induction l as [|[c r] t IH]; intros fwd rev l' H; [discriminate|].
  cbn [retx] in H.
  destruct c.
  - destruct (retx t fwd rev) as [t'|] eqn:E; [|discriminate]. inversion H; subst.
    destruct (IH _ _ _ E) as (L & P & C & F1 & F2).
    split5.
    + cbn. lia.
    + cbn. destruct r; lia.
    + rewrite !cnt_cons. cbn. lia.
    + intros HF Hb Hf. inversion HF; subst. constructor; auto.
    + intros HF Hb. inversion HF; subst. constructor; auto.
  - inversion H; subst. split5.
    + reflexivity.
    + cbn. destruct r, fwd; cbn; lia.
    + rewrite !cnt_cons. cbn. destruct (fwd && rev); cbn; lia.
    + intros HF Hb Hf. inversion HF; subst. constructor; auto. cbn. intros _. apply orb_true_r.
    + intros HF Hb. inversion HF; subst. constructor; auto. cbn. rewrite Hb. discriminate.
  - destruct (retx t fwd rev) as [t'|] eqn:E; [|discriminate]. inversion H; subst.
    destruct (IH _ _ _ E) as (L & P & C & F1 & F2).
    split5.
    + cbn. lia.
    + cbn. destruct r; lia.
    + rewrite !cnt_cons. cbn. lia.
    + intros HF Hb Hf. inversion HF; subst. constructor; auto.
    + intros HF Hb. inversion HF; subst. constructor; auto.
Qed.

Lemma retx_none : forall l fwd rev, retx l fwd rev = None <-> cnt is_clost l = O.
Proof.
  induction l as [|[c r] t IH]; intros fwd rev; [cbn; tauto|].
  cbn [retx]. rewrite cnt_cons. cbn [fst]. destruct c; cbn [is_clost].
  - destruct (retx t fwd rev) eqn:E.
    + split; [discriminate|]. intros H. apply (IH fwd rev) in H. congruence.
    + split; [|reflexivity]. intros _. cbn. apply (IH fwd rev). exact E.
  - split; [discriminate|]. cbn. discriminate.
  - destruct (retx t fwd rev) eqn:E.
    + split; [discriminate|]. intros H. apply (IH fwd rev) in H. congruence.
    + split; [|reflexivity]. intros _. cbn. apply (IH fwd rev). exact E.
Qed.

Lemma retx_lost_dec : forall l l', retx l true true = Some l' ->
  cnt is_cinflight l' = cnt is_cinflight l.
Proof.
  induction l as [|[c r] t IH]; intros l' H; [discriminate|]. cbn [retx] in H.
  destruct c; try (destruct (retx t true true) eqn:E; [|discriminate]; inversion H; subst;
                   rewrite !cnt_cons; cbn; rewrite (IH _ eq_refl); reflexivity).
  inversion H; subst. rewrite !cnt_cons. reflexivity.
Qed.

Lemma pto_data_props : forall l,
  length (pto_data l) = length l /\ prefix_len (pto_data l) = prefix_len l /\
  cnt is_unacked (pto_data l) = cnt is_unacked l /\ cnt is_cinflight (pto_data l) = O /\
  (Forall (fun x => fst x = CAcked -> snd x = true) l ->
   Forall (fun x => fst x = CAcked -> snd x = true) (pto_data l)).
Proof.
  induction l as [|[c r] t (L & P & C & I & F)]; [cbn; split5; auto|].
  cbn [pto_data map fst snd]. fold (pto_data t). split5.
  - cbn. lia.
  - cbn. destruct r; lia.
  - rewrite !cnt_cons. destruct c; cbn; lia.
  - rewrite cnt_cons. destruct c; cbn; lia.
  - intros HF. inversion HF; subst. constructor; auto. destruct c; cbn in *; auto; discriminate.
Qed.

Lemma prefix_len_le : forall l, (prefix_len l <= length l)%nat.
Proof. induction l as [|[c r] t IH]; cbn; [lia|]. destruct r; lia. Qed.

Lemma prefix_len_app : forall l x, (prefix_len l <= prefix_len (l ++ [x]))%nat.
Proof. induction l as [|[c r] t IH]; intros x; cbn; [lia|]. destruct r; [specialize (IH x)|]; lia. Qed.

(* all transmitted chunks acknowledged and every acknowledged chunk received: the prefix is everything *)
Lemma prefix_all : forall l,
  cnt is_unacked l = O -> Forall (fun x => fst x = CAcked -> snd x = true) l ->
  prefix_len l = length l.
Proof.
  induction l as [|[c r] t IH]; intros H F; [reflexivity|].
  rewrite cnt_cons in H. inversion F; subst. cbn [fst snd] in *.
  destruct c; cbn in H; try lia. rewrite (H2 eq_refl). cbn. rewrite IH; auto.
Qed.

Lemma unacked_split : forall l,
  cnt is_unacked l = (cnt is_cinflight l + cnt is_clost l)%nat.
Proof.
  induction l as [|[c r] t IH]; [reflexivity|]. rewrite !cnt_cons. destruct c; cbn; lia.
Qed.

(* ------------------------------------------------------------------ credit carrier lemmas *)

Lemma carrier_tx_spec : forall c fwd rev,
  carrier_tx c fwd rev =
  if wants c then
    Some (if fwd && rev then mkIvs (latest c) (latest c) (thr c) NotRequested (ipn c + 1)
          else mkIvs (latest c) (ackd c) (thr c) (InFlight (latest c) (ipn c) 0) (ipn c + 1),
          if fwd then Some (latest c) else None)
  else None.
Proof.
  intros [l a t d pn] fwd rev. unfold carrier_tx, wants. cbn [idel latest ackd thr ipn].
  destruct d; cbn [try_transmit]; unfold can_transmit, can_retransmit; rewrite ?N.eqb_refl;
    cbn [orb]; try reflexivity.
  - unfold ivs_step at 2. cbn [idel latest ackd thr ipn try_transmit]. unfold can_transmit.
    rewrite N.eqb_refl. cbn [fst].
    destruct (fwd && rev); [|reflexivity].
    unfold ivs_step. cbn [idel latest ackd thr ipn]. unfold in_range. rewrite N.leb_refl. reflexivity.
  - unfold ivs_step at 2. cbn [idel latest ackd thr ipn try_transmit]. unfold can_retransmit.
    rewrite N.eqb_refl. cbn [orb fst].
    destruct (fwd && rev); [|reflexivity].
    unfold ivs_step. cbn [idel latest ackd thr ipn]. unfold in_range. rewrite N.leb_refl. reflexivity.
Qed.

Lemma wants_inv : forall c, iinv c -> wants c = true ->
  is_inflight (idel c) = false /\ is_cancelled (idel c) = false /\ ackd c < latest c.
Proof.
  intros [l a t d pn] (H1 & H2 & H3) W. unfold wants in W. cbn in *.
  destruct d; try discriminate; auto.
Qed.

Lemma carrier_lose_spec : forall c,
  carrier_lose c =
  if is_inflight (idel c) then mkIvs (latest c) (ackd c) (thr c) (Lost (latest c)) (ipn c) else c.
Proof.
  intros [l a t d pn]. unfold carrier_lose. cbn [idel latest ackd thr ipn].
  destruct d; cbn [is_inflight]; try reflexivity.
  unfold ivs_step. cbn [idel latest ackd thr ipn]. unfold in_range. rewrite N.leb_refl. reflexivity.
Qed.

Lemma inflight_inv : forall c, iinv c -> is_inflight (idel c) = true ->
  wants c = false /\ is_cancelled (idel c) = false /\ ackd c < latest c.
Proof.
  intros [l a t d pn] (H1 & H2 & H3) W. unfold wants. cbn in *.
  destruct d; try discriminate. repeat split; auto. lia.
Qed.

Lemma update_spec : forall c d,
  iinv c -> is_cancelled (idel c) = false -> latest c + d <= varint_max ->
  let c' := fst (ivs_step c (OUpdate d)) in
  latest c' = latest c + d /\ ackd c' = ackd c /\ thr c' = thr c /\
  is_cancelled (idel c') = false /\ iinv c'.
Proof.
  intros c d Hi Hc Hb. cbv zeta.
  assert (E : cap_add (latest c) d = latest c + d) by (unfold cap_add; lia).
  pose proof (ivs_step_inv c (OUpdate d) Hi) as Hi'. unfold ivs_next in Hi'.
  revert Hi'. cbn [ivs_step fst]. unfold request_if. rewrite E.
  destruct (should_send _); cbn [latest ackd thr idel]; intros Hi';
    (split; [|split; [|split; [|split]]]); auto.
Qed.

Lemma ivs_new_same : forall w t, ivs_new w w t = mkIvs w w t NotRequested 0.
Proof.
  intros. unfold ivs_new, request_if, should_send. cbn. rewrite N.eqb_refl. reflexivity.
Qed.

Lemma iinv_quiet : forall l t pn, l <= varint_max -> iinv (mkIvs l l t NotRequested pn).
Proof. intros. unfold iinv, needs. cbn. rewrite N.eqb_refl. cbn. lia. Qed.

(* ------------------------------------------------------------------ the invariant *)

Definition acked_recv (l : list (cst * bool)) : Prop :=
  Forall (fun x => fst x = CAcked -> snd x = true) l.

Section Proofs.
  Variable n ws wc ths thc : N.
  Hypothesis Hws : 1 <= ws.
  Hypothesis Hwc : 1 <= wc.
  Hypothesis Hths : ths <= ws.
  Hypothesis Hthc : thc <= wc.
  Hypothesis Hbs : n + ws <= varint_max.
  Hypothesis Hbc : n + wc <= varint_max.

  Notation step := (step n).
  Notation pos := Liveness.pos.

  Record Inv (s : st) : Prop := mkInv {
    inv_len : pos s <= n;
    inv_ack : acked_recv (ch s);
    inv_read : rread s <= N.of_nat (prefix_len (ch s));
    inv_is : iinv (car_s s);
    inv_ic : iinv (car_c s);
    inv_ns : is_cancelled (idel (car_s s)) = false;
    inv_nc : is_cancelled (idel (car_c s)) = false;
    inv_ls : latest (car_s s) = rread s + ws;
    inv_lc : latest (car_c s) = rread s + wc;
    inv_as : ackd (car_s s) <= lim_s s;
    inv_ac : ackd (car_c s) <= lim_c s;
    inv_ts : thr (car_s s) = ths;
    inv_tc : thr (car_c s) = thc }.

  Lemma inv_init : Inv (init ws wc ths thc).
  Proof.
    unfold init. rewrite !ivs_new_same.
    constructor; cbn; try reflexivity; try lia.
    - constructor.
    - apply iinv_quiet. lia.
    - apply iinv_quiet. lia.
  Qed.

  Lemma read_le_n : forall s, Inv s -> N.of_nat (prefix_len (ch s)) <= n.
  Proof.
    intros s H. pose proof (prefix_len_le (ch s)). pose proof (inv_len s H). unfold pos in *. lia.
  Qed.

  Lemma carrier_after_tx_inv : forall c fwd rev,
    iinv c -> wants c = true ->
    iinv (if fwd && rev then mkIvs (latest c) (latest c) (thr c) NotRequested (ipn c + 1)
          else mkIvs (latest c) (ackd c) (thr c) (InFlight (latest c) (ipn c) 0) (ipn c + 1)).
  Proof.
    intros c fwd rev Hi W. destruct (wants_inv c Hi W) as (_ & _ & Hlt).
    destruct Hi as (H1 & H2 & _).
    destruct (fwd && rev).
    - apply iinv_quiet. exact H2.
    - unfold iinv. cbn. lia.
  Qed.

  Lemma inv_step : forall m nt a s, Inv s -> Inv (step m nt a s).
  Proof.
    intros m [fwd rev] a s H. pose proof H as [L A R IS IC NS NC LS LC AS AC TS TC].
    destruct a; unfold Liveness.step; cbn [fst snd].
    - (* send *)
      destruct (retx (ch s) fwd rev) as [l|] eqn:E.
      + destruct (retx_props _ _ _ _ E) as (E1 & E2 & _ & F1 & F2).
        constructor; cbn; auto.
        * unfold pos in *. cbn. rewrite E1. exact L.
        * destruct (fwd && rev) eqn:B; [|apply F2; auto].
          apply F1; auto. destruct fwd; [reflexivity|discriminate].
        * lia.
      + destruct (credit_ok n s && negb m) eqn:C; [|exact H].
        apply andb_true_iff in C. destruct C as [C _]. unfold credit_ok in C.
        apply andb_true_iff in C. destruct C as [C _]. apply andb_true_iff in C. destruct C as [C _].
        apply N.ltb_lt in C.
        constructor; cbn; auto.
        * unfold pos in *. cbn. rewrite app_length. cbn. lia.
        * unfold acked_recv. apply Forall_app. split; [exact A|]. constructor; [|constructor].
          cbn. destruct fwd, rev; cbn; auto; discriminate.
        * pose proof (prefix_len_app (ch s) (if fwd && rev then CAcked else CInFlight, fwd)). lia.
    - (* sender pto *)
      destruct (0 <? cnt is_cinflight (ch s))%nat; [|exact H].
      destruct (pto_data_props (ch s)) as (P1 & P2 & _ & _ & P5).
      constructor; cbn; auto.
      + unfold pos in *. cbn. rewrite P1. exact L.
      + rewrite P2. exact R.
    - (* read *)
      destruct (rread s <? N.of_nat (prefix_len (ch s))) eqn:C; [|exact H].
      apply N.ltb_lt in C. pose proof (read_le_n s H) as Hn.
      set (r' := N.of_nat (prefix_len (ch s))) in *.
      destruct (update_spec (car_s s) (r' - rread s) IS NS) as (U1 & U2 & U3 & U4 & U5); [lia|].
      destruct (update_spec (car_c s) (r' - rread s) IC NC) as (V1 & V2 & V3 & V4 & V5); [lia|].
      constructor; cbn; auto; try lia.
      + fold r'. lia.
      + congruence.
      + congruence.
    - (* rx stream carrier *)
      rewrite carrier_tx_spec. destruct (wants (car_s s)) eqn:W; [|exact H].
      pose proof (carrier_after_tx_inv (car_s s) fwd rev IS W) as Hi.
      constructor; cbn; auto.
      + destruct (fwd && rev); cbn; reflexivity.
      + destruct (fwd && rev); cbn; exact LS.
      + destruct (fwd && rev) eqn:B; cbn.
        * destruct fwd; [lia|discriminate].
        * destruct fwd; lia.
      + destruct (fwd && rev); cbn; exact TS.
    - (* rx connection carrier *)
      rewrite carrier_tx_spec. destruct (wants (car_c s)) eqn:W; [|exact H].
      pose proof (carrier_after_tx_inv (car_c s) fwd rev IC W) as Hi.
      constructor; cbn; auto.
      + destruct (fwd && rev); cbn; reflexivity.
      + destruct (fwd && rev); cbn; exact LC.
      + destruct (fwd && rev) eqn:B; cbn.
        * destruct fwd; [lia|discriminate].
        * destruct fwd; lia.
      + destruct (fwd && rev); cbn; exact TC.
    - (* receiver pto *)
      destruct (is_inflight (idel (car_s s)) || is_inflight (idel (car_c s))); [|exact H].
      rewrite !carrier_lose_spec.
      constructor; cbn; auto.
      + destruct (is_inflight (idel (car_s s))) eqn:F; [|exact IS].
        destruct (inflight_inv _ IS F) as (_ & _ & Hlt). destruct IS as (I1 & I2 & _).
        unfold iinv. cbn. lia.
      + destruct (is_inflight (idel (car_c s))) eqn:F; [|exact IC].
        destruct (inflight_inv _ IC F) as (_ & _ & Hlt). destruct IC as (I1 & I2 & _).
        unfold iinv. cbn. lia.
      + destruct (is_inflight (idel (car_s s))); [reflexivity|exact NS].
      + destruct (is_inflight (idel (car_c s))); [reflexivity|exact NC].
      + destruct (is_inflight (idel (car_s s))); [cbn|]; exact LS.
      + destruct (is_inflight (idel (car_c s))); [cbn|]; exact LC.
      + destruct (is_inflight (idel (car_s s))); [cbn|]; exact AS.
      + destruct (is_inflight (idel (car_c s))); [cbn|]; exact AC.
      + destruct (is_inflight (idel (car_s s))); [cbn|]; exact TS.
      + destruct (is_inflight (idel (car_c s))); [cbn|]; exact TC.
  Qed.
End Proofs.
