(* Finite enumeration of program counters and booleans, for deciding obligations that quantify over
   finite data only by vm_compute. *)
From SQ Require Import lib.Base lib.ListX.
From SQ Require Import model.Spsc proofs.SpscClose.
Local Open Scope N_scope.

(* ---------------------------------------------------------------------------------------- *)
(* finite enumeration                                                                        *)
(* ---------------------------------------------------------------------------------------- *)
Definition all_qk := [QTry; QPoll1; QPoll2; QItem].
Definition all_qsub := [Q1; Q2; Q3].
Definition all_rsub := [R1; R2; R3; R4; R5; R6; R7].
Definition all_wkk := [KPersist; KClose1; KClose2; KDropR; KDropS].
Definition all_wsub := [W1; W2; W3 true; W3 false; W4].
Definition all_pc : list pc :=
  [Idle; Check; Work; Persist; Swap; Drop1; Drop2; Drop3; Free; Done; Rel]
  ++ flat_map (fun q => map (Acq q) all_qsub) all_qk
  ++ map Reg all_rsub
  ++ flat_map (fun k => map (Wk k) all_wsub) all_wkk.

Lemma all_pc_complete : forall p, In p all_pc.
Proof. intro p. destruct_pc p; vm_compute; repeat (first [left; reflexivity | right]). Qed.

Lemma fa_pc : forall f : pc -> bool, forallb f all_pc = true -> forall p, f p = true.
Proof. intros f H p. rewrite forallb_forall in H. apply H. apply all_pc_complete. Qed.
Lemma fa_bool : forall f : bool -> bool, f true && f false = true -> forall b, f b = true.
Proof. intros f H b. apply andb_true_iff in H. destruct H, b; auto. Qed.
Lemma implb_elim : forall a b, implb a b = true -> a = true -> b = true.
Proof. intros [] []; cbn; auto. Qed.

