(* No lost wake-up: the inductive invariant over the AtomicWaker protocol, for every schedule,
   capacity and program.  The invariant is a boolean function of finitely many components of the
   state (both program counters, the waker word and cell, a few flags) plus ONE bit that abstracts
   the ring indices ("published tail differs from the receiver's head" / "the shared head leaves
   room").  Preservation is proved by case analysis on the acting thread's program counter; in each
   case the remaining obligation quantifies over finite data only and is decided by vm_compute over
   the complete enumeration (fa_pc / fa_bool).  This is exhaustive over the invariant's finite
   arguments, not over schedules: schedules, capacities and programs are handled by the induction. *)
From SQ Require Import lib.Base lib.ListX gen.Gen_C17.
From SQ Require Import model.Spsc proofs.SpscClose proofs.SpscEnum proofs.SpscWake.
Local Open Scope N_scope.

Ltac gen_bools := repeat match goal with
  | |- context [N.eqb ?a ?b] => generalize (N.eqb a b); intro
  | |- context [is_full ?a ?b ?c] => generalize (is_full a b c); intro
  end.
Ltac enum_finish :=
  repeat match goal with x : _ |- _ => clear x end;
  repeat match goal with
  | x : bool |- _ => revert x; apply fa_bool
  | x : pc |- _ => revert x; apply fa_pc
  end;
  vm_compute; reflexivity.

(* ---------------------------------------------------------------------------------------- *)
(* the invariant, receiver's waker (registered by the consumer, woken by the producer)       *)
(* ---------------------------------------------------------------------------------------- *)
Definition holds (w : wsub) : bool := match w with W2 | W3 _ => true | _ => false end.
Definition regging (c : pc) : bool := match c with Reg R2 | Reg R3 | Reg R4 | Reg R5 => true | _ => false end.
Definition reg45 (c : pc) : bool := match c with Reg R4 | Reg R5 => true | _ => false end.
Definition reg34 (c : pc) : bool := match c with Reg R3 | Reg R4 => true | _ => false end.
(* the poll has registered and not yet returned Ready / been re-polled *)
Definition post_reg (c : pc) (parked : bool) : bool := match c with Acq QPoll2 _ => true | Idle => parked | _ => false end.
Definition idle_parked (c : pc) (parked : bool) : bool := match c with Idle => parked | _ => false end.
Definition after_q1 (c : pc) (parked : bool) : bool := match c with Acq QPoll2 Q2 | Acq QPoll2 Q3 => true | Idle => parked | _ => false end.
Definition is_persist_wk (p : pc) : bool := match p with Wk KPersist _ => true | _ => false end.
Definition is_close2_wk (p : pc) : bool := match p with Wk KClose2 _ => true | _ => false end.

(* what the waking side is doing on this waker: Some (is_drop, sub-pc) *)
Definition p_on_rw (p : pc) : option (bool * wsub) :=
  match p with Wk k w => if wk_targets_r_p k then Some (wk_is_drop k, w) else None | _ => None end.
Definition c_on_rw (c : pc) : option (bool * wsub) :=
  match c with Wk KDropR w => Some (true, w) | _ => None end.
Definition c_on_sw (c : pc) : option (bool * wsub) :=
  match c with Wk k w => if wk_targets_r_c k then None else Some (wk_is_drop k, w) | _ => None end.
Definition p_on_sw (p : pc) : option (bool * wsub) :=
  match p with Wk KDropS w => Some (true, w) | _ => None end.

Definition o_holds (o : option (bool * wsub)) : bool := match o with Some (_, w) => holds w | None => false end.
Definition o_will (o : option (bool * wsub)) (slot : bool) : bool :=
  match o with
  | Some (false, W2) => slot
  | Some (false, W3 true) => true
  | Some (false, W4) => true
  | _ => false
  end.

(* generic over the side: [wk] = the peer's activity on the waker, [own] = the registering side's own
   take() in drop_contents, [r] = the registering side's pc *)
Definition waker_inv (wk own : option (bool * wsub)) (r : pc) (reg waking slot notif parked : bool) : bool :=
  eqb reg (regging r)
  && implb parked (match r with Idle => true | _ => false end)
  && implb (o_holds wk || o_holds own) (waking && negb reg)
  && negb (o_holds wk && o_holds own)
  && implb (waking && negb reg) (o_holds wk || o_holds own)
  && implb (reg45 r) waking
  && implb (reg34 r) slot
  && implb (post_reg r parked && negb notif) ((negb reg && negb waking && slot) || o_will wk slot).

Definition winv_rb (p c : pc) (rr rk rs rnotif cparked opn ne : bool) : bool :=
  waker_inv (p_on_rw p) (c_on_rw c) c rr rk rs rnotif cparked
  && implb (after_q1 c cparked && negb rnotif && ne) (is_persist_wk p)
  && implb (idle_parked c cparked && negb rnotif && negb opn) (is_close2_wk p).

(* sender's waker: registered by the producer; acquire_capacity loads `open` first (Q1), `head` second *)
Definition winv_sb (p c : pc) (sr sk ss snotif pparked opn nf : bool) : bool :=
  waker_inv (c_on_sw c) (p_on_sw p) p sr sk ss snotif pparked
  && implb (idle_parked p pparked && negb snotif && nf) (is_persist_wk c)
  && implb (after_q1 p pparked && negb snotif && negb opn) (is_close2_wk c).

Global Arguments winv_rb : simpl never.
Global Arguments winv_sb : simpl never.

Definition cinv_pc (p c : pc) (o pw cw fr : bool) : bool :=
  cinv_b o pw cw fr (swapped p) (swapped c) (in_drop p) (in_drop c) (has_freed p pw) (has_freed c cw).
Global Arguments cinv_pc : simpl never.
Lemma cinv_is : forall s, cinv s = cinv_pc (ppc s) (cpc s) (open s) (pwas s) (cwas s) (freed s).
Proof. reflexivity. Qed.

Definition winv_r (s : st) : bool :=
  winv_rb (ppc s) (cpc s) (w_reg (rw s)) (w_waking (rw s)) (w_slot (rw s)) (rnotif s) (cparked s) (open s)
          (negb (tail s =? ch s)).
Definition winv_s (cap : N) (s : st) : bool :=
  winv_sb (ppc s) (cpc s) (w_reg (sw s)) (w_waking (sw s)) (w_slot (sw s)) (snotif s) (pparked s) (open s)
          (negb (is_full (head s) (pt s) cap)).

Lemma winv_init : forall cap, winv_r (init cap) = true /\ winv_s cap (init cap) = true.
Proof.
  intros. split; [reflexivity|]. unfold winv_s. cbn [init ppc cpc sw snotif pparked open head pt w_reg w_waking w_slot w_init].
  generalize (is_full 0 0 cap). intro. enum_finish.
Qed.

Ltac split_ifs2 :=
  repeat match goal with
  | |- context [if ?c then _ else _] =>
      match c with
      | context [?b] => is_var b; match type of b with bool => destruct b end
      end; st_cbn
  | |- context [if ?c then _ else _] => destruct c eqn:?; st_cbn;
      repeat match goal with E : ?t = _ |- context [?t] => rewrite E end
  | |- context [match ?x with _ => _ end] => destruct x eqn:?; st_cbn
  end.
Ltac wake_case :=
  unfold do_wk, wake_step, reg_step, is_empty; st_cbn; split_ifs2; gen_bools; enum_finish.
