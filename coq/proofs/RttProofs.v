(* Proofs about model/Rtt.v (RttEstimator). *)
From SQ Require Import lib.Base gen.Gen_C09 model.RecTime model.Rtt.
From Coq Require Import ZifyBool ZifyN.
Ltac Zify.zify_post_hook ::= Z.div_mod_to_equations.
Local Open Scope N_scope.

Lemma min_rtt_is_1us : min_rtt_ns = 1000.
Proof. reflexivity. Qed.
Lemma default_initial_rtt_is_333ms : default_initial_rtt_ns = 333000000.
Proof. reflexivity. Qed.

(* ---- weighted_average(a, b, 8) = a/8*7 + b/8 ---- *)
Lemma wavg8 : forall a b, wavg a b srtt_weight = a / 8 * 7 + b / 8.
Proof. reflexivity. Qed.
Lemma wavg4 : forall a b, wavg a b rttvar_weight = a / 4 * 3 + b / 4.
Proof. reflexivity. Qed.

(* never above the larger argument *)
Lemma wavg8_upper : forall a b U, a <= U -> b <= U -> wavg a b srtt_weight <= U.
Proof. intros. rewrite wavg8. lia. Qed.
Lemma wavg4_upper : forall a b U, a <= U -> b <= U -> wavg a b rttvar_weight <= U.
Proof. intros. rewrite wavg4. lia. Qed.

(* one step loses less than 7 ns against the smaller argument, and the deficit never accumulates
   beyond 49 ns: if a is at most 49 below L and b is not below L, the average is at most 49 below L *)
Lemma wavg8_step : forall a b, N.min a b <= wavg a b srtt_weight + 7.
Proof. intros. rewrite wavg8. lia. Qed.
Lemma wavg8_lower : forall a b L, L <= a + 49 -> L <= b -> L <= wavg a b srtt_weight + 49.
Proof. intros. rewrite wavg8. lia. Qed.

Lemma abs_diff_le : forall a b U, a <= U -> b <= U -> abs_diff a b <= U.
Proof. intros. unfold abs_diff. destruct (N.ltb_spec a b); lia. Qed.

(* ---- PTO period ---- *)
Lemma pto_base_ge : forall r sp, 1000 <= pto_base_us r sp.
Proof.
  intros. unfold pto_base_us. change gran_us with 1000. lia.
Qed.

Theorem pto_floor : forall r b sp, 1000000 <= pto_period r b sp.
Proof. intros. unfold pto_period. change gran_us with 1000. lia. Qed.

Theorem pto_exact : forall r b sp, 1 <= b -> pto_base_us r sp * b < two64 ->
  pto_period r b sp = pto_base_us r sp * b * 1000.
Proof.
  intros r b sp Hb Ho. unfold pto_period. rewrite N.mod_small by assumption.
  pose proof (pto_base_ge r sp). change gran_us with 1000. nia.
Qed.

Theorem pto_doubling : forall r b sp, 1 <= b -> pto_base_us r sp * (2 * b) < two64 ->
  pto_period r (2 * b) sp = 2 * pto_period r b sp.
Proof.
  intros r b sp Hb Ho. rewrite (pto_exact r (2 * b)) by (assumption || lia).
  rewrite (pto_exact r b) by (assumption || lia). lia.
Qed.

(* the RFC formula, in microseconds: smoothed + max(4 * rttvar, 1 ms) + max_ack_delay (app data only) *)
Theorem pto_base_formula : forall r sp,
  pto_base_us r sp = smoothed r / 1000 + N.max (4 * (rttvar r / 1000)) 1000
                     + (if sp =? 2 then mad r / 1000 else 0).
Proof. reflexivity. Qed.

Theorem pto_floor_and_doubling : forall r b sp,
  1000000 <= pto_period r b sp
  /\ pto_base_us r sp = smoothed r / 1000 + N.max (4 * (rttvar r / 1000)) 1000
                            + (if sp =? 2 then mad r / 1000 else 0)
  /\ (1 <= b -> pto_base_us r sp * (2 * b) < two64 ->
      pto_period r b sp = pto_base_us r sp * b * 1000
      /\ pto_period r (2 * b) sp = 2 * pto_period r b sp).
Proof.
  intros r b sp. split; [apply pto_floor|]. split; [apply pto_base_formula|].
  intros Hb Ho. split; [|apply pto_doubling; assumption].
  apply pto_exact; [assumption|]. nia.
Qed.

(* ---- bounds: every duration stays below 2^40 ns when the inputs do ---- *)
Definition B40 : N := 1099511627776.
Definition bnd (r : rtt) : Prop :=
  latest r < B40 /\ minr r < B40 /\ smoothed r < B40 /\ rttvar r < B40 /\ mad r <= 16384 * 1000000.

Definition wf_op (c a b bo : Z) : bool :=
  (if (c =? 1)%Z then (zN a <? B40) && (zN b <? B40) else true)
  && (if (c =? 2)%Z then zN a <=? 16384 else true)
  && (zN bo <? 1048576).

Fixpoint wf_ops (l : list Z) : bool :=
  match l with
  | c :: a :: b :: d :: e :: bo :: sp :: _ :: t => wf_op c a b bo && wf_ops t
  | _ => true
  end.

Definition wf (case : list Z) : bool :=
  match case with [] => true | i :: ops => (zN i <? B40) && wf_ops ops end.

Lemma bnd_new : forall i, i < B40 -> bnd (rtt_new 0 i).
Proof.
  intros i H. unfold bnd, rtt_new, B40 in *. cbn [latest minr smoothed rttvar mad].
  change min_rtt_ns with 1000. change rttvar_new_div with 2. lia.
Qed.

Lemma bnd_update : forall r ad s conf sp, bnd r -> s < B40 -> bnd (update_rtt r ad s conf sp).
Proof.
  intros r ad s conf sp (Hl & Hm & Hs & Hv & Hd) Hs'. unfold update_rtt.
  change min_rtt_ns with 1000. change rttvar_init_div with 2.
  set (l := N.max s 1000). assert (Hl' : l < B40) by (unfold B40 in *; lia).
  destruct (first r); cbn [negb].
  2:{ unfold bnd; cbn [latest minr smoothed rttvar mad]. unfold B40 in *. lia. }
  set (mn := N.min (minr r) l).
  set (ad1 := if sp =? 0 then 0 else ad).
  set (ad2 := if conf then N.min ad1 (mad r) else ad1).
  assert (Hmn : mn < B40) by (unfold mn; lia).
  destruct (N.ltb_spec (mn + ad2) l).
  - unfold bnd; cbn [latest minr smoothed rttvar mad].
    assert (l - ad2 <= B40 - 1) by lia.
    pose proof (wavg8_upper (smoothed r) (l - ad2) (B40 - 1)).
    pose proof (abs_diff_le (smoothed r) (l - ad2) (B40 - 1)).
    pose proof (wavg4_upper (rttvar r) (abs_diff (smoothed r) (l - ad2)) (B40 - 1)).
    unfold B40 in *. lia.
  - destruct conf; cbn [negb].
    + unfold bnd; cbn [latest minr smoothed rttvar mad].
      pose proof (wavg8_upper (smoothed r) l (B40 - 1)).
      pose proof (abs_diff_le (smoothed r) l (B40 - 1)).
      pose proof (wavg4_upper (rttvar r) (abs_diff (smoothed r) l) (B40 - 1)).
      unfold B40 in *. lia.
    + unfold bnd; cbn [latest minr smoothed rttvar mad]. lia.
Qed.

Lemma bnd_step : forall r c a b d e bo, bnd r -> wf_op c a b bo = true -> bnd (step r c a b d e).
Proof.
  intros r c a b d e bo Hb Hw. unfold step, wf_op in *.
  destruct (c =? 1)%Z.
  - apply bnd_update; [assumption|]. lia.
  - destruct (c =? 2)%Z.
    + destruct Hb as (Hl & Hm & Hs & Hv & Hd). unfold bnd, on_max_ack_delay; cbn [latest minr smoothed rttvar mad].
      repeat split; try assumption. lia.
    + destruct (c =? 3)%Z; [|assumption].
      destruct Hb as (Hl & Hm & Hs & Hv & Hd). unfold bnd, on_persistent_congestion; cbn [latest minr smoothed rttvar mad].
      repeat split; assumption.
Qed.

Lemma bnd_no_overflow : forall r sp b, bnd r -> b < 1048576 -> pto_base_us r sp * (2 * b) < two64.
Proof.
  intros r sp b (Hl & Hm & Hs & Hv & Hd) Hb. unfold pto_base_us, rttvar_4x_us, two64.
  change gran_us with 1000. change rttvar_mult with 4. unfold B40 in *.
  assert (smoothed r / 1000 <= 1099511627) by lia.
  assert (rttvar r / 1000 <= 1099511627) by lia.
  assert (mad r / 1000 <= 16384000) by lia.
  destruct (sp =? 2); nia.
Qed.

(* ---- the invariant tying the estimator to the samples seen so far ---- *)
Definition inv (r : rtt) (j : jst) (init : N) : Prop :=
  first r = negb (pend j) /\
  if seen j then
    latest r = lastv j /\ minr r = cmin j /\ gmin j <= cmin j /\ gmin j <= smoothed r + 49
    /\ smoothed r <= gmax j /\ gmin j <= lastv j /\ lastv j <= gmax j /\ 1000 <= gmin j
  else latest r = init /\ minr r = init /\ smoothed r = init /\ pend j = true.

Definition j0 : jst := {| seen := false; gmin := 0; gmax := 0; cmin := 0; pend := true; lastv := 0 |}.

Lemma inv_new : forall i, inv (rtt_new 0 i) j0 (N.max i 1000).
Proof. intros i. unfold inv, rtt_new, j0. cbn. change min_rtt_ns with 1000. auto. Qed.

Lemma inv_step : forall r j init c a b d e, inv r j init -> inv (step r c a b d e) (jstep j c b) init.
Proof.
  intros r j init c a b d e [Hf H]. unfold step, jstep.
  destruct (c =? 1)%Z.
  - unfold update_rtt. change min_rtt_ns with 1000. set (l := N.max (zN b) 1000).
    assert (Hl : 1000 <= l) by (unfold l; lia).
    destruct (first r) eqn:Ef; cbn [negb].
    + (* a later sample: the estimator has started, so a sample has been seen and none is pending *)
      assert (Hp : pend j = false) by (destruct (pend j); [discriminate|reflexivity]).
      destruct (seen j) eqn:Es.
      2:{ destruct H as (_ & _ & _ & Hp'). congruence. }
      destruct H as (H1 & H2 & H3 & H4 & H5 & H6 & H7 & H8).
      set (mn := N.min (minr r) l).
      set (ad1 := if zN e =? 0 then 0 else zN a).
      set (ad2 := if negb (d =? 0)%Z then N.min ad1 (mad r) else ad1).
      assert (Hmn : mn = N.min (cmin j) l) by (unfold mn; rewrite H2; reflexivity).
      destruct (N.ltb_spec (mn + ad2) l).
      * unfold inv; cbn [first pend seen latest minr smoothed gmin gmax cmin lastv]. rewrite Hp.
        split; [reflexivity|].
        pose proof (wavg8_lower (smoothed r) (l - ad2) (N.min (gmin j) l)).
        pose proof (wavg8_upper (smoothed r) (l - ad2) (N.max (gmax j) l)).
        repeat split; lia.
      * destruct (negb (d =? 0)%Z) eqn:Ec; cbn [negb].
        -- unfold inv; cbn [first pend seen latest minr smoothed gmin gmax cmin lastv]. rewrite Hp.
           split; [reflexivity|].
           pose proof (wavg8_lower (smoothed r) l (N.min (gmin j) l)).
           pose proof (wavg8_upper (smoothed r) l (N.max (gmax j) l)).
           repeat split; lia.
        -- unfold inv; cbn [first pend seen latest minr smoothed gmin gmax cmin lastv]. rewrite Hp.
           split; [reflexivity|]. repeat split; lia.
    + (* first sample, or first after persistent congestion *)
      assert (Hp : pend j = true) by (destruct (pend j); [reflexivity|discriminate]).
      unfold inv; cbn [first pend seen latest minr smoothed gmin gmax cmin lastv]. rewrite Hp.
      split; [reflexivity|].
      destruct (seen j) eqn:Es.
      * destruct H as (H1 & H2 & H3 & H4 & H5 & H6 & H7 & H8). repeat split; lia.
      * repeat split; lia.
  - destruct (Z.eqb_spec c 2) as [->|N2].
    + change (2 =? 3)%Z with false. cbn match.
      unfold inv, on_max_ack_delay in *; cbn [first latest minr smoothed]. split; assumption.
    + destruct (c =? 3)%Z.
      * unfold inv, on_persistent_congestion in *; cbn [first pend seen latest minr smoothed gmin gmax cmin lastv].
        split; [reflexivity|]. destruct (seen j); [assumption|]. tauto.
      * split; assumption.
Qed.

Lemma zN_Nz : forall x, zN (Nz x) = x.
Proof. intros. unfold zN, Nz. apply N2Z.id. Qed.
Lemma Nz_nonneg : forall x, (0 <=? Nz x)%Z = true.
Proof. intros. unfold Nz. lia. Qed.

Lemma jcheck_obs : forall r j init bo sp, inv r j init -> bnd r -> zN bo < 1048576 ->
  jcheck j init bo (obs r bo sp) = true.
Proof.
  intros r j init bo sp [Hf H] Hb Hbo. unfold jcheck, obs.
  rewrite !Nz_nonneg, !zN_Nz. unfold slack.
  pose proof (pto_floor r (zN bo) (zN sp)) as Hfl.
  assert (Hp1 : (1000000 <=? Nz (pto_period r (zN bo) (zN sp)))%Z = true) by (unfold Nz; lia).
  rewrite Hp1.
  assert (Hp2 : (if (1 <=? bo)%Z then (Nz (pto_period r (2 * zN bo) (zN sp)) =? 2 * Nz (pto_period r (zN bo) (zN sp)))%Z else true) = true).
  { destruct (Z.leb_spec 1 bo); [|reflexivity].
    rewrite pto_doubling; [unfold Nz; lia | unfold zN; lia | apply bnd_no_overflow; assumption]. }
  rewrite Hp2.
  destruct (seen j).
  - destruct H as (H1 & H2 & H3 & H4 & H5 & H6 & H7 & H8).
    rewrite H1, H2, !N.eqb_refl. cbn [andb orb].
    assert (E1 : (gmin j <=? smoothed r + 49) = true) by lia.
    assert (E2 : (smoothed r <=? gmax j) = true) by lia.
    rewrite E1, E2. reflexivity.
  - destruct H as (H1 & H2 & H3 & _). rewrite H1, H2, H3, !N.eqb_refl. reflexivity.
Qed.

(* induction over op lists in chunks of 8 *)
Lemma list_ind8 (P : list Z -> Prop) :
  (forall l, (length l < 8)%nat -> P l) ->
  (forall c a b d e bo sp x t, P t -> P (c :: a :: b :: d :: e :: bo :: sp :: x :: t)) ->
  forall l, P l.
Proof.
  intros Hs Hc l. remember (length l) as n eqn:En. revert l En.
  induction n as [n IH] using lt_wf_ind. intros l En.
  destruct l as [|c [|a [|b [|d [|e [|bo [|sp [|x t]]]]]]]]; try (apply Hs; cbn; lia).
  apply Hc. apply (IH (length t)); [subst n; cbn [length]; lia | reflexivity].
Qed.

Lemma short_run : forall r l, (length l < 8)%nat -> run_ops r l = [].
Proof.
  intros r l H. destruct l as [|c [|a [|b [|d [|e [|bo [|sp [|x t]]]]]]]]; try reflexivity.
  cbn [length] in H. lia.
Qed.
Lemma short_judge : forall j init l, (length l < 8)%nat -> judge_ops j init l [] = true.
Proof.
  intros j init l H. destruct l as [|c [|a [|b [|d [|e [|bo [|sp [|x t]]]]]]]]; try reflexivity.
  cbn [length] in H. lia.
Qed.
Lemma short_wf : forall l, (length l < 8)%nat -> wf_ops l = true.
Proof.
  intros l H. destruct l as [|c [|a [|b [|d [|e [|bo [|sp [|x t]]]]]]]]; try reflexivity.
  cbn [length] in H. lia.
Qed.

Lemma judge_run_ops : forall l r j init, inv r j init -> bnd r -> wf_ops l = true ->
  judge_ops j init l (run_ops r l) = true.
Proof.
  induction l as [l Hl | c a b d e bo sp x t IH] using list_ind8; intros r j init Hi Hb Hw.
  - rewrite short_run by assumption. apply short_judge; assumption.
  - cbn [wf_ops] in Hw. apply andb_prop in Hw as [Hw1 Hw2].
    cbn [run_ops judge_ops].
    assert (Hb' : bnd (step r c a b d e)) by (eapply bnd_step; eassumption).
    assert (Hi' : inv (step r c a b d e) (jstep j c b) init) by (apply inv_step; assumption).
    assert (Hbo : zN bo < 1048576) by (unfold wf_op in Hw1; lia).
    change (firstn 9 (obs (step r c a b d e) bo sp ++ run_ops (step r c a b d e) t))
      with (obs (step r c a b d e) bo sp).
    change (skipn 9 (obs (step r c a b d e) bo sp ++ run_ops (step r c a b d e) t))
      with (run_ops (step r c a b d e) t).
    rewrite jcheck_obs by assumption. cbn [andb]. apply IH; assumption.
Qed.

Theorem judge_run : forall case, wf case = true -> judge case (run case) = true.
Proof.
  intros [|i ops] Hw; [reflexivity|]. cbn [wf] in Hw. apply andb_prop in Hw as [Hi Hw].
  cbn [judge run]. apply judge_run_ops; [apply inv_new | apply bnd_new; lia | assumption].
Qed.

(* ---- the Prop-level statement over all sample histories ---- *)
(* one sample = (ack_delay, rtt_sample, handshake confirmed?, space); persistent congestion and
   max_ack_delay updates may be interleaved arbitrarily (any [step] sequence) *)
Inductive ev := Sample (ack_delay sample : N) (confirmed : bool) (space : N) | MaxAckDelay (ms : N) | PersistentCongestion.

Definition apply_ev (r : rtt) (e : ev) : rtt :=
  match e with
  | Sample a s c sp => update_rtt r a s c sp
  | MaxAckDelay ms => on_max_ack_delay r ms
  | PersistentCongestion => on_persistent_congestion r
  end.

Definition ev_code (e : ev) : Z * Z * Z * Z * Z :=
  match e with
  | Sample a s c sp => (1, Nz a, Nz s, bz c, Nz sp)
  | MaxAckDelay ms => (2, Nz ms, 0, 0, 0)
  | PersistentCongestion => (3, 0, 0, 0, 0)
  end%Z.

Lemma apply_ev_step : forall r e, apply_ev r e =
  let '(c, a, b, d, sp) := ev_code e in step r c a b d sp.
Proof.
  intros r [a s c sp|ms|]; cbn [ev_code apply_ev]; unfold step.
  - change (1 =? 1)%Z with true. cbn match. rewrite !zN_Nz. destruct c; reflexivity.
  - change (2 =? 1)%Z with false. change (2 =? 2)%Z with true. cbn match. rewrite zN_Nz. reflexivity.
  - change (3 =? 1)%Z with false. change (3 =? 2)%Z with false. change (3 =? 3)%Z with true. reflexivity.
Qed.

Definition japply (j : jst) (e : ev) : jst := let '(c, a, b, d, sp) := ev_code e in jstep j c b.

Lemma inv_apply : forall r j init e, inv r j init -> inv (apply_ev r e) (japply j e) init.
Proof.
  intros r j init e H. rewrite apply_ev_step. unfold japply. destruct (ev_code e) as [[[[c a] b] d] sp].
  apply inv_step. assumption.
Qed.

Lemma inv_fold : forall h r j init, inv r j init ->
  inv (fold_left apply_ev h r) (fold_left japply h j) init.
Proof.
  induction h as [|e h IH]; intros r j init H; [assumption|]. cbn [fold_left]. apply IH. apply inv_apply. assumption.
Qed.

(* what the history says: all clamped samples (oldest first), the samples since the estimator last
   restarted (PersistentCongestion makes the next sample start afresh), and whether a restart is pending *)
Definition hst := (list N * list N * bool)%type.
Definition hstep (hs : hst) (e : ev) : hst :=
  let '(all, cur, restart) := hs in
  match e with
  | Sample _ s _ _ => (all ++ [N.max s 1000], (if restart then [] else cur) ++ [N.max s 1000], false)
  | PersistentCongestion => (all, cur, true)
  | MaxAckDelay _ => hs
  end.

Definition is_min (m : N) (l : list N) : Prop := In m l /\ forall x, In x l -> m <= x.
Definition is_max (m : N) (l : list N) : Prop := In m l /\ forall x, In x l -> x <= m.

Lemma is_min_snoc : forall m l s, is_min m l -> is_min (N.min m s) (l ++ [s]).
Proof.
  intros m l s [Hi Hm]. split.
  - apply in_app_iff. destruct (N.min_spec m s) as [[_ ->]|[_ ->]]; [left; assumption|right; left; reflexivity].
  - intros x Hx. apply in_app_iff in Hx as [Hx|[<-|[]]]; [specialize (Hm x Hx)|]; lia.
Qed.
Lemma is_max_snoc : forall m l s, is_max m l -> is_max (N.max m s) (l ++ [s]).
Proof.
  intros m l s [Hi Hm]. split.
  - apply in_app_iff. destruct (N.max_spec m s) as [[_ ->]|[_ ->]]; [right; left; reflexivity|left; assumption].
  - intros x Hx. apply in_app_iff in Hx as [Hx|[<-|[]]]; [specialize (Hm x Hx)|]; lia.
Qed.
Lemma is_min_single : forall s, is_min s [s].
Proof. intros s. split; [left; reflexivity|]. intros x [<-|[]]. lia. Qed.
Lemma is_max_single : forall s, is_max s [s].
Proof. intros s. split; [left; reflexivity|]. intros x [<-|[]]. lia. Qed.

(* the judge-side summary is min / max / last of those lists *)
Definition jrel (j : jst) (hs : hst) : Prop :=
  let '(all, cur, restart) := hs in
  pend j = restart /\
  if seen j then is_min (gmin j) all /\ is_max (gmax j) all /\ last all 0 = lastv j /\ is_min (cmin j) cur
  else all = [] /\ pend j = true.

Lemma jrel_step : forall j hs e, jrel j hs -> jrel (japply j e) (hstep hs e).
Proof.
  intros j [[all cur] restart] e [Hp H]. destruct e as [a s c sp|ms|]; unfold japply; cbn [ev_code hstep]; unfold jstep.
  - change (1 =? 1)%Z with true. cbn match. rewrite zN_Nz. unfold jrel. cbn [pend seen gmin gmax cmin lastv].
    split; [reflexivity|]. rewrite Hp. destruct (seen j).
    + destruct H as (H1 & H2 & H3 & H4). split; [|split; [|split]].
      * apply is_min_snoc; assumption.
      * apply is_max_snoc; assumption.
      * apply last_last.
      * destruct restart; [apply is_min_single | apply is_min_snoc; assumption].
    + destruct H as (-> & Hp'). rewrite Hp' in Hp. subst restart. cbn [app].
      split; [|split; [|split]]; try apply is_min_single; try apply is_max_single. reflexivity.
  - change (2 =? 1)%Z with false. change (2 =? 2)%Z with true. cbn match. split; assumption.
  - change (3 =? 1)%Z with false. change (3 =? 2)%Z with false. change (3 =? 3)%Z with true. cbn match.
    unfold jrel. cbn [pend seen gmin gmax cmin lastv]. split; [reflexivity|]. destruct (seen j); [assumption|].
    destruct H as (-> & _). auto.
Qed.

Lemma jrel_fold : forall h j hs, jrel j hs -> jrel (fold_left japply h j) (fold_left hstep h hs).
Proof. induction h as [|e h IH]; intros; [assumption|]. cbn [fold_left]. apply IH. apply jrel_step. assumption. Qed.

(* RTT estimates stay within the range of the samples observed (DESIGN 5.9 rtt_bounds), for every
   history of samples / max_ack_delay updates / persistent-congestion resets:
   latest = the last sample; min_rtt = the minimum of the samples since the last restart;
   smoothed within [min sample - 49 ns, max sample] -- the 49 ns (< 56 ns) is the accumulated
   divide-first truncation of weighted_average.  Samples are clamped to MIN_RTT = 1 us.
   Before any sample all three equal the (clamped) initial RTT. *)
Theorem rtt_bounds : forall init h,
  let r := fold_left apply_ev h (rtt_new 0 init) in
  let '(all, cur, _) := fold_left hstep h ([], [], true) in
  match all with
  | [] => latest r = N.max init 1000 /\ minr r = N.max init 1000 /\ smoothed r = N.max init 1000
  | _ => latest r = last all 0 /\ is_min (minr r) cur
         /\ exists lo hi, is_min lo all /\ is_max hi all /\ lo <= smoothed r + 49 /\ smoothed r <= hi
  end.
Proof.
  intros init h r.
  pose proof (inv_fold h _ _ _ (inv_new init)) as [Hf Hi]. fold r in Hf, Hi.
  assert (J0 : jrel j0 ([], [], true)) by (unfold jrel, j0; cbn; auto).
  pose proof (jrel_fold h _ _ J0) as Hj.
  destruct (fold_left hstep h ([], [], true)) as [[all cur] restart].
  destruct Hj as [Hp Hj]. destruct (seen (fold_left japply h j0)).
  - destruct Hj as (H1 & H2 & H3 & H4). destruct Hi as (I1 & I2 & I3 & I4 & I5 & I6 & I7 & I8).
    destruct all as [|x t]; [destruct H1 as [[] _]|].
    split; [congruence|]. split; [rewrite I2; assumption|].
    exists (gmin (fold_left japply h j0)), (gmax (fold_left japply h j0)). auto.
  - destruct Hj as (-> & _). destruct Hi as (I1 & I2 & I3 & _). auto.
Qed.

Definition samples_all (h : list ev) : list N := fst (fst (fold_left hstep h ([], [], true))).

(* the literal reading (no slack) is false: three samples of 1007 ns leave smoothed_rtt at 1000 ns *)
Theorem rtt_literal_refuted : exists h,
  let r := fold_left apply_ev h (rtt_new 0 1007) in
  samples_all h = [1007; 1007; 1007] /\ smoothed r = 1000.
Proof.
  exists [Sample 0 1007 true 2; Sample 0 1007 true 2; Sample 0 1007 true 2]. vm_compute. auto.
Qed.
