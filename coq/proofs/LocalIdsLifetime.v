(* model/LocalIds.v under one constant lifetime: every id below retire_prior_to is retired, hence every
   NEW_CONNECTION_ID frame has retire_prior_to <= sequence_number. *)
From SQ Require Import lib.Base lib.ListX gen.Gen_C13 model.LocalIds proofs.LocalIdsProofs.
From Coq Require Import Sorting.Sorted.
Local Open Scope N_scope.

Definition rk (i : info) : N := match iret i with Some t => t | None => 0 end.

(* all ids of a registry carry the lifetime L (registered no later than `nw`) *)
Definition life_ok (L : option N) (nw : N) (i : info) : Prop :=
  match L with
  | None => iret i = None
  | Some l => exists t, iret i = Some t /\ t + exp_buf <= nw + l
  end.

Record LInv (L : option N) (nw : N) (r : reg) : Prop := {
  li_life : Forall (life_ok L nw) (infos r);
  li_sorted : StronglySorted (fun a b => rk a <= rk b) (infos r);
  li_below : Forall (fun i => iseq i < rpt r -> is_retired i = true) (infos r) }.

(* status-only updates keep retirement times and sequence numbers and never un-retire *)
Definition keep (i i' : info) : Prop :=
  iret i' = iret i /\ iseq i' = iseq i /\ (is_retired i = true -> is_retired i' = true).

Lemma keep_refl i : keep i i.
Proof. repeat split; auto. Qed.

Lemma keep_set_st i s : (is_retired i = true -> match s with PRetConf _ | PRemoval _ => True | _ => False end) -> keep i (set_st i s).
Proof. intros H. repeat split; auto. intros Hr. specialize (H Hr). unfold is_retired, set_st; cbn [ist]. destruct s; auto; contradiction. Qed.

Lemma Forall2_keep_refl l : Forall2 keep l l.
Proof. induction l; constructor; auto using keep_refl. Qed.

Lemma keep_sorted l l' : Forall2 keep l l' -> StronglySorted (fun a b => rk a <= rk b) l -> StronglySorted (fun a b => rk a <= rk b) l'.
Proof.
  induction 1 as [|i i' l l' H HF IH]; intros S; [constructor|]. inversion S; subst. constructor; auto.
  assert (E : rk i' = rk i) by (unfold rk; destruct H as (-> & _); reflexivity). rewrite E.
  clear -HF H3. induction HF as [|j j' l l' Hj _ IH]; constructor; inversion H3; subst; auto.
  assert (E : rk j' = rk j) by (unfold rk; destruct Hj as (-> & _); reflexivity). now rewrite E.
Qed.

Lemma keep_inv L nw r l' p : LInv L nw r -> Forall2 keep (infos r) l' ->
  Forall (fun i => iseq i < p -> is_retired i = true) l' ->
  LInv L nw (mkR l' (nseq r) p (lim r) (rot r)).
Proof.
  intros [A B C] H D. constructor; cbn [infos rpt]; auto.
  - clear -A H. induction H as [|i i' l l' Hk _ IH]; constructor; inversion A; subst; auto.
    unfold life_ok in *. destruct Hk as (E & _). rewrite E. auto.
  - eapply keep_sorted; eauto.
Qed.

Lemma keep_below p l l' : Forall2 keep l l' -> Forall (fun i => iseq i < p -> is_retired i = true) l ->
  Forall (fun i => iseq i < p -> is_retired i = true) l'.
Proof.
  induction 1 as [|i i' l l' (E1 & E2 & E3) _ IH]; intros F; constructor; inversion F; subst; auto.
  rewrite E2. auto.
Qed.

Lemma map_keep (f : info -> info) l : (forall i, keep i (f i)) -> Forall2 keep l (map f l).
Proof. intros H. induction l; cbn [map]; constructor; auto. Qed.

Lemma transmit_in_keep l p constraint cap pn : Forall2 keep l (fst (transmit_in l p constraint cap pn)).
Proof.
  revert cap. induction l as [|i t IH]; intros cap; cbn [transmit_in]; [constructor|].
  destruct (can_tx (tx_int i) constraint) eqn:Ec.
  - destruct (0 <? cap).
    + specialize (IH (cap - 1)). destruct (transmit_in t p constraint (cap - 1) pn). cbn [fst] in *. constructor; auto.
      apply keep_set_st. rewrite (can_tx_not_retired _ _ Ec). discriminate.
    + specialize (IH cap). destruct (transmit_in t p constraint cap pn). cbn [fst] in *. constructor; auto using keep_refl.
  - specialize (IH cap). destruct (transmit_in t p constraint cap pn). cbn [fst] in *. constructor; auto using keep_refl.
Qed.

Lemma retire_in_keep l sq dcid removal : Forall2 keep l (snd (retire_in l sq dcid removal)).
Proof.
  induction l as [|i t IH]; cbn [retire_in]; [constructor|].
  destruct ((match ist i with PRemoval _ => false | _ => true end) && (iseq i =? sq)).
  - destruct (iid i =? dcid); cbn [snd]; constructor; auto using keep_refl, Forall2_keep_refl. apply keep_set_st; auto.
  - destruct (retire_in t sq dcid removal). cbn [snd] in *. constructor; auto using keep_refl.
Qed.

Lemma retire_hs_keep l l' : retire_hs l = Some l' -> Forall2 keep l l'.
Proof.
  revert l'. induction l as [|i t IH]; intros l'; cbn [retire_hs]; [discriminate|].
  destruct ((iseq i =? 0) && negb (is_retired i)).
  - intros [= <-]. constructor; auto using Forall2_keep_refl. apply keep_set_st; auto.
  - destruct (retire_hs t); cbn [option_map]; [|discriminate]. intros [= <-]. constructor; auto using keep_refl.
Qed.

Lemma retire_hs_zero l l' : retire_hs l = Some l' -> StronglySorted N.lt (map iseq l) ->
  Forall (fun i => iseq i < 1 -> is_retired i = true) l'.
Proof.
  revert l'. induction l as [|i t IH]; intros l'; cbn [retire_hs]; [discriminate|].
  intros H S. cbn [map] in S. inversion S; subst.
  destruct ((iseq i =? 0) && negb (is_retired i)) eqn:E.
  - injection H as <-. apply andb_prop in E. destruct E as [E _]. apply N.eqb_eq in E. constructor.
    + intros _. reflexivity.
    + rewrite E in H3. clear -H3. induction t as [|j t IH]; constructor; cbn [map] in H3; inversion H3; subst; auto. lia.
  - destruct (retire_hs t) as [t'|]; cbn [option_map] in H; [|discriminate]. injection H as <-. constructor; auto.
    intros Hz. destruct (N.eqb_spec (iseq i) 0) as [_|]; [|lia]. cbn [andb] in E. destruct (is_retired i); auto; discriminate.
Qed.

Lemma sorted_both l : StronglySorted N.lt (map iseq l) -> StronglySorted (fun a b => rk a <= rk b) l ->
  forall i j, In i l -> In j l -> iseq i <= iseq j -> rk i <= rk j.
Proof.
  induction l as [|h t IH]; intros S1 S2 i j Hi Hj Hs; [destruct Hi|].
  cbn [map] in S1. inversion S1; subst. inversion S2; subst. rewrite Forall_forall in *.
  destruct Hi as [->|Hi], Hj as [->|Hj]; auto; try lia.
  exfalso. specialize (H2 (iseq i) (in_map iseq _ _ Hi)). lia.
Qed.

Lemma ready_max_cases ts l : forall p x, x < fold_left (ready_max ts) l p ->
  x < p \/ exists j, In j l /\ is_retire_ready j ts = true /\ x <= iseq j.
Proof.
  induction l as [|h t IH]; intros p x H; cbn [fold_left] in H; [auto|].
  destruct (IH _ _ H) as [Hp|(j & Hj & Hr & Hx)]; [|right; exists j; split; [now right|auto]].
  unfold ready_max in Hp. destruct (is_retire_ready h ts) eqn:E; auto.
  destruct (N.lt_ge_cases x p); auto. right. exists h. split; [now left|]. split; auto. lia.
Qed.

Lemma on_timeout_linv L nw r m ts : RInv r -> LInv L nw r -> nw <= ts -> LInv L ts (fst (on_timeout r m ts)).
Proof.
  intros HR HL Hts.
  assert (Hmono : LInv L ts r).
  { destruct HL as [A B C]. constructor; auto. eapply Forall_impl; [|exact A]. intros i. unfold life_ok. destruct L; auto.
    intros (t & E & Hb). exists t. split; auto. lia. }
  clear HL. unfold on_timeout. destruct (match timer r with Some t => has_elapsed t ts | None => false end); [|exact Hmono].
  rewrite retire_fold. cbn [app fst].
  set (p := fold_left (ready_max ts) (infos r) (rpt r)). set (l := map (ready_map ts) (infos r)).
  assert (K : Forall2 keep (infos r) l).
  { apply map_keep. intros i. unfold ready_map. destruct (is_retire_ready i ts) eqn:E; [|apply keep_refl].
    apply keep_set_st. intros Hr. unfold is_retire_ready in E. rewrite Hr in E. discriminate. }
  assert (D : Forall (fun i => iseq i < p -> is_retired i = true) l).
  { destruct Hmono as [A B C]. unfold l. rewrite Forall_forall. intros i' Hi'. apply in_map_iff in Hi'. destruct Hi' as (i & <- & Hi).
    unfold ready_map. destruct (is_retire_ready i ts) eqn:Er; [reflexivity|]. cbn. intros Hp.
    destruct (is_retired i) eqn:Eret; auto. exfalso.
    destruct (ready_max_cases ts (infos r) (rpt r) (iseq i) Hp) as [Hlt|(j & Hj & Hrj & Hle)].
    - rewrite Forall_forall in C. rewrite (C i Hi Hlt) in Eret. discriminate.
    - pose proof (sorted_both (infos r) (inv_sorted _ HR) B i j Hi Hj Hle) as Hrk.
      rewrite Forall_forall in A. pose proof (A i Hi) as Ai. pose proof (A j Hj) as Aj.
      unfold is_retire_ready in Er, Hrj. rewrite Eret in Er. cbn [negb andb] in Er.
      apply andb_prop in Hrj. destruct Hrj as [_ Hrj]. unfold life_ok in *. destruct L as [lf|].
      + destruct Ai as (ti & Ei & _). destruct Aj as (tj & Ej & _). unfold rk in Hrk. rewrite Ei, Ej in *.
        unfold has_elapsed in *. apply N.ltb_lt in Hrj. apply N.ltb_ge in Er. lia.
      + rewrite Aj in Hrj. discriminate. }
  pose proof (keep_inv L ts r l p Hmono K D) as H1.
  destruct H1 as [A B C]. constructor; cbn [infos rpt] in *.
  - clear -A. induction A; cbn [filter]; [constructor|]. destruct (negb _); auto.
  - clear -B. induction l as [|x t IH]; cbn [filter]; [constructor|]. inversion B; subst. destruct (negb _); auto.
    constructor; auto. clear -H2. induction H2; cbn [filter]; [constructor|]. destruct (negb _); auto.
  - clear -C. induction C; cbn [filter]; [constructor|]. destruct (negb _); auto.
Qed.

Lemma min_life_ge_buf : exp_buf <= min_life.
Proof. vm_compute. discriminate. Qed.

Lemma life_cases v : life v = None \/ exists l, life v = Some l /\ exp_buf <= l.
Proof.
  unfold life. destruct (v <=? 0)%Z; [auto|]. right. eexists. split; [reflexivity|].
  pose proof min_life_ge_buf. assert (min_life <= max_life) by (vm_compute; discriminate). lia.
Qed.

Lemma register_linv L nw r m c id a tok : RInv r -> LInv L nw r -> life a = L ->
  LInv L nw (snd (fst (register r m c id (expiry a nw) tok))).
Proof.
  intros HR HL Ha. unfold register. destruct (existsb _ _); [exact HL|]. destruct (map_get m id); [exact HL|]. cbn [fst snd].
  destruct HL as [A B C]. unfold expiry. rewrite Ha.
  constructor; cbn [infos rpt].
  - apply Forall_app. split; auto. repeat constructor. unfold life_ok. destruct L as [l|]; cbn [option_map iret]; auto.
    exists (nw + l - exp_buf). split; auto. destruct (life_cases a) as [E|(l' & E & Hl)]; rewrite Ha in E; [discriminate|].
    injection E as <-. lia.
  - clear C Ha. induction (infos r) as [|h t IH]; cbn [app]; [repeat constructor|]. inversion A; subst. inversion B; subst.
    constructor; auto. apply Forall_app. split; auto. repeat constructor.
    unfold rk at 2. cbn [iret]. unfold life_ok in H1. destruct L as [l|]; cbn [option_map].
    + destruct H1 as (t0 & E & Hb). unfold rk. rewrite E. lia.
    + unfold rk. rewrite H1. lia.
  - apply Forall_app. split; auto. repeat constructor. cbn [iseq]. intros Hlt. pose proof (inv_rpt _ HR). lia.
Qed.

(* ---------------------------------------------------------------------------------------------- *)
(* every reachable state, when every registration uses the lifetime L *)

Definition op_life (L : option N) (o : an_op) : Prop :=
  let '(code0, c0, a, b, d) := o in zmod code0 10 = 2 -> life a = L.

Definition GL (L : option N) (s : st) : Prop :=
  Forall (fun k => match creg k with Some r => LInv L (now s) r | None => True end) (conns s).

Lemma LInv_now L nw nw' r : nw <= nw' -> LInv L nw r -> LInv L nw' r.
Proof.
  intros H [A B C]. constructor; auto. eapply Forall_impl; [|exact A]. intros i. unfold life_ok. destruct L; auto.
  intros (t & E & Hb). exists t. split; auto. lia.
Qed.

Lemma register_n_linv L n : forall first s c k r a b, life a = L ->
  RInv r -> active_count r + N.of_nat n <= lim r -> LInv L (now s) r ->
  let '(s', k', r', o) := register_n n first s c k r a b in
  LInv L (now s) r' /\ now s' = now s /\ conns s' = conns s.
Proof.
  induction n as [|n IH]; intros first s c k r a b Ha HR Hc HL; cbn [register_n]; [auto|].
  set (id := match (if first && (0 <? b)%Z then _ else None) with Some x => x | None => ID_BASE + nids s end).
  pose proof (register_inv r (idm s) c id (expiry a (now s)) (TOK_BASE + nids s) HR ltac:(lia)) as H1.
  pose proof (register_count r (idm s) c id (expiry a (now s)) (TOK_BASE + nids s)) as [H2 H3].
  pose proof (register_linv L (now s) r (idm s) c id a (TOK_BASE + nids s) HR HL Ha) as H4.
  destruct (register r (idm s) c id (expiry a (now s)) (TOK_BASE + nids s)) as [[code r'] m']. cbn [fst snd] in *.
  match goal with |- context [register_n n false ?s1 c ?k1 r' a b] =>
    specialize (IH false s1 c k1 r' a b Ha H1 ltac:(lia) H4); destruct (register_n n false s1 c k1 r' a b) as [[[s'' k''] r''] o] end.
  cbn [now conns] in IH. exact IH.
Qed.

Lemma keep_inv2 L nw r r' : LInv L nw r -> Forall2 keep (infos r) (infos r') ->
  Forall (fun i => iseq i < rpt r' -> is_retired i = true) (infos r') -> LInv L nw r'.
Proof.
  intros H K D. pose proof (keep_inv L nw r (infos r') (rpt r') H K D) as [A B C]. constructor; auto.
Qed.

Lemma keep_same_rpt L nw r r' : LInv L nw r -> Forall2 keep (infos r) (infos r') -> rpt r' = rpt r -> LInv L nw r'.
Proof.
  intros H K E. apply (keep_inv2 L nw r r' H K). rewrite E. eapply keep_below; eauto. apply (li_below _ _ _ H).
Qed.

Lemma step_gl L s o : GInv s -> GL L s -> op_life L o -> GL L (fst (step s o)).
Proof.
  intros G HG Ho. destruct o as [[[[code0 c0] a] b] d]. unfold op_life in Ho. unfold step.
  set (c := N.to_nat (zmod c0 (Z.of_nat (length (conns s))))).
  set (k := nth c (conns s) dummy_conn).
  assert (Hk : CInv k) by (apply Forall_nth_d; auto; exact CInv_dummy).
  assert (Hl : match creg k with Some r => LInv L (now s) r | None => True end).
  { exact (Forall_nth_d (fun k => match creg k with Some r => LInv L (now s) r | None => True end) dummy_conn (conns s) c HG I). }
  unfold CInv in Hk.
  destruct (creg k) as [r|] eqn:Er; [|exact HG]. destruct Hk as [HR _].
  assert (upd1 : forall k' r', creg k' = Some r' -> LInv L (now s) r' -> GL L (set_conn s c k')).
  { intros k' r' Hk' H'. unfold GL, set_conn. cbn [conns now]. apply Forall_set_nth; auto. now rewrite Hk'. }
  assert (Hc : zmod code0 10 < 10).
  { unfold zmod, zN. pose proof (Z.mod_pos_bound code0 10 ltac:(lia)). lia. }
  remember (zmod code0 10) as code eqn:Ecode.
  assert (Hcases : code = 0 \/ code = 1 \/ code = 2 \/ code = 3 \/ code = 4 \/ code = 5 \/ code = 6 \/ code = 7 \/ code = 8 \/ code = 9) by lia.
  destruct Hcases as [->|[->|[->|[->|[->|[->|[->|[->|[->| ->]]]]]]]]]; cbn [fst].
  - exact HG.
  - destruct (lset k); [exact HG|]. cbn [fst].
    eapply upd1; [reflexivity|]. apply (keep_same_rpt L (now s) r); auto. apply Forall2_keep_refl.
  - (* register *)
    set (n := N.min (N.min (interest r) (N.max (zmod d 4) 1)) (MAX_IDS - nids s)).
    pose proof (register_n_linv L (N.to_nat n) true s c k r a b (Ho eq_refl) HR) as H.
    assert (Hn : active_count r + N.of_nat (N.to_nat n) <= lim r).
    { pose proof (inv_count _ HR). unfold n, interest. lia. }
    specialize (H Hn Hl). destruct (register_n (N.to_nat n) true s c k r a b) as [[[s1 k1] r1] o1].
    destruct H as (I1 & I2 & I3). cbn [fst]. unfold GL, set_conn. cbn [conns now]. rewrite I2, I3.
    apply Forall_set_nth; [exact HG|]. cbn [with_reg creg]. exact I1.
  - (* retire *)
    match goal with |- context [on_retire r ?sq ?dc ?rtt ?nw] =>
      pose proof (retire_in_keep (infos r) sq dc (nw + rtt * rtt_multiplier)) as K;
      assert (HL' : LInv L (now s) (snd (on_retire r sq dc rtt nw)));
      [unfold on_retire; destruct (nseq r <=? sq); [exact Hl|];
       destruct (retire_in (infos r) sq dc (nw + rtt * rtt_multiplier)); cbn [snd] in *;
       apply (keep_same_rpt L (now s) r); auto|];
      destruct (on_retire r sq dc rtt nw) as [rc r'] end.
    cbn [snd] in HL'. destruct (rc =? 0); cbn [fst].
    + eapply upd1; [reflexivity|exact HL'].
    + unfold GL, close_conn. cbn [conns now]. apply Forall_set_nth; auto. exact I.
  - (* transmit *)
    pose proof (transmit_in_keep (infos r) (rpt r) (zmod a 4) (zmod b 5) (cpn k)) as K.
    assert (HL' : LInv L (now s) (fst (on_transmit r (zmod a 4) (zmod b 5) (cpn k)))).
    { unfold on_transmit. destruct (can_tx _ _); [|exact Hl].
      destruct (transmit_in (infos r) (rpt r) (zmod a 4) (zmod b 5) (cpn k)). cbn [fst] in *. apply (keep_same_rpt L (now s) r); auto. }
    destruct (on_transmit r (zmod a 4) (zmod b 5) (cpn k)) as [r' fs]. cbn [fst] in *.
    eapply upd1; [reflexivity|exact HL'].
  - (* ack *)
    eapply upd1; [reflexivity|]. apply (keep_same_rpt L (now s) r); auto. unfold on_ack. cbn [infos]. apply map_keep.
    intros i. destruct (ist i) eqn:E; try apply keep_refl. destruct (in_range _ _ pn); [|apply keep_refl].
    repeat split; auto. unfold is_retired. rewrite E. discriminate.
  - (* loss *)
    eapply upd1; [reflexivity|]. apply (keep_same_rpt L (now s) r); auto. unfold on_loss. cbn [infos]. apply map_keep.
    intros i. destruct (ist i) eqn:E; try apply keep_refl. destruct (in_range _ _ pn); [|apply keep_refl].
    apply keep_set_st. unfold is_retired. rewrite E. discriminate.
  - (* timeout *)
    set (ts := now s + N.min (zN (Z.max a 0)) MAX_STEP).
    pose proof (on_timeout_linv L (now s) r (idm s) ts HR Hl ltac:(unfold ts; lia)) as H.
    destruct (on_timeout r (idm s) ts) as [r' m']. cbn [fst] in *. unfold GL. cbn [conns now].
    apply Forall_set_nth; [|cbn [with_reg creg]; exact H].
    unfold GL in HG. eapply Forall_impl; [|exact HG]. intros k0 X. cbn beta in X. destruct (creg k0); auto. eapply LInv_now; [|exact X]. unfold ts. lia.
  - (* handshake confirmed *)
    eapply upd1; [reflexivity|]. unfold on_handshake_confirmed. destruct (rot r) eqn:Erot; [|exact Hl].
    destruct (retire_hs (infos r)) as [l|] eqn:E; [|exact Hl].
    pose proof (retire_hs_keep _ _ E) as K. pose proof (retire_hs_zero _ _ E (inv_sorted _ HR)) as Z0.
    apply (keep_inv2 L (now s) r); cbn [infos rpt]; auto.
    pose proof (keep_below (rpt r) _ _ K (li_below _ _ _ Hl)) as Bl.
    rewrite Forall_forall in *. intros i Hi Hlt. destruct (N.lt_ge_cases (iseq i) (rpt r)); [apply Bl; auto|apply Z0; auto; lia].
  - (* close *)
    unfold GL, close_conn. cbn [conns now]. apply Forall_set_nth; auto. exact I.
Qed.

Theorem rpt_le_seq_constant_lifetime L s0 ops :
  GInv s0 -> GL L s0 -> Forall (op_life L) ops ->
  forall c r constraint cap pn f,
    creg (nth c (conns (state_after s0 ops)) dummy_conn) = Some r ->
    In f (snd (on_transmit r constraint cap pn)) ->
    let '(sq, p, _, _) := f in p <= sq.
Proof.
  intros G0 L0 Hops.
  assert (H : GInv (state_after s0 ops) /\ GL L (state_after s0 ops)).
  { revert s0 G0 L0. induction Hops as [|o t Ho _ IH]; intros s0 G0 L0; cbn [state_after fold_left]; [auto|].
    apply IH; [apply step_inv; auto|apply step_gl; auto]. }
  destruct H as [G HL]. intros c r constraint cap pn f Hr Hin.
  assert (HLr : LInv L (now (state_after s0 ops)) r).
  { pose proof (Forall_nth_d (fun k => match creg k with Some r => LInv L (now (state_after s0 ops)) r | None => True end) dummy_conn _ c HL I) as X.
    cbn in X. now rewrite Hr in X. }
  destruct (on_transmit_frames _ _ _ _ _ Hin) as (i & Hi & -> & Hret).
  destruct (N.le_gt_cases (rpt r) (iseq i)); auto.
  pose proof (li_below _ _ _ HLr) as B. rewrite Forall_forall in B. rewrite (B i Hi) in Hret by lia. discriminate.
Qed.

(* the hypothesis on the initial state is met by a registry created with a handshake id of lifetime L *)
Lemma new_reg_linv L nw id tok v rotate : life v = L -> LInv L nw (new_reg id tok (expiry v nw) rotate).
Proof.
  intros Ha. unfold expiry. rewrite Ha. constructor; cbn [new_reg infos rpt].
  - repeat constructor. unfold life_ok. destruct L as [l|]; cbn [option_map iret]; auto.
    exists (nw + l - exp_buf). split; auto. destruct (life_cases v) as [E|(l' & E & Hl)]; rewrite Ha in E; [discriminate|].
    injection E as <-. lia.
  - repeat constructor.
  - repeat constructor. cbn [iseq]. lia.
Qed.
