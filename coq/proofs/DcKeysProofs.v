(* Proofs about the receiver key-state model (C18). *)
From SQ Require Import lib.Base model.DcKeys.
Local Open Scope N_scope.
Import DcKeys.

(* a packet that opens under neither of the two keys the receiver holds is rejected and leaves the
   key state as it was -- whatever its key-phase bit says *)
Theorem forged_key_state_unchanged : forall opens s p,
  (forall g, opens g p = false) -> recv opens s p = (s, false).
Proof. intros opens s p H. unfold recv. now rewrite H. Qed.

(* the key state changes only when a packet opened under the NEXT generation's key *)
Theorem rotation_only_if_opened : forall opens s p,
  fst (recv opens s p) <> s -> opens (k_recv_gen s + 1) p = true /\ snd (recv opens s p) = true.
Proof.
  intros opens [gr gs] p H. unfold recv in *. cbn [k_recv_gen k_send_gen] in *.
  destruct (kp_bit p =? gr mod 2).
  - destruct (opens gr p); cbn [fst] in H; now contradiction H.
  - destruct (opens (gr + 1) p) eqn:E; cbn [fst snd] in *; [split; reflexivity|now contradiction H].
Qed.

(* histories: interleaving any number of forged packets gives the key state (and the verdicts on the
   authentic packets) of the history without them *)
Section Histories.
  Variable opens : N -> kpkt -> bool.

  Fixpoint deliver (s : kstate) (ps : list kpkt) : kstate * list bool :=
    match ps with
    | [] => (s, [])
    | p :: t => let '(s1, a) := recv opens s p in
                let '(s2, l) := deliver s1 t in (s2, a :: l)
    end.

  Definition never_opens (p : kpkt) : Prop := forall g, opens g p = false.

  Theorem forged_history_key_state : forall ps s p qs,
    never_opens p ->
    fst (deliver s (ps ++ p :: qs)) = fst (deliver s (ps ++ qs)).
  Proof.
    induction ps as [|q ps IH]; intros s p qs Hp; cbn [app deliver].
    - rewrite (forged_key_state_unchanged opens s p Hp).
      destruct (deliver s qs) as [s2 l]. reflexivity.
    - destruct (recv opens s q) as [s1 a]. specialize (IH s1 p qs Hp).
      destruct (deliver s1 (ps ++ p :: qs)) as [s2 l]. destruct (deliver s1 (ps ++ qs)) as [s2' l'].
      cbn [fst] in *. exact IH.
  Qed.
End Histories.

Lemma zlist_eqb_refl : forall l, zlist_eqb l l = true.
Proof. induction l as [|x l IH]; cbn [zlist_eqb]; [reflexivity|]. now rewrite Z.eqb_refl, IH. Qed.

Theorem judge_run : forall case, judge case (run case) = true.
Proof. intros. unfold judge. apply zlist_eqb_refl. Qed.

(* in the harness protocol a forged packet never opens, so it is rejected without effect *)
Theorem run_forged_no_effect : forall gs s p, recv (case_opens gs true) s p = (s, false).
Proof. intros. apply forged_key_state_unchanged. intros g. reflexivity. Qed.

(* non-vacuity: two authentic packets, a forged one with the key-phase bit flipped, an authentic
   one, a key update, a forged one, two authentic ones (the first of them rotates the opener) *)
Example keys_example :
  run [0; 0; 1; 0; 1; 0; 2; 1; 5; 9; 0; 0]%Z = [1; 0; 1; 0; 0; 0; 1; 0; 0; 0; 1; 1; 1; 1]%Z.
Proof. vm_compute. reflexivity. Qed.
