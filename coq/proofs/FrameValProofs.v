From SQ Require Import lib.Base gen.Gen_C04 model.FrameVal.
Local Open Scope N_scope.

(* the decoders reject exactly the malformed limit values, with a code RFC 9000 permits *)
Lemma fv_judge_run : forall c, fv_judge c (fv_run c) = true.
Proof.
  intro c. unfold fv_judge, fv_run. destruct (fv_args c) as [[[kind a] b] len].
  destruct (kind <? 4) eqn:EK.
  - destruct (a <=? two60) eqn:E.
    + apply N.leb_le in E. assert (two60 <? a = false) as -> by (apply N.ltb_ge; exact E). reflexivity.
    + apply N.leb_gt in E. assert (two60 <? a = true) as -> by (apply N.ltb_lt; exact E). reflexivity.
  - destruct (b <=? a) eqn:E1; destruct (1 <=? len) eqn:E2; destruct (20 <? len) eqn:E3; cbn;
      try (apply N.leb_le in E1); try (apply N.leb_gt in E1); try (apply N.leb_le in E2); try (apply N.leb_gt in E2);
      try (apply N.ltb_lt in E3); try (apply N.ltb_ge in E3);
      repeat match goal with
             | |- context [?x <? ?y] => let H := fresh in destruct (x <? y) eqn:H; [apply N.ltb_lt in H|apply N.ltb_ge in H]
             | |- context [?x <=? ?y] => let H := fresh in destruct (x <=? y) eqn:H; [apply N.leb_le in H|apply N.leb_gt in H]
             end; cbn; try reflexivity; try lia.
Qed.
