(* Proofs about the dc sender key-id model (C19, sender side). *)
From SQ Require Import lib.Base lib.ListX model.DcSender.
From Coq Require Import Sorting.Sorted.
Local Open Scope Z_scope.

Lemma incr_ok_weaken : forall l lo lo', lo' <= lo -> incr_ok lo l = true -> incr_ok lo' l = true.
Proof.
  intros [|a t] lo lo' Hle H; [reflexivity|].
  cbn [incr_ok] in *.
  destruct a as [|p|p]; try (apply andb_true_iff in H as [H1 H2]; apply andb_true_iff; split;
    [apply Z.leb_le; apply Z.leb_le in H1; lia|assumption]).
  destruct p; try (apply andb_true_iff in H as [H1 H2]; apply andb_true_iff; split;
    [apply Z.leb_le; apply Z.leb_le in H1; lia|assumption]).
  destruct t; [reflexivity|].
  apply andb_true_iff in H as [H1 H2]; apply andb_true_iff; split;
    [apply Z.leb_le; apply Z.leb_le in H1; lia|assumption].
Qed.

Lemma run_from_incr : forall fuel cur ops, incr_ok (Nz cur) (run_from fuel cur ops) = true.
Proof.
  induction fuel as [|fuel IH]; intros cur ops; [reflexivity|].
  cbn [run_from]. destruct ops as [|op t]; [reflexivity|].
  destruct op as [|p|p].
  - unfold next_key_id. destruct (N.ltb_spec (cur + 1) varint_max) as [Hlt|Hge]; [|reflexivity].
    assert (Hstep : incr_ok (Nz cur + 1) (run_from fuel (cur + 1)%N t) = true).
    { replace (Nz cur + 1) with (Nz (cur + 1)%N) by (unfold Nz; lia). apply IH. }
    assert (Hnn : 0 <= Nz cur) by (unfold Nz; lia).
    cbn [incr_ok]. destruct (Nz cur) as [|q|q] eqn:Eq; try lia;
      (rewrite Hstep, andb_true_r; apply Z.leb_le; lia).
  - destruct t as [|m t].
    + eapply incr_ok_weaken; [|apply IH]. unfold Nz, stale. lia.
    + eapply incr_ok_weaken; [|apply IH]. unfold Nz, stale. lia.
  - destruct t as [|m t].
    + eapply incr_ok_weaken; [|apply IH]. unfold Nz, stale. lia.
    + eapply incr_ok_weaken; [|apply IH]. unfold Nz, stale. lia.
Qed.

(* every case of the model satisfies the judgement used on the implementation *)
Lemma judge_run : forall ops, judge ops (run ops) = true.
Proof. intros ops. unfold judge, run. apply (run_from_incr _ sinit). Qed.

(* meaning of the judgement: the issued ids are strictly increasing from [lo] *)
Lemma incr_ok_sorted : forall l lo, incr_ok lo l = true ->
  StronglySorted Z.lt (issued l) /\ Forall (fun a => lo <= a) (issued l).
Proof.
  induction l as [|a t IH]; intros lo H; [split; constructor|].
  assert (Hcases : (a = -1 /\ t = []) \/ ((lo <=? a) && incr_ok (a + 1) t = true)).
  { cbn [incr_ok] in H. destruct a as [|p|p]; auto. destruct p; auto. destruct t; auto. }
  destruct Hcases as [[-> ->]|Hc].
  - cbn. split; constructor.
  - apply andb_true_iff in Hc as [H1 H2]. apply Z.leb_le in H1.
    destruct (IH _ H2) as [Hs Hf]. unfold issued in *. cbn [filter].
    destruct (Z.leb_spec 0 a) as [Hpos|Hneg].
    + split.
      * constructor; [assumption|]. eapply Forall_impl; [|exact Hf]. cbn. intros; lia.
      * constructor; [assumption|]. eapply Forall_impl; [|exact Hf]. cbn. intros; lia.
    + split; [assumption|]. eapply Forall_impl; [|exact Hf]. cbn. intros; lia.
Qed.

Lemma sorted_nodup : forall l, StronglySorted Z.lt l -> NoDup l.
Proof.
  induction 1 as [|a l Hs IH Hf]; constructor; [|assumption].
  intros Hin. rewrite Forall_forall in Hf. specialize (Hf _ Hin). lia.
Qed.

Lemma issued_strictly_increasing : forall ops,
  StronglySorted Z.lt (issued (run ops)) /\ NoDup (issued (run ops)).
Proof.
  intros ops. destruct (incr_ok_sorted _ _ (judge_run ops)) as [Hs _].
  split; [assumption|apply sorted_nodup; assumption].
Qed.
